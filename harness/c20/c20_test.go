// C20: macro expansion rewrites exactly the macro calls and leaves other code unchanged.
//
// (a) macro-free code (generated text and standard-library files) goes through
//
//	MacroExpandCodewalk of both interpreters and must come out structurally equal up
//	to norm (ParenExpr / ExprStmt / DeclStmt wrappers, single-statement blocks without
//	declaration or :=, empty statements).
//
// (b) programs with randomly generated macros (0..3 parameters; results: nothing, one
//
//	node, a node list, calls of other macros) are compared with a reference expander
//	that works on the program *text*: the expected expansion is rendered as plain Go
//	and parsed by go/parser.
package c20

import (
	"encoding/json"
	"fmt"
	"go/ast"
	stdparser "go/parser"
	"go/token"
	"io"
	"os"
	"path/filepath"
	"sort"
	"strings"
	"testing"

	"github.com/cosmos72/gomacro/ast2"
	"github.com/cosmos72/gomacro/classic"
	"github.com/cosmos72/gomacro/fast"
	"pgregory.net/rapid"

	"verif/harness/vlib"
)

var rec *vlib.Rec

func TestMain(m *testing.M) {
	rec = vlib.Open("C20")
	rec.Rule("(a) macro-free inputs: generated Go statement lists (all statement and expression kinds of the generator) and every top-level node of standard-library files; non-trivial = the input holds at least one parenthesised expression or a single-statement block (a wrapper the walk may remove). " +
		"(b) programs over 1-3 randomly generated macros with 0..3 parameters returning nothing / one node / a node list / calls of other macros, called at random statement positions and nesting levels, inside ~quote, inside ~quasiquote (with and without ~unquote), with too few arguments; non-trivial = a macro call produced by another macro's expansion, a call inside a nested list, or a call inside quote/quasiquote; distinct = distinct source text")
	rec.Assume("norm: ParenExpr, ExprStmt, DeclStmt wrappers transparent; a block with exactly one statement that is neither a declaration nor a := assignment is transparent; empty statements dropped from statement lists; positions, Obj, Scope, comments ignored")
	rec.Assume("reference expander (restated from the property): scan a statement list left to right; an identifier statement naming a macro consumes as many following statements as the macro has parameters and is replaced by the macro's results in order (a result that is a block contributes its statements); repeat on the whole list until nothing expands; then descend (pre-order); never descend into ~quote; inside ~quasiquote expand only below ~unquote")
	rec.Assume("expected expansions are rendered as text and parsed by go/parser (gomacro's parser, parse only, when the text holds quote syntax)")
	rec.Assume("harness go.mod: go 1.23 with godebug default=go1.18 (the settings of gomacro's own module)")
	os.Exit(vlib.Main(m, rec))
}

// ---------------------------------------------------------------- interpreters

type pair struct {
	f    *fast.Interp
	c    *classic.Interp
	used int
}

func newPair() *pair {
	f := fast.New()
	f.Comp.Globals.Stdout, f.Comp.Globals.Stderr = io.Discard, io.Discard
	c := classic.New()
	c.Stdout, c.Stderr = io.Discard, io.Discard
	return &pair{f: f, c: c}
}

func nodesOf(a ast2.Ast) []ast.Node {
	switch a := a.(type) {
	case nil:
		return nil
	case ast2.NodeSlice:
		return a.X
	case ast2.AstWithNode:
		return []ast.Node{a.Node()}
	case ast2.AstWithSlice:
		var ns []ast.Node
		for i := 0; i < a.Size(); i++ {
			ns = append(ns, ast2.ToNode(a.Get(i)))
		}
		return ns
	}
	return nil
}

var normOpt = dumpOpt{stripParens: true, norm: true}

// canonList dumps top-level nodes as one statement list under norm.
func canonList(ns []ast.Node) string {
	var b strings.Builder
	b.WriteString("[")
	first := true
	for _, n := range ns {
		if n == nil {
			continue
		}
		s := dumpNode(n, normOpt)
		if s == "[]" { // empty statement / empty block at top level contributes nothing
			continue
		}
		if !first {
			b.WriteString(" ")
		}
		first = false
		b.WriteString(s)
	}
	b.WriteString("]")
	return b.String()
}

// parse only (gomacro's parser, what the interpreter feeds to the walk)
func (p *pair) parseOnly(src string) (ns []ast.Node, perr interface{}) {
	perr = vlib.Try(func() { ns = p.f.Comp.ParseBytes([]byte(src)) })
	return
}

func (p *pair) expandFast(src string) (ns []ast.Node, perr interface{}) {
	perr = vlib.Try(func() { ns = nodesOf(p.f.Comp.Parse(src)) })
	return
}

func (p *pair) expandClassic(src string) (ns []ast.Node, perr interface{}) {
	perr = vlib.Try(func() { ns = nodesOf(p.c.Parse(src)) })
	return
}

func stdParseList(text string) ([]ast.Node, error) {
	fset := token.NewFileSet()
	f, err := stdparser.ParseFile(fset, "exp.go", "package p\nfunc _() {\n"+text+"\n}\n", stdparser.SkipObjectResolution)
	if err != nil {
		return nil, err
	}
	var ns []ast.Node
	for _, s := range f.Decls[0].(*ast.FuncDecl).Body.List {
		ns = append(ns, s)
	}
	return ns, nil
}

// ---------------------------------------------------------------- plain case (replay format)

type mcase struct {
	Kind      string   `json:"kind"` // "free" or "macro"
	Defs      []string `json:"defs"` // macro declarations, evaluated first
	Src       string   `json:"src"`
	Exp       string   `json:"exp"`        // expected expansion as text ("" with ExpErr)
	ExpParser string   `json:"exp_parser"` // "std" or "gomacro"
	ExpErr    bool     `json:"exp_err"`    // expansion must fail: too few arguments
}

func (c *mcase) bytes() []byte { b, _ := json.MarshalIndent(c, "", " "); return b }

type verdict struct{ violation, infra, excluded string }

func checkCase(c *mcase, p *pair) verdict {
	var want string
	if !c.ExpErr {
		var exp []ast.Node
		if c.ExpParser == "gomacro" {
			ns, perr := p.parseOnly(c.Exp)
			if perr != nil {
				return verdict{infra: fmt.Sprintf("gomacro parser on expected text: %v", perr)}
			}
			exp = ns
		} else {
			ns, err := stdParseList(c.Exp)
			if err != nil {
				return verdict{infra: fmt.Sprintf("go/parser on expected text: %v", err)}
			}
			exp = ns
		}
		want = canonList(exp)
	}
	for _, d := range c.Defs {
		if perr := vlib.Try(func() { p.f.Eval(d) }); perr != nil {
			return verdict{infra: fmt.Sprintf("fast: macro declaration %q failed: %v", d, perr)}
		}
		if perr := vlib.Try(func() { p.c.Eval(d) }); perr != nil {
			return verdict{infra: fmt.Sprintf("classic: macro declaration %q failed: %v", d, perr)}
		}
	}
	type side struct {
		name string
		run  func(string) ([]ast.Node, interface{})
	}
	for _, s := range []side{{"fast", p.expandFast}, {"classic", p.expandClassic}} {
		ns, perr := s.run(c.Src)
		if c.ExpErr {
			if perr == nil {
				return verdict{violation: fmt.Sprintf("%s: a macro call with too few following statements was accepted: result %s", s.name, canonList(ns))}
			}
			if !strings.Contains(fmt.Sprint(perr), "not enough arguments") {
				return verdict{violation: fmt.Sprintf("%s: a macro call with too few following statements failed in an unexpected way: %v", s.name, perr)}
			}
			continue
		}
		if perr != nil {
			msg := fmt.Sprint(perr)
			if c.Kind == "free" && (strings.Contains(msg, "expected ") || strings.Contains(msg, "internal error")) {
				return verdict{excluded: "parse-error"}
			}
			return verdict{violation: fmt.Sprintf("%s: macro expansion failed: %v\nwant %s", s.name, perr, want)}
		}
		if got := canonList(ns); got != want {
			return verdict{violation: fmt.Sprintf("%s: expansion differs from the reference\n got  %s\n want %s", s.name, got, want)}
		}
	}
	return verdict{}
}

// ---------------------------------------------------------------- (a) macro-free, generated

var shared *pair

func sharedPair() *pair {
	if shared == nil || shared.used > 400 {
		shared = newPair()
	}
	shared.used++
	return shared
}

func hasWrapper(src string) bool {
	return strings.Contains(src, "(") || strings.Contains(src, "{")
}

func TestMacroFreeGenerated(t *testing.T) {
	ran, want := 0, rec.Scale(300, 3000)
	defer func() { ranAll(t, &ran, want) }()
	rec.Check(t, want, func(rt *rapid.T) {
		ran++
		x := &g{t: rt, c: &qcase{}, holes: false, labels: map[string]int{}}
		d := 1 + x.intn(3, "size")
		src, _ := x.stmtList(d, 1, 1, 4)
		c := &mcase{Kind: "free", Src: src, Exp: src, ExpParser: "std"}
		v := checkCase(c, sharedPair())
		if v.infra != "" {
			rec.Label("infra-problem")
			rt.Fatalf("harness problem (not a violation): %s\nsrc: %s", v.infra, src)
		}
		if v.excluded != "" {
			rec.Label("excluded:" + v.excluded)
			return
		}
		for k, n := range x.labels {
			rec.LabelN("free:"+k, n)
		}
		// non-trivial: a parenthesised expression or a block with exactly one statement
		ns, _ := stdParseList(src)
		if nontrivialFree(ns) {
			rec.NT(src)
			rec.Label("nt:free-with-wrapper")
		}
		rec.Sample(map[string]string{"kind": "free", "src": src})
		if v.violation != "" {
			shared = nil
			if v2 := checkCase(c, newPair()); v2.violation == "" {
				rt.Fatalf("harness problem (not a violation): seen only on the shared interpreters: %s", v.violation)
			}
			rec.Failf(rt, "macro-free", c.bytes(), "json", "C20 violated (macro-free code changed): %s\nsrc: %s", v.violation, src)
		}
	})
}

func nontrivialFree(ns []ast.Node) bool {
	found := false
	for _, n := range ns {
		ast.Inspect(n, func(m ast.Node) bool {
			switch m := m.(type) {
			case *ast.ParenExpr:
				found = true
			case *ast.BlockStmt:
				if len(m.List) == 1 {
					found = true
				}
			}
			return !found
		})
	}
	return found
}

// ---------------------------------------------------------------- (a) macro-free, corpus

func corpusFiles() []string {
	var files []string
	root := "/usr/share/go-1.23/src"
	filepath.Walk(root, func(path string, info os.FileInfo, err error) error {
		if err != nil {
			return nil
		}
		if info.IsDir() {
			if info.Name() == "testdata" {
				return filepath.SkipDir
			}
			return nil
		}
		if strings.HasSuffix(path, ".go") {
			files = append(files, path)
		}
		return nil
	})
	sort.Strings(files)
	return files
}

func TestMacroFreeCorpus(t *testing.T) {
	if rec.ReplayOnly() {
		return
	}
	files := corpusFiles()
	if len(files) == 0 {
		rec.Note("standard library sources not found: corpus part skipped")
		return
	}
	stride := rec.Scale(48, 1) // quick: every 24th file (rotated by the seed), thorough: all
	p := newPair()
	idx := 0
	for i, path := range files {
		if (i+int(rec.Seed()))%stride != 0 {
			continue
		}
		idx++
		if !rec.Mine(idx) {
			continue
		}
		data, err := os.ReadFile(path)
		if err != nil {
			continue
		}
		src := string(data)
		if strings.Contains(src, "~") && false {
			continue
		}
		if p.used++; p.used > 150 {
			p = newPair()
		}
		in, perr := p.parseOnly(src)
		if perr != nil {
			rec.Label("corpus:excluded:parser-rejects") // generics, parser internal errors: C24's subject
			continue
		}
		want := make([]string, len(in))
		for k, n := range in {
			want[k] = canonList([]ast.Node{n})
		}
		rec.Eval(len(in))
		rec.Label("corpus:files")
		for _, s := range []struct {
			name string
			walk func(n ast.Node) (ast.Node, interface{})
		}{
			{"fast", func(n ast.Node) (out ast.Node, perr interface{}) {
				perr = vlib.Try(func() { out, _ = p.f.Comp.MacroExpandNodeCodewalk(n) })
				return
			}},
			{"classic", func(n ast.Node) (out ast.Node, perr interface{}) {
				perr = vlib.Try(func() { out, _ = p.c.MacroExpandCodewalk(n) })
				return
			}},
		} {
			for k, n := range in {
				out, perr := s.walk(n)
				got := ""
				if perr == nil {
					got = canonList([]ast.Node{out})
				}
				if perr != nil || got != want[k] {
					// minimal self-contained replay: the text of this top-level node
					text := nodeText(src, p, n)
					c := &mcase{Kind: "free", Src: text, Exp: text, ExpParser: "gomacro"}
					msg := fmt.Sprintf("%s: macro-free declaration of %s changed by the walk (panic=%v)\n got  %s\n want %s", s.name, path, perr, clip(got), clip(want[k]))
					rec.Violation("corpus:"+path, c.bytes(), "json", "%s", msg)
					t.Errorf("%s", msg)
					return
				}
				if k%7 == 0 && nontrivialFree([]ast.Node{n}) {
					rec.NT(fmt.Sprintf("%s#%d", path, k))
				}
			}
		}
	}
}

func clip(s string) string {
	if len(s) > 1500 {
		return s[:1500] + "..."
	}
	return s
}

func nodeText(src string, p *pair, n ast.Node) string {
	fs := p.f.Comp.Fileset
	a, b := fs.Position(n.Pos()).Offset, fs.Position(n.End()).Offset
	if a >= 0 && b <= len(src) && a < b {
		return src[a:b]
	}
	return src
}

// ---------------------------------------------------------------- (b) macros: item model

// item: one statement of a program or of a macro body.
type item struct {
	kind    int      // iPlain, iMacro, iParam, iCompound, iQuote
	text    string   // iPlain: statement text; iMacro: macro name
	param   int      // iParam
	parts   []string // iCompound / iQuote: parts[0] list0 parts[1] list1 ... parts[n]
	lists   [][]item
	block   bool   // iCompound that is a plain block {...}
	clauses bool   // iCompound whose lists are case clause bodies
	qop     string // iQuote: "~quote", "~quasiquote", "~unquote"
}

const (
	iPlain = iota
	iMacro
	iParam
	iCompound
	iQuote
)

type macroDef struct {
	name   string
	nparam int
	body   []item
}

func renderList(l []item, params bool) string {
	ss := make([]string, len(l))
	for i, it := range l {
		ss[i] = renderItem(it, params)
	}
	return strings.Join(ss, "; ")
}

func renderItem(it item, params bool) string {
	switch it.kind {
	case iPlain, iMacro:
		return it.text
	case iParam:
		return fmt.Sprintf("~unquote{p%d}", it.param)
	default:
		var b strings.Builder
		for i, l := range it.lists {
			b.WriteString(it.parts[i])
			b.WriteString(renderList(l, params))
		}
		b.WriteString(it.parts[len(it.lists)])
		return b.String()
	}
}

func (m *macroDef) source() string {
	ps := make([]string, m.nparam)
	for i := range ps {
		ps[i] = fmt.Sprintf("p%d", i)
	}
	sig := "(" + strings.Join(ps, ", ")
	if m.nparam > 0 {
		sig += " interface{}"
	}
	sig += ") interface{}"
	if len(m.body) == 0 {
		return "~macro " + m.name + sig + " { return nil }"
	}
	return "~macro " + m.name + sig + " { return ~quasiquote{" + renderList(m.body, true) + "} }"
}

func subst(l []item, args []item) []item {
	out := make([]item, 0, len(l))
	for _, it := range l {
		switch it.kind {
		case iParam:
			out = append(out, args[it.param])
		case iCompound, iQuote:
			c := it
			c.lists = make([][]item, len(it.lists))
			for i, ll := range it.lists {
				c.lists[i] = subst(ll, args)
			}
			out = append(out, c)
		default:
			out = append(out, it)
		}
	}
	return out
}

type expander struct {
	macros      map[string]*macroDef
	tooFew      bool
	steps       int
	nestedGen   bool // a macro call that came out of another expansion was expanded
	inList      bool // a call inside a nested list was expanded
	inQuote     bool
	runaway     bool
	loneCall    bool
	lostInQuote bool
	// a case / default clause body that is not empty and expands to nothing (F-C20-3)
	emptyClause bool
}

// expandList is the reference expander for one statement list at quasiquote depth 0.
func (e *expander) expandList(l []item, nested bool) []item {
	if nested && len(l) == 1 && l[0].kind == iMacro && e.macros[l[0].text] != nil {
		e.loneCall = true // F-C20-1 shape, possibly produced by a substitution
	}
	for {
		var out []item
		expanded := false
		for i := 0; i < len(l); i++ {
			it := l[i]
			m := e.macros[it.text]
			if it.kind != iMacro || m == nil {
				out = append(out, it)
				continue
			}
			if m.nparam > len(l)-i-1 {
				e.tooFew = true
				return l
			}
			args := l[i+1 : i+1+m.nparam]
			res := subst(m.body, args)
			// the macro returns one value: nil, one node, or a block of the body
			// statements; a block value contributes its statements
			if len(res) == 1 && res[0].kind == iCompound && res[0].block {
				res = res[0].lists[0]
			}
			out = append(out, res...)
			i += m.nparam
			expanded = true
			e.steps++
			if nested {
				e.inList = true
			}
			if e.steps > 60 {
				e.tooFew, e.runaway = true, true // too large: outside the generated domain
				return l
			}
		}
		l = out
		if !expanded {
			break
		}
		if len(l) == 1 && l[0].kind == iMacro && e.macros[l[0].text] != nil {
			e.loneCall = true // the list shrank to one macro name: same shape
		}
		// another round: calls produced by the expansion
		for _, it := range l {
			if it.kind == iMacro {
				e.nestedGen = true
			}
		}
	}
	// descend
	out := make([]item, len(l))
	for i, it := range l {
		out[i] = e.descend(it, 0)
	}
	return out
}

func (e *expander) descend(it item, qd int) item {
	switch it.kind {
	case iCompound:
		c := it
		c.lists = make([][]item, len(it.lists))
		for i, ll := range it.lists {
			if qd <= 0 {
				c.lists[i] = e.expandList(ll, true)
			} else {
				c.lists[i] = e.descendList(ll, qd)
			}
			if e.tooFew {
				return it
			}
			if it.clauses && len(ll) > 0 && len(c.lists[i]) == 0 {
				e.emptyClause = true
			}
		}
		return c
	case iQuote:
		switch it.qop {
		case "~quote":
			if qd == 0 {
				e.inQuote = true
				return it // never expanded
			}
		case "~quasiquote":
			qd++
			e.inQuote = true
		case "~unquote":
			qd--
		}
		c := it
		c.lists = make([][]item, len(it.lists))
		for i, ll := range it.lists {
			if qd <= 0 {
				before := e.steps
				c.lists[i] = e.expandList(ll, true)
				if r := c.lists[i]; e.steps > before && len(r) == 1 && r[0].kind == iQuote && r[0].qop != "~quote" {
					// F-C20-4 shape: the list below a quote form expanded down to one
					// ~quasiquote / ~unquote form
					e.lostInQuote = true
				}
			} else {
				c.lists[i] = e.descendList(ll, qd)
			}
		}
		return c
	}
	return it
}

func (e *expander) descendList(l []item, qd int) []item {
	out := make([]item, len(l))
	for i, it := range l {
		out[i] = e.descend(it, qd)
	}
	return out
}

// ---------------------------------------------------------------- (b) generation

type mg struct {
	t      *rapid.T
	macros []*macroDef
	plainN int
	quotes bool
	uid    string
}

func (x *mg) intn(n int, label string) int { return rapid.IntRange(0, n-1).Draw(x.t, label) }
func (x *mg) pct(p int, label string) bool { return x.intn(100, label) < p }

// plain statements: never a return / declaration (ast2 treats ReturnStmt and GenDecl as
// lists, see NOTES.md) and never a bare block; unique so that order and duplication show
func (x *mg) plain() item {
	x.plainN++
	n := x.plainN
	switch x.intn(6, "plainkind") {
	case 0:
		return item{kind: iPlain, text: fmt.Sprintf("s%d()", n)}
	case 1:
		return item{kind: iPlain, text: fmt.Sprintf("v%d = (a + %d) * b", n, n)}
	case 2:
		return item{kind: iPlain, text: fmt.Sprintf("x%d := f(%d, (c))", n, n)}
	case 3:
		return item{kind: iPlain, text: fmt.Sprintf("c%d <- %d", n, n)}
	case 4:
		return item{kind: iPlain, text: fmt.Sprintf("(e%d)", n)}
	default:
		return item{kind: iPlain, text: fmt.Sprintf("i%d++", n)}
	}
}

func (x *mg) compound(d int, inBody bool, nparam int) item {
	n := x.plainN
	x.plainN++
	l1 := x.list(d-1, inBody, nparam, 0, 3)
	switch x.intn(6, "compoundkind") {
	case 0:
		return item{kind: iCompound, parts: []string{fmt.Sprintf("if c%d {", n), "}"}, lists: [][]item{l1}}
	case 1:
		l2 := x.list(d-1, inBody, nparam, 0, 2)
		return item{kind: iCompound, parts: []string{fmt.Sprintf("if c%d {", n), "} else {", "}"}, lists: [][]item{l1, l2}}
	case 2:
		return item{kind: iCompound, parts: []string{fmt.Sprintf("for c%d {", n), "}"}, lists: [][]item{l1}}
	case 3:
		l2 := x.list(d-1, inBody, nparam, 0, 2)
		return item{kind: iCompound, parts: []string{fmt.Sprintf("switch t%d { case 1: ", n), "\ndefault: ", "}"}, lists: [][]item{l1, l2}, clauses: true}
	case 4:
		return item{kind: iCompound, parts: []string{fmt.Sprintf("g%d(func() {", n), "})"}, lists: [][]item{l1}}
	default:
		// a bare block needs two or more statements or a :=, else norm removes it anyway
		return item{kind: iCompound, parts: []string{"{", "}"}, lists: [][]item{l1}, block: true}
	}
}

func (x *mg) quoteItem(d int, inBody bool, nparam int) item {
	op := []string{"~quote", "~quasiquote", "~quasiquote"}[x.intn(3, "quoteop")]
	var l []item
	if op == "~quasiquote" {
		l = x.list(d-1, inBody, nparam, 1, 3)
		if x.pct(60, "with-unquote") {
			u := item{kind: iQuote, qop: "~unquote", parts: []string{"~unquote{", "}"}, lists: [][]item{x.list(d-1, inBody, nparam, 2, 3)}}
			l = append(l, u)
		}
	} else {
		l = x.list(d-1, inBody, nparam, 1, 3)
	}
	return item{kind: iQuote, qop: op, parts: []string{op + "{", "}"}, lists: [][]item{l}}
}

// list generates a statement list; macro calls get enough following statements most of
// the time.
func (x *mg) list(d int, inBody bool, nparam int, min, max int) []item {
	n := min + x.intn(max-min+1, "nitems")
	var l []item
	for len(l) < n {
		switch k := x.intn(10, "itemkind"); {
		case k < 3 && len(x.macros) > 0:
			m := x.macros[x.intn(len(x.macros), "which-macro")]
			l = append(l, item{kind: iMacro, text: m.name})
			short := x.pct(4, "too-few")
			for j := 0; j < m.nparam; j++ {
				if short && j == m.nparam-1 {
					break
				}
				l = append(l, x.arg(d, inBody, nparam))
			}
		case k < 5 && d > 0:
			l = append(l, x.compound(d, inBody, nparam))
		case k == 5 && d > 0 && x.quotes && !inBody:
			l = append(l, x.quoteItem(d, inBody, nparam))
		case k == 6 && inBody && nparam > 0:
			l = append(l, item{kind: iParam, param: x.intn(nparam, "param")})
		default:
			l = append(l, x.plain())
		}
	}
	if len(l) == 1 && l[0].kind == iMacro && d < 3 && rec.Known("F-C20-1") {
		// known finding F-C20-1: a macro call that is the only statement of a nested block
		// is not expanded (the walk unwraps the one-statement block to an identifier first)
		rec.Excluded("F-C20-1")
		l = append(l, x.plain())
	}
	return l
}

func (x *mg) arg(d int, inBody bool, nparam int) item {
	switch k := x.intn(6, "argkind"); {
	case k == 0 && d > 0:
		return x.compound(d, inBody, nparam)
	case k == 1 && inBody && nparam > 0:
		return item{kind: iParam, param: x.intn(nparam, "param")}
	default:
		return x.plain()
	}
}

func hasQuote(l []item) bool {
	for _, it := range l {
		if it.kind == iQuote {
			return true
		}
		for _, ll := range it.lists {
			if hasQuote(ll) {
				return true
			}
		}
	}
	return false
}

var caseCounter int

func genMacroCase(rt *rapid.T) (*mcase, *expander) {
	caseCounter++
	x := &mg{t: rt, uid: fmt.Sprintf("k%d", caseCounter)}
	x.quotes = x.pct(30, "quotes")
	nm := 1 + x.intn(3, "nmacros")
	c := &mcase{Kind: "macro", ExpParser: "std"}
	e := &expander{macros: map[string]*macroDef{}}
	for i := 0; i < nm; i++ {
		m := &macroDef{name: fmt.Sprintf("mac%d_%s", i, x.uid), nparam: x.intn(4, "nparam")}
		// body: may use the parameters and the macros defined so far (no recursion)
		switch x.intn(5, "bodykind") {
		case 0:
			m.body = nil // returns nothing
		case 1:
			if m.nparam > 0 {
				m.body = []item{{kind: iParam, param: x.intn(m.nparam, "param")}}
			} else {
				m.body = []item{x.plain()}
			}
		case 2:
			m.body = []item{x.compound(2, true, m.nparam)}
		default:
			m.body = x.list(2, true, m.nparam, 2, 4)
		}
		// a body that is one macro name alone would return an identifier: fine, it is a call with 0 following statements
		x.macros = append(x.macros, m)
		e.macros[m.name] = m
		c.Defs = append(c.Defs, m.source())
	}
	// at least two top-level statements: the classic interpreter does not treat a single
	// top-level node as a statement list (a lone `mac` is left alone there, see NOTES.md)
	prog := x.list(3, false, 0, 2, 5)
	c.Src = renderList(prog, false)
	out := e.expandList(prog, false)
	if e.tooFew {
		c.ExpErr = true
	} else {
		c.Exp = renderList(out, false)
		if hasQuote(out) {
			c.ExpParser = "gomacro"
		}
	}
	return c, e
}

// ranAll fails the test (no violation recorded: the driver reports INCONCLUSIVE) when
// rapid stopped early because the test deadline was near.
func ranAll(t *testing.T, ran *int, want int) {
	if !rec.ReplayOnly() && !t.Failed() && *ran < want {
		t.Fatalf("inconclusive: only %d of %d cases ran before the deadline", *ran, want)
	}
}

func TestMacros(t *testing.T) {
	ran, want := 0, rec.Scale(500, 5000)
	defer func() { ranAll(t, &ran, want) }()
	rec.Check(t, want, func(rt *rapid.T) {
		ran++
		c, e := genMacroCase(rt)
		if e.runaway {
			rec.Label("excluded:expansion-larger-than-60-steps")
			return
		}
		if e.loneCall && rec.Known("F-C20-1") {
			rec.Excluded("F-C20-1")
			return
		}
		if e.lostInQuote && rec.Known("F-C20-4") {
			rec.Excluded("F-C20-4")
			return
		}
		if e.emptyClause && rec.Known("F-C20-3") {
			rec.Excluded("F-C20-3")
			return
		}
		if os.Getenv("C20_TRACE") != "" {
			fmt.Fprintf(os.Stderr, "TRACE %s\n", c.bytes())
		}
		v := checkCase(c, sharedPair())
		if v.infra != "" {
			rec.Label("infra-problem")
			rt.Fatalf("harness problem (not a violation): %s\ndefs: %s\nsrc: %s\nexp: %s", v.infra, strings.Join(c.Defs, "\n"), c.Src, c.Exp)
		}
		rec.Label(fmt.Sprintf("macro:expansion-steps:%s", bucket(e.steps)))
		if c.ExpErr {
			rec.Label("macro:too-few-arguments")
		}
		if e.nestedGen {
			rec.Label("nt:call-from-expansion")
		}
		if e.inList {
			rec.Label("nt:call-in-nested-list")
		}
		if e.inQuote {
			rec.Label("nt:quote-or-quasiquote")
		}
		if e.steps > 0 && (e.nestedGen || e.inList || e.inQuote) {
			rec.NT(strings.Join(c.Defs, "\n") + "\n" + c.Src)
		}
		rec.Sample(map[string]interface{}{"defs": c.Defs, "src": c.Src, "exp": c.Exp, "exp_err": c.ExpErr})
		if v.violation != "" {
			shared = nil
			if v2 := checkCase(c, newPair()); v2.violation == "" {
				rt.Fatalf("harness problem (not a violation): seen only on the shared interpreters: %s", v.violation)
			}
			rec.Failf(rt, "macros", c.bytes(), "json", "C20 violated: %s\ndefs: %s\nsrc: %s\nexp: %s", v.violation, strings.Join(c.Defs, "\n"), c.Src, c.Exp)
		}
	})
}

func bucket(n int) string {
	switch {
	case n == 0:
		return "0"
	case n <= 2:
		return "1-2"
	case n <= 5:
		return "3-5"
	default:
		return "6+"
	}
}

// ---------------------------------------------------------------- replay

func replay(content []byte) error {
	var c mcase
	if err := json.Unmarshal(content, &c); err != nil {
		return fmt.Errorf("bad replay file: %v", err)
	}
	v := checkCase(&c, newPair())
	if v.infra != "" {
		panic("replay: harness problem: " + v.infra)
	}
	if v.violation != "" {
		return fmt.Errorf("%s", v.violation)
	}
	return nil
}

func TestReplays(t *testing.T) { rec.RunReplays(t, replay) }
