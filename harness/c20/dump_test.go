package c20

import (
	"fmt"
	"go/ast"
	"go/token"
	"reflect"
	"strings"

	etoken "github.com/cosmos72/gomacro/go/etoken"
)

// Canonical, position-insensitive dump of a go/ast tree. Ignored: every token.Pos
// (except the three that carry syntax: CallExpr.Ellipsis, TypeSpec.Assign as
// booleans), Obj, Scope, Unresolved, comments, Incomplete, Implicit. nil and empty
// slices are the same; a nil *FieldList equals an empty one in FuncType.Params /
// Results / TypeParams (both print the same source), but not in FuncDecl.Recv, where
// empty-non-nil is gomacro's encoding of a macro declaration.
type dumpOpt struct {
	stripParens bool
	// norm of C20: ExprStmt / DeclStmt wrappers transparent, single-statement blocks
	// without declaration or := transparent, empty statements dropped from lists
	norm bool
}

var (
	tBlockPtr = reflect.TypeOf((*ast.BlockStmt)(nil))
	tStmt     = reflect.TypeOf((*ast.Stmt)(nil)).Elem()
	tStmts    = reflect.TypeOf([]ast.Stmt(nil))
)

// unwrapTrivial restates the rule the property allows (and base.unwrapTrivialAst2
// implements): ParenExpr, ExprStmt, DeclStmt are wrappers; a block with exactly one
// statement is a wrapper unless that statement is a declaration or a := assignment.
func unwrapTrivial(n ast.Node) ast.Node {
	for {
		switch x := n.(type) {
		case *ast.BlockStmt:
			if x == nil || len(x.List) != 1 {
				return n
			}
			switch c := x.List[0].(type) {
			case *ast.DeclStmt:
				return n
			case *ast.AssignStmt:
				if c.Tok == token.DEFINE {
					return n
				}
			}
			n = x.List[0]
		case *ast.ParenExpr:
			n = x.X
		case *ast.ExprStmt:
			n = x.X
		case *ast.DeclStmt:
			n = x.Decl
		default:
			return n
		}
	}
}

func dumpStmtList(b *strings.Builder, list []ast.Stmt, o dumpOpt) {
	b.WriteString("[")
	first := true
	for _, s := range list {
		u := unwrapTrivial(s)
		if _, empty := u.(*ast.EmptyStmt); empty {
			continue
		}
		if blk, ok := u.(*ast.BlockStmt); ok && len(blk.List) == 0 {
			continue // an empty block statement means as little as an empty statement
		}
		if !first {
			b.WriteString(" ")
		}
		first = false
		dumpNormNode(b, u, o)
	}
	b.WriteString("]")
}

// dumpNormNode dumps an already unwrapped node; a block prints as its list.
func dumpNormNode(b *strings.Builder, u ast.Node, o dumpOpt) {
	if _, empty := u.(*ast.EmptyStmt); empty {
		b.WriteString("[]") // same as an empty block (else branch, labeled statement ...)
		return
	}
	if blk, ok := u.(*ast.BlockStmt); ok && blk != nil {
		dumpStmtList(b, blk.List, o)
		return
	}
	v := reflect.ValueOf(u)
	if v.Kind() == reflect.Ptr && !v.IsNil() {
		dumpValue(b, v.Elem(), o)
		return
	}
	dumpValue(b, v, o)
}

var (
	tPos      = reflect.TypeOf(token.NoPos)
	tTok      = reflect.TypeOf(token.ADD)
	tObj      = reflect.TypeOf((*ast.Object)(nil))
	tScope    = reflect.TypeOf((*ast.Scope)(nil))
	tCG       = reflect.TypeOf((*ast.CommentGroup)(nil))
	tCGs      = reflect.TypeOf([]*ast.CommentGroup(nil))
	tFL       = reflect.TypeOf((*ast.FieldList)(nil))
	tParenPtr = reflect.TypeOf((*ast.ParenExpr)(nil))
)

func dumpNode(n interface{}, o dumpOpt) string {
	var b strings.Builder
	if n == nil {
		return "nil"
	}
	if nn, ok := n.(ast.Node); ok && o.norm {
		u := unwrapTrivial(nn)
		if _, empty := u.(*ast.EmptyStmt); empty {
			return "[]"
		}
		dumpNormNode(&b, u, o)
		return b.String()
	}
	dumpValue(&b, reflect.ValueOf(n), o)
	return b.String()
}

func tokString(t token.Token) string {
	return etoken.String(t)
}

func dumpValue(b *strings.Builder, v reflect.Value, o dumpOpt) {
	if !v.IsValid() {
		b.WriteString("nil")
		return
	}
	if o.norm {
		switch {
		case v.Type() == tStmts:
			dumpStmtList(b, v.Interface().([]ast.Stmt), o)
			return
		case v.Type() == tBlockPtr:
			// mandatory block position: always printed as a list
			if v.IsNil() {
				b.WriteString("nil")
				return
			}
			u := unwrapTrivial(v.Interface().(*ast.BlockStmt))
			if blk, ok := u.(*ast.BlockStmt); ok {
				dumpStmtList(b, blk.List, o)
			} else if _, empty := u.(*ast.EmptyStmt); empty {
				b.WriteString("[]")
			} else {
				b.WriteString("[")
				dumpNormNode(b, u, o)
				b.WriteString("]")
			}
			return
		case v.Kind() == reflect.Interface && !v.IsNil():
			if n, ok := v.Interface().(ast.Node); ok {
				dumpNormNode(b, unwrapTrivial(n), o)
				return
			}
		}
	}
	switch v.Kind() {
	case reflect.Interface:
		if v.IsNil() {
			b.WriteString("nil")
			return
		}
		dumpValue(b, v.Elem(), o)
	case reflect.Ptr:
		if v.IsNil() {
			b.WriteString("nil")
			return
		}
		if o.stripParens && v.Type() == tParenPtr {
			dumpValue(b, v.Elem().FieldByName("X"), o)
			return
		}
		dumpValue(b, v.Elem(), o)
	case reflect.Slice:
		b.WriteString("[")
		for i := 0; i < v.Len(); i++ {
			if i > 0 {
				b.WriteString(" ")
			}
			dumpValue(b, v.Index(i), o)
		}
		b.WriteString("]")
	case reflect.Struct:
		t := v.Type()
		b.WriteString(t.Name())
		b.WriteString("{")
		first := true
		for i := 0; i < t.NumField(); i++ {
			f := t.Field(i)
			fv := v.Field(i)
			name := f.Name
			switch f.Type {
			case tPos:
				if (t.Name() == "CallExpr" && name == "Ellipsis") || (t.Name() == "TypeSpec" && name == "Assign") {
					if fv.Int() != 0 {
						if !first {
							b.WriteString(" ")
						}
						first = false
						b.WriteString(name + ":set")
					}
				}
				continue
			case tObj, tScope, tCG, tCGs:
				continue
			}
			if name == "Incomplete" || name == "Implicit" || name == "Unresolved" {
				continue
			}
			if !first {
				b.WriteString(" ")
			}
			first = false
			b.WriteString(name)
			b.WriteString(":")
			if f.Type == tFL && t.Name() == "FuncType" && fv.IsNil() {
				b.WriteString("FieldList{List:[]}")
				continue
			}
			dumpValue(b, fv, o)
		}
		b.WriteString("}")
	case reflect.String:
		fmt.Fprintf(b, "%q", v.String())
	case reflect.Bool:
		fmt.Fprintf(b, "%v", v.Bool())
	case reflect.Int, reflect.Int8, reflect.Int16, reflect.Int32, reflect.Int64:
		if v.Type() == tTok {
			b.WriteString(tokString(token.Token(v.Int())))
		} else {
			fmt.Fprintf(b, "%d", v.Int())
		}
	default:
		fmt.Fprintf(b, "<%s>", v.Kind())
	}
}
