// C03: conversions T(x) between basic, string and byte/rune slice types match Go, and
// conversions Go rejects at compile time are rejected before execution.
//
// Oracles: O2 = go/types + go/constant in-process (validity, static type, constant
// results); O3 = harness-native conversions instantiated from generic code
// (native_test.go) for run-time operands.
package c03

import (
	"encoding/json"
	"fmt"
	"go/ast"
	"go/constant"
	"go/parser"
	"go/token"
	"go/types"
	"os"
	"reflect"
	"regexp"
	"strings"
	"testing"

	"github.com/cosmos72/gomacro/fast"
	xr "github.com/cosmos72/gomacro/xreflect"
	"pgregory.net/rapid"

	"verif/harness/vlib"
)

var rec *vlib.Rec

func TestMain(m *testing.M) {
	rec = vlib.Open("C03")
	rec.Rule("cases = (source type, destination type, operand form, value): all ordered pairs of 44 types (17 basic kinds, a named variant of each, []byte, []rune, named byte/rune slices, slices of named bytes/runes, []int, two struct and two pointer types) x " +
		"{untyped constant, typed constant, run-time operand in 14 storage/place shapes} x boundary values (+ rapid-drawn values and conversion chains); " +
		"a case is non-trivial when the conversion changes the value (canonical text of operand and result differ: truncation, sign change, rounding, invalid rune -> U+FFFD, re-encoding) " +
		"or when Go rejects the conversion and the check demands rejection; distinct = distinct (src, dst, form) cells with such a value")
	rec.Assume("go/types + go/constant of the toolchain that builds the harness decide validity, static type and constant results (same code base as gc's type checker)")
	rec.Assume("run-time results come from D(x) compiled by gc in the harness, instantiated from generic code for every kind pair")
	rec.Assume("the harness module runs with godebug default=go1.18, the settings gomacro's own suite runs under")
	rec.Assume("out of domain and excluded by construction: run-time float/complex values the destination cannot represent (implementation-dependent in the Go specification), unsafe.Pointer (documented limitation)")
	os.Exit(vlib.Main(m, rec))
}

// ---------------------------------------------------------------- types

type typ struct {
	Name  string // source text of the type
	Kind  string // reflect string of the underlying unnamed type
	Named bool
}

const prelude = `
type MyBool bool
type MyInt int
type MyInt8 int8
type MyInt16 int16
type MyInt32 int32
type MyInt64 int64
type MyUint uint
type MyUint8 uint8
type MyUint16 uint16
type MyUint32 uint32
type MyUint64 uint64
type MyUintptr uintptr
type MyFloat32 float32
type MyFloat64 float64
type MyComplex64 complex64
type MyComplex128 complex128
type MyString string
type BS []byte
type RS []rune
type MyByte byte
type MyRune rune
type PA struct { X int; S string }
type PB struct { X int; S string }
type PC struct { X int; T string }
`

var basicNames = []string{"bool", "int", "int8", "int16", "int32", "int64", "uint", "uint8", "uint16", "uint32", "uint64", "uintptr",
	"float32", "float64", "complex64", "complex128", "string"}

var allTypes = func() []typ {
	var l []typ
	for _, n := range basicNames {
		l = append(l, typ{n, n, false})
	}
	for _, n := range basicNames {
		l = append(l, typ{"My" + strings.ToUpper(n[:1]) + n[1:], n, true})
	}
	l = append(l,
		typ{"[]byte", "[]uint8", false}, typ{"[]rune", "[]int32", false},
		typ{"BS", "[]uint8", true}, typ{"RS", "[]int32", true},
		typ{"[]MyByte", "[]uint8", false}, typ{"[]MyRune", "[]int32", false},
		typ{"[]int", "[]int", false},
		typ{"PA", "PA", true}, typ{"PB", "PA", true}, typ{"PC", "PC", true},
		typ{"*PA", "*PA", false}, typ{"*PB", "*PA", false},
	)
	return l
}()

func typeByName(name string) (typ, bool) {
	for _, t := range allTypes {
		if t.Name == name {
			return t, true
		}
	}
	return typ{}, false
}

func isStructish(k string) bool { return k == "PA" || k == "PC" || k == "*PA" }

// ---------------------------------------------------------------- O2

var (
	o2fset = token.NewFileSet()
	o2pkg  *types.Package
)

func o2init() {
	if o2pkg != nil {
		return
	}
	src := "package main\n" + prelude
	for _, t := range allTypes {
		src += fmt.Sprintf("var %s %s\n", varName(t), t.Name)
	}
	f, err := parser.ParseFile(o2fset, "prelude.go", src, 0)
	if err != nil {
		panic(err)
	}
	conf := types.Config{}
	o2pkg, err = conf.Check("main", o2fset, []*ast.File{f}, nil)
	if err != nil {
		panic(err)
	}
}

func varName(t typ) string {
	n := strings.ReplaceAll(t.Name, "[]", "sl")
	n = strings.ReplaceAll(n, "*", "ptr")
	return "g_" + n
}

type o2res struct {
	OK    bool
	Err   string
	Type  string         // normalised type string
	Value constant.Value // nil when not constant
}

var o2cache = map[string]o2res{}

func o2(expr string) o2res {
	o2init()
	if r, ok := o2cache[expr]; ok {
		return r
	}
	var r o2res
	tv, err := types.Eval(o2fset, o2pkg, token.NoPos, expr)
	if err != nil {
		r = o2res{Err: err.Error()}
	} else {
		r = o2res{OK: true, Type: normType(types.TypeString(tv.Type, func(*types.Package) string { return "" })), Value: tv.Value}
	}
	if len(o2cache) < 400000 {
		o2cache[expr] = r
	}
	return r
}

var reByte = regexp.MustCompile(`\bbyte\b`)
var reRune = regexp.MustCompile(`\brune\b`)

func normType(s string) string {
	s = reByte.ReplaceAllString(s, "uint8")
	s = reRune.ReplaceAllString(s, "int32")
	s = strings.ReplaceAll(s, "main.", "")
	s = strings.ReplaceAll(s, "; ", ";")
	return strings.ReplaceAll(s, " ", "")
}

// fromConst turns a typed constant value of go/types into the Go value of the kind.
func fromConst(v constant.Value, kind string) (interface{}, bool) {
	i64 := func() int64 { n, _ := constant.Int64Val(constant.ToInt(v)); return n }
	u64 := func() uint64 { n, _ := constant.Uint64Val(constant.ToInt(v)); return n }
	switch kind {
	case "bool":
		return constant.BoolVal(v), true
	case "string":
		return constant.StringVal(v), true
	case "int":
		return int(i64()), true
	case "int8":
		return int8(i64()), true
	case "int16":
		return int16(i64()), true
	case "int32":
		return int32(i64()), true
	case "int64":
		return i64(), true
	case "uint":
		return uint(u64()), true
	case "uint8":
		return uint8(u64()), true
	case "uint16":
		return uint16(u64()), true
	case "uint32":
		return uint32(u64()), true
	case "uint64":
		return u64(), true
	case "uintptr":
		return uintptr(u64()), true
	case "float32":
		f, _ := constant.Float32Val(v)
		return f, true
	case "float64":
		f, _ := constant.Float64Val(v)
		return f, true
	case "complex64":
		re, _ := constant.Float32Val(constant.Real(v))
		im, _ := constant.Float32Val(constant.Imag(v))
		return complex(re, im), true
	case "complex128":
		re, _ := constant.Float64Val(constant.Real(v))
		im, _ := constant.Float64Val(constant.Imag(v))
		return complex(re, im), true
	}
	return nil, false
}

// ---------------------------------------------------------------- interpreter side

type interp struct {
	ir    *fast.Interp
	evals int
}

func newInterp() *interp {
	ir := fast.New()
	ir.Comp.Globals.Stdout = devnull{}
	ir.Comp.Globals.Stderr = devnull{}
	src := prelude
	for _, t := range allTypes {
		src += fmt.Sprintf("var %s %s\n", varName(t), t.Name)
	}
	ir.Eval(src)
	ir.Eval("func id_any(x interface{}) interface{} { return x }")
	return &interp{ir: ir}
}

type devnull struct{}

func (devnull) Write(p []byte) (int, error) { return len(p), nil }

var theInterp *interp

// getInterp returns a shared interpreter, renewed now and then so that state cannot pile up.
func getInterp() *interp {
	if theInterp == nil || theInterp.evals > 20000 {
		theInterp = newInterp()
	}
	theInterp.evals++
	return theInterp
}

type outcome struct {
	Rejected bool   // panic during Compile
	Panic    string // panic text (compile or run)
	RunPanic bool
	Value    interface{}
	Type     string
}

// evalExpr compiles src (an expression), then runs it; the two phases are told apart.
func evalExpr(ip *interp, src string) (o outcome) {
	var e *fast.Expr
	if p := vlib.Try(func() { e = ip.ir.Compile(src) }); p != nil {
		return outcome{Rejected: true, Panic: fmt.Sprint(p)}
	}
	var v xr.Value
	var t xr.Type
	if p := vlib.Try(func() { v, t = ip.ir.RunExpr1(e) }); p != nil {
		return outcome{RunPanic: true, Panic: fmt.Sprint(p)}
	}
	o.Type = typeString(t)
	if v.IsValid() && v.CanInterface() {
		o.Value = v.Interface()
	}
	return o
}

func typeString(t xr.Type) string {
	if t == nil {
		return "<nil>"
	}
	return normType(t.String())
}

// ---------------------------------------------------------------- case in plain form (replay)

// kase is one check in plain, self-contained form.
type kase struct {
	Form   string `json:"form"`             // "const" (expression evaluated as is) or "run" (function applied to a value) or "reject"
	Src    string `json:"src"`              // const/reject: the expression; run: a function literal func(x S) D
	S      string `json:"s,omitempty"`      // source type name
	D      string `json:"d,omitempty"`      // destination type name
	Via    string `json:"via,omitempty"`    // run: intermediate type names of a chain, comma separated (empty: direct)
	Value  string `json:"value,omitempty"`  // run: encoded operand (see encodeValue)
	Global string `json:"global,omitempty"` // run: name of the package-level variable the template uses, if any
}

func (k kase) bytes() []byte { b, _ := json.MarshalIndent(k, "", " "); return b }

// checkConst checks an expression whose operand is a constant: D(lit) or D(S(lit)).
// inner is the operand expression (lit or S(lit)).
func checkConst(ip *interp, src, inner string, s, d typ) (nontrivial bool, label string, err error) {
	want := o2(src)
	got := evalExpr(ip, src)
	if !want.OK {
		if got.Rejected {
			return true, "const:rejected-by-both", nil
		}
		if got.RunPanic {
			return false, "", fmt.Errorf("%s: Go rejects it (%s); gomacro compiled it and failed only when run: %s", src, want.Err, got.Panic)
		}
		return false, "", fmt.Errorf("%s: Go rejects it (%s); gomacro accepted it and returned %s", src, want.Err, canon(got.Value))
	}
	if got.Rejected || got.RunPanic {
		return false, "", fmt.Errorf("%s: valid Go (type %s); gomacro failed: %s", src, want.Type, got.Panic)
	}
	// expected value
	var exp, operand interface{}
	in := o2(inner)
	if !in.OK {
		return false, "", fmt.Errorf("internal: operand %s of valid %s is invalid: %s", inner, src, in.Err)
	}
	untypedOperand := s.Name == ""
	if untypedOperand && in.Value != nil {
		switch in.Value.Kind() { // pseudo source kind for the non-constant results ([]byte("..."))
		case constant.String:
			s.Kind = "string"
		case constant.Bool:
			s.Kind = "bool"
		}
	}
	if in.Value != nil && s.Kind != "" {
		operand, _ = fromConst(in.Value, s.Kind)
	}
	if want.Value != nil {
		var ok bool
		exp, ok = fromConst(want.Value, d.Kind)
		if !ok {
			return false, "", fmt.Errorf("internal: constant of kind %s", d.Kind)
		}
	} else {
		// not a constant in Go (slice result, or operand not constant): apply the native conversion to the operand value
		if operand == nil {
			// operand itself is a non-constant conversion of a string constant: S("...")
			return false, "const:skipped-nonconstant-operand", nil
		}
		f := native[[2]string{s.Kind, d.Kind}]
		if f == nil {
			return false, "", fmt.Errorf("internal: no native conversion %s -> %s for %s", s.Kind, d.Kind, src)
		}
		exp = f(operand)
	}
	if g, w := canon(got.Value), canon(exp); g != w {
		return false, "", fmt.Errorf("%s: gomacro %s, Go %s", src, g, w)
	}
	if got.Type != want.Type {
		return false, "", fmt.Errorf("%s: static type in gomacro %s, in Go %s", src, got.Type, want.Type)
	}
	nt := false
	switch {
	case operand != nil:
		nt = changes(operand, exp)
	case in.Value != nil && want.Value != nil: // untyped numeric operand: did the value change (rounding)?
		nt = in.Value.Kind() != want.Value.Kind() || !constant.Compare(in.Value, token.EQL, want.Value)
	}
	return nt, "const:ok", nil
}

// ---------------------------------------------------------------- replay

func replay(content []byte) error {
	var k kase
	if err := json.Unmarshal(content, &k); err != nil || k.Src == "" {
		return nil
	}
	ip := newInterp()
	switch k.Form {
	case "const", "reject":
		s, _ := typeByName(k.S)
		d, ok := typeByName(k.D)
		if !ok {
			return fmt.Errorf("bad replay: type %q", k.D)
		}
		inner := k.Value
		_, _, err := checkConst(ip, k.Src, inner, s, d)
		return err
	case "run":
		return checkRun(ip, k)
	}
	return nil
}

func TestReplays(t *testing.T) { rec.RunReplays(t, replay) }

var _ = reflect.TypeOf

// ---------------------------------------------------------------- constant operands (enumeration)

var untypedLits = []string{
	"0", "1", "-1", "65", "127", "128", "-128", "-129", "255", "256", "32767", "32768", "-32768", "-32769", "65535", "65536",
	"2147483647", "2147483648", "-2147483648", "-2147483649", "4294967295", "4294967296",
	"9223372036854775807", "9223372036854775808", "-9223372036854775808", "-9223372036854775809",
	"18446744073709551615", "18446744073709551616", "1<<100", "-1<<100", "0x10FFFF", "0x110000", "0xD800", "0x20AC", "16777217", "9007199254740993",
	"'a'", "'\\u00e9'", "'\\U0010FFFF'", "'\\x00'",
	"0.0", "1.0", "-1.0", "1.5", "-0.5", "127.0", "128.0", "255.0", "-128.0", "1e10", "1e39", "-1e39", "1e400", "0.1", "1e-50", "1e-400",
	"3.4028234663852886e38", "3.4028235677973366e38", "3.40282356779733661637539395458142568448e38", "3.4028235677973362e38",
	"1.00000005960464477539062500001", "1.000000059604644775390625", "1.00000017881393432617187500001", "16777217.0", "0x1p63", "0x1p64", "0x1p-149", "0x1p-150", "0x1.8p-150",
	"9223372036854775807.0", "1.7976931348623157e308", "1.797693134862315808e308", "1.7976931348623159e308", "1e309", "4.9e-324", "2e-324", "2.5e-324",
	"0i", "1i", "1+0i", "1.5+0i", "2+3i", "128+0i", "1e39+0i", "0.1+0.1i", "1e400i", "-1+0i",
	`""`, `"a"`, `"héllo"`, `"\xff\xfe"`, `"日本"`, "`raw\\n`", `"\xed\xa0\x80"`, `"a\x00b"`,
	"true", "false",
}

func TestConstPairs(t *testing.T) {
	if rec.ReplayOnly() {
		return
	}
	ip := getInterp()
	// operands: untyped literals, and S(lit) for every S and every literal that Go accepts as a constant of S
	type operand struct {
		src, lit string
		s        typ
	}
	var operands []operand
	for _, l := range untypedLits {
		operands = append(operands, operand{l, l, typ{}})
	}
	for _, s := range allTypes {
		for _, l := range untypedLits {
			e := wrapConv(s.Name, l)
			if r := o2(e); r.OK && r.Value != nil {
				operands = append(operands, operand{e, l, s})
			}
		}
	}
	idx := 0
	nfail := 0
	for _, d := range allTypes {
		for _, op := range operands {
			idx++
			if !rec.Mine(idx) || nfail > failCap {
				continue
			}
			src := wrapConv(d.Name, op.src)
			s := op.s
			if ip.evals++; ip.evals > 20000 {
				ip = getInterp()
			}
			rec.Eval(1)
			form := "typed-const"
			if op.s.Name == "" {
				form = "untyped-const"
			}
			k := kase{Form: "const", Src: src, S: op.s.Name, D: d.Name, Value: op.src}
			if known, id := knownConst(src, op.src, op.lit, op.s, d); known {
				rec.Excluded(id)
				continue
			}
			nt, label, err := checkConst(ip, src, op.src, s, d)
			if err != nil {
				nfail++
				rec.Violation("const:"+src, k.bytes(), "json", "%v", err)
				t.Errorf("%v", err)
				continue
			}
			rec.Label(label)
			if nt {
				sn := op.s.Name
				if sn == "" {
					sn = "untyped"
				}
				rec.NT(form + "|" + sn + "|" + d.Name + "|" + label)
			}
			if idx%997 == 0 {
				rec.Sample(k)
			}
		}
	}
}

// ---------------------------------------------------------------- known findings: exclusion by construction

func isIntKind(k string) bool   { _, a := intBits[k]; _, b := uintBits[k]; return a || b }
func isFloatKind(k string) bool { return k == "float32" || k == "float64" }
func isCplxKind(k string) bool  { return k == "complex64" || k == "complex128" }
func isNumKind(k string) bool   { return isIntKind(k) || isFloatKind(k) || isCplxKind(k) }

// untypedKnown reports whether D(lit), lit an untyped numeric constant with value v, has the shape of
// finding F-C03-3: base/untyped/lit.go extractNumber squeezes every untyped constant through
// int64/uint64/float64 before converting it to the destination type.
func untypedKnown(v constant.Value, d typ, o2ok bool) bool {
	if v == nil || !isNumKind(d.Kind) {
		return false
	}
	part := func(v constant.Value) bool {
		switch v.Kind() {
		case constant.Int:
			if isIntKind(d.Kind) {
				return false
			}
			_, e1 := constant.Int64Val(v)
			_, e2 := constant.Uint64Val(v)
			if !e1 && !e2 {
				return true // (a) integer outside 64 bits -> float/complex: garbage
			}
		case constant.Float:
			if isIntKind(d.Kind) {
				f, _ := constant.Float64Val(v)
				return !constant.Compare(constant.MakeFloat64(f), token.EQL, v) // (d) a float constant that float64 does not hold exactly: integer-valued ones refused, tiny ones truncated to 0
			}
			if !o2ok {
				return true // (b) overflow of the floating-point destination accepted as Inf
			}
		}
		if constant.Sign(v) < 0 {
			if f, _ := constant.Float64Val(v); f == 0 {
				return true // (f) negative constant underflowing to zero: -0 instead of 0
			}
			if f, _ := constant.Float32Val(v); f == 0 && (d.Kind == "float32" || d.Kind == "complex64") {
				return true
			}
		}
		if d.Kind == "float32" || d.Kind == "complex64" {
			f64, _ := constant.Float64Val(v)
			f32, _ := constant.Float32Val(v)
			if float32(f64) != f32 {
				return true // (c) rounded twice
			}
		}
		return false
	}
	if v.Kind() == constant.Complex {
		return part(constant.Real(v)) || part(constant.Imag(v))
	}
	if v.Kind() != constant.Int && v.Kind() != constant.Float {
		return false
	}
	return part(v)
}

// knownConst: exclusion of the registered known findings, each guarded by rec.Known.
// src = D(inner); inner = lit (untyped, s.Name == "") or S(lit).
func knownConst(src, inner, lit string, s, d typ) (bool, string) {
	want := o2(src)
	if s.Name == "" {
		if known("F-C03-3") && untypedKnown(o2(inner).Value, d, want.OK) {
			return true, "F-C03-3"
		}
		return false, ""
	}
	// typed operand S(lit): the inner conversion is itself an untyped-constant conversion
	if known("F-C03-3") && untypedKnown(o2(lit).Value, s, true) {
		return true, "F-C03-3"
	}
	if known("F-C03-1") && !want.OK && isNumKind(s.Kind) && isNumKind(d.Kind) {
		// typed numeric constant that the destination cannot represent: Go rejects, gomacro wraps/truncates
		return true, "F-C03-1"
	}
	if known("F-C03-2") && want.OK && isNumKind(s.Kind) && isNumKind(d.Kind) && isCplxKind(s.Kind) != isCplxKind(d.Kind) {
		// typed constant between a complex and a real type (representable, so valid Go): gomacro refuses
		return true, "F-C03-2"
	}
	return false, ""
}

func knownReject(s, d typ) (bool, string) {
	// byte/rune slices whose element types differ only by a declared name: the only pairs of equal slice kind that Go rejects
	if known("F-C03-5") && s.Kind == d.Kind && (s.Kind == "[]uint8" || s.Kind == "[]int32") {
		return true, "F-C03-5"
	}
	return false, ""
}

// knownRun: run-time shapes of registered findings. tmpl is the template name.
func knownRun(tmpl string, s typ, chain []typ, x interface{}) (bool, string) {
	if known("F-C03-7") && tmpl == "captured3w" && s.Kind == "uint64" {
		return true, "F-C03-7" // read of a uint64 variable captured three closures up
	}
	if known("F-C03-6") && tmpl == "deref" && s.Kind == "complex128" {
		return true, "F-C03-6"
	}
	if known("F-C03-4") && x != nil {
		// 64-bit integer -> float32 rounded twice (through float64)
		cur, kind := x, s.Kind
		for _, c := range chain {
			if !defined(kind, c.Kind, cur) {
				break
			}
			f := native[[2]string{kind, c.Kind}]
			if f == nil {
				break
			}
			if c.Kind == "float32" && isIntKind(kind) {
				direct := f(cur).(float32)
				via := native[[2]string{"float64", "float32"}](native[[2]string{kind, "float64"}](cur)).(float32)
				if direct != via {
					return true, "F-C03-4"
				}
			}
			cur, kind = f(cur), c.Kind
		}
	}
	return false, ""
}

// ---------------------------------------------------------------- run-time operands (enumeration of cells)

func TestRunCells(t *testing.T) {
	if rec.ReplayOnly() {
		return
	}
	ip := getInterp()
	stride := rec.Scale(12, 1) // quick: every 12th boundary value per cell, rotating with the cell index
	idx, nfail := 0, 0
	for _, s := range allTypes {
		for _, d := range allTypes {
			idx++
			if !rec.Mine(idx) {
				continue
			}
			chain := []typ{d}
			valid, _ := chainValid(s, chain)
			vals := boundaryValues(s.Kind)
			for ti, tm := range templates {
				if nfail > failCap {
					return
				}
				src := render(tm.Src, s, chain)
				k := kase{Form: "run", Src: src, S: s.Name, D: d.Name}
				cell := tm.Name + "|" + s.Name + "|" + d.Name
				if ip.evals += 1; ip.evals > 20000 {
					ip = getInterp()
				}
				if !valid {
					k.Form = "reject"
					rec.Eval(1)
					if known, id := knownReject(s, d); known {
						rec.Excluded(id)
						continue
					}
					if err := checkRun(ip, k); err != nil {
						nfail++
						rec.Violation("reject:"+cell, k.bytes(), "json", "%v", err)
						t.Errorf("%v", err)
						continue
					}
					rec.Label("run:rejected-by-both")
					rec.NT("reject|" + cell)
					continue
				}
				for vi := (idx + ti) % stride; vi < len(vals); vi += stride {
					x := vals[vi]
					k.Value = encodeValue(x)
					rec.Eval(1)
					want, def, _ := nativeChain(s, chain, x)
					if !def {
						rec.Label("excluded:result-not-defined-by-spec")
						continue
					}
					if known, id := knownRun(tm.Name, s, chain, x); known {
						rec.Excluded(id)
						continue
					}
					if err := checkRun(ip, k); err != nil {
						nfail++
						rec.Violation("run:"+cell, k.bytes(), "json", "%v", err)
						t.Errorf("%v", err)
						break
					}
					rec.Label("run:ok:" + tm.Name)
					if changes(x, want) {
						rec.NT("run|" + cell)
						rec.Label("run:value-changed")
					}
				}
				if (idx+ti)%1499 == 0 {
					rec.Sample(k)
				}
			}
		}
	}
}

// failCap bounds the number of violations reported per test (each one costs a replay file).
var failCap = func() int {
	if os.Getenv("C03_ALLFAIL") != "" {
		return 1 << 30
	}
	return 20
}()

// ---------------------------------------------------------------- rapid: random values and conversion chains

// convertibleFrom lists, per source type, the destinations Go accepts (computed once from O2).
var convertibleFrom = map[string][]typ{}

func destinations(s typ) []typ {
	if l, ok := convertibleFrom[s.Name]; ok {
		return l
	}
	var l []typ
	for _, d := range allTypes {
		if ok, _ := chainValid(s, []typ{d}); ok {
			l = append(l, d)
		}
	}
	convertibleFrom[s.Name] = l
	return l
}

func TestRandomChains(t *testing.T) {
	if !rec.ReplayOnly() {
		getInterp() // outside rapid's iteration timing
		for _, s := range allTypes {
			destinations(s)
		}
	}
	rec.Check(t, rec.Scale(2500, 20000), func(t *rapid.T) {
		ip := getInterp()
		s := allTypes[rapid.IntRange(0, len(allTypes)-1).Draw(t, "src")]
		n := rapid.IntRange(1, 3).Draw(t, "chainlen")
		var chain []typ
		cur := s
		for i := 0; i < n; i++ {
			var d typ
			if ds := destinations(cur); len(ds) > 0 && rapid.IntRange(0, 11).Draw(t, "invalid") != 0 {
				d = ds[rapid.IntRange(0, len(ds)-1).Draw(t, "dst")]
			} else {
				d = allTypes[rapid.IntRange(0, len(allTypes)-1).Draw(t, "anydst")]
			}
			chain = append(chain, d)
			cur = d
		}
		tm := templates[rapid.IntRange(0, len(templates)-1).Draw(t, "template")]
		src := render(tm.Src, s, chain)
		var via []string
		for _, c := range chain[:len(chain)-1] {
			via = append(via, c.Name)
		}
		k := kase{Form: "run", Src: src, S: s.Name, D: chain[len(chain)-1].Name, Via: strings.Join(via, ",")}
		valid, _ := chainValid(s, chain)
		if !valid {
			k.Form = "reject"
			cur := s
			for _, c := range chain { // a chain holding a known-finding pair is left out
				if known, id := knownReject(cur, c); known {
					rec.Excluded(id)
					return
				}
				cur = c
			}
			if err := checkRun(ip, k); err != nil {
				rec.Failf(t, "chain-reject", k.bytes(), "json", "%v", err)
			}
			rec.Label("chain:rejected-by-both")
			rec.NT("chainreject|" + tm.Name + "|" + s.Name + "|" + k.Via + "|" + k.D)
			return
		}
		for i := 0; i < 4; i++ {
			x := drawValue(t, s.Kind)
			k.Value = encodeValue(x)
			want, def, _ := nativeChain(s, chain, x)
			if !def {
				rec.Label("excluded:result-not-defined-by-spec")
				continue
			}
			if known, id := knownRun(tm.Name, s, chain, x); known {
				rec.Excluded(id)
				continue
			}
			if err := checkRun(ip, k); err != nil {
				rec.Failf(t, "chain", k.bytes(), "json", "%v", err)
			}
			rec.Label(fmt.Sprintf("chain:ok:len%d", len(chain)))
			if changes(x, want) {
				rec.NT("chain|" + tm.Name + "|" + s.Name + "|" + k.Via + "|" + k.D)
				rec.Sample(k)
			}
		}
	})
}

// known: the finding is registered as known and not switched off for this run
// (VERIF_IGNORE_KNOWN=F-XXX-1,F-XXX-2 disables the exclusions, e.g. to test a fix).
func known(id string) bool {
	return rec.Known(id) && !strings.Contains(","+os.Getenv("VERIF_IGNORE_KNOWN")+",", ","+id+",")
}
