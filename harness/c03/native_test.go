// Oracle O3: the conversions of compiled Go, written once with type parameters and
// instantiated for every pair of kinds. The harness is compiled by gc on every run, so
// D(x) below *is* the compiled-Go answer for that pair and value.
package c03

import (
	"fmt"
	"math"
	"reflect"
)

type integer interface {
	~int | ~int8 | ~int16 | ~int32 | ~int64 | ~uint | ~uint8 | ~uint16 | ~uint32 | ~uint64 | ~uintptr
}
type float interface{ ~float32 | ~float64 }
type realnum interface{ integer | float }
type cplx interface{ ~complex64 | ~complex128 }

// key = {source kind, destination kind}; kinds are reflect type strings of the unnamed
// Go type: "int8", "string", "[]uint8", "[]int32"
var native = map[[2]string]func(interface{}) interface{}{}

func kindOf[T any]() string {
	var z T
	return reflect.TypeOf(z).String()
}

func regRR[S, D realnum]() {
	native[[2]string{kindOf[S](), kindOf[D]()}] = func(x interface{}) interface{} { return D(x.(S)) }
}
func regCC[S, D cplx]() {
	native[[2]string{kindOf[S](), kindOf[D]()}] = func(x interface{}) interface{} { return D(x.(S)) }
}
func regIS[S integer]() {
	// Go specification: "Converting a signed or unsigned integer value to a string type yields a string
	// containing the UTF-8 representation of the integer. Values outside the range of valid Unicode code
	// points are converted to "\uFFFD"." Written as string(rune(x)) behind the range test, because the
	// direct string(x) on a non-rune integer is refused by the vet pass that go test runs by default.
	native[[2]string{kindOf[S](), "string"}] = func(x interface{}) interface{} {
		v := x.(S)
		if v < 0 || uint64(v) > 0x10FFFF {
			return "\uFFFD"
		}
		return string(rune(v))
	}
}
func regSame[S any]() {
	native[[2]string{kindOf[S](), kindOf[S]()}] = func(x interface{}) interface{} { return x.(S) }
}
func regR[S realnum]() {
	regRR[S, int]()
	regRR[S, int8]()
	regRR[S, int16]()
	regRR[S, int32]()
	regRR[S, int64]()
	regRR[S, uint]()
	regRR[S, uint8]()
	regRR[S, uint16]()
	regRR[S, uint32]()
	regRR[S, uint64]()
	regRR[S, uintptr]()
	regRR[S, float32]()
	regRR[S, float64]()
}
func regI[S integer]() {
	regR[S]()
	regIS[S]()
}
func regStr[B ~[]byte, R ~[]rune]() {
	native[[2]string{"string", kindOf[B]()}] = func(x interface{}) interface{} { return B(x.(string)) }
	native[[2]string{"string", kindOf[R]()}] = func(x interface{}) interface{} { return R(x.(string)) }
	native[[2]string{kindOf[B](), "string"}] = func(x interface{}) interface{} { return string(x.(B)) }
	native[[2]string{kindOf[R](), "string"}] = func(x interface{}) interface{} { return string(x.(R)) }
}

func init() {
	regI[int]()
	regI[int8]()
	regI[int16]()
	regI[int32]()
	regI[int64]()
	regI[uint]()
	regI[uint8]()
	regI[uint16]()
	regI[uint32]()
	regI[uint64]()
	regI[uintptr]()
	regR[float32]()
	regR[float64]()
	regCC[complex64, complex64]()
	regCC[complex64, complex128]()
	regCC[complex128, complex64]()
	regCC[complex128, complex128]()
	regStr[[]byte, []rune]()
	regSame[bool]()
	regSame[string]()
	regSame[[]byte]()
	regSame[[]rune]()
	regSame[[]int]()
}

// defined reports whether the Go specification defines the result of converting the
// run-time value x (of kind src) to kind dst. Undefined ("implementation-dependent"
// in the words of the specification): a floating-point or complex value that the
// result type cannot represent, i.e. float -> integer out of range after truncation
// (including NaN and infinities) and float64 -> float32 overflow of a finite value.
func defined(src, dst string, x interface{}) bool {
	switch v := x.(type) {
	case float32:
		return definedFloat(float64(v), dst)
	case float64:
		return definedFloat(v, dst)
	case complex128:
		if dst == "complex64" {
			return definedFloat(real(v), "float32") && definedFloat(imag(v), "float32")
		}
	}
	return true
}

func definedFloat(f float64, dst string) bool {
	var lo, hi float64 // trunc(f) must satisfy lo <= t < hi; both exactly representable
	switch dst {
	case "float32":
		if math.IsNaN(f) || math.IsInf(f, 0) {
			return true
		}
		return !math.IsInf(float64(float32(f)), 0)
	case "int8":
		lo, hi = -(1 << 7), 1<<7
	case "int16":
		lo, hi = -(1 << 15), 1<<15
	case "int32":
		lo, hi = -(1 << 31), 1<<31
	case "int64", "int":
		lo, hi = -(1 << 63), 1<<63
	case "uint8":
		lo, hi = 0, 1<<8
	case "uint16":
		lo, hi = 0, 1<<16
	case "uint32":
		lo, hi = 0, 1<<32
	case "uint64", "uint", "uintptr":
		lo, hi = 0, 1<<64
	default:
		return true
	}
	if math.IsNaN(f) || math.IsInf(f, 0) {
		return false
	}
	t := math.Trunc(f)
	return t >= lo && t < hi
}

// canon renders a value as canonical text: kind, then the exact content. Floats as
// bit patterns with every NaN canonicalised (Go does not define NaN payloads).
func canon(x interface{}) string {
	switch v := x.(type) {
	case nil:
		return "<nil>"
	case float32:
		if v != v {
			return "float32:NaN"
		}
		return fmt.Sprintf("float32:%08x(%v)", math.Float32bits(v), v)
	case float64:
		if v != v {
			return "float64:NaN"
		}
		return fmt.Sprintf("float64:%016x(%v)", math.Float64bits(v), v)
	case complex64:
		return "complex64:(" + canon(real(v)) + "," + canon(imag(v)) + ")"
	case complex128:
		return "complex128:(" + canon(real(v)) + "," + canon(imag(v)) + ")"
	case string:
		return fmt.Sprintf("string:%q", v)
	case []byte:
		return fmt.Sprintf("[]uint8:len%d:%x", len(v), v) // nil-ness and cap are not defined by the specification
	case []rune:
		return fmt.Sprintf("[]int32:len%d:%v", len(v), v)
	}
	rv := reflect.ValueOf(x)
	return fmt.Sprintf("%s:%v", rv.Kind(), x)
}
