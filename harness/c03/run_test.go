package c03

import (
	"encoding/hex"
	"fmt"
	"math"
	"reflect"
	"strconv"
	"strings"
	"testing"
	"unicode/utf8"

	"pgregory.net/rapid"

	"verif/harness/vlib"
)

// ---------------------------------------------------------------- values and their plain encoding

type sPA = struct {
	X int
	S string
}
type sPC = struct {
	X int
	T string
}

func encodeValue(x interface{}) string {
	switch v := x.(type) {
	case bool:
		return strconv.FormatBool(v)
	case float32:
		return fmt.Sprintf("0x%08x", math.Float32bits(v))
	case float64:
		return fmt.Sprintf("0x%016x", math.Float64bits(v))
	case complex64:
		return encodeValue(real(v)) + "," + encodeValue(imag(v))
	case complex128:
		return encodeValue(real(v)) + "," + encodeValue(imag(v))
	case string:
		return hex.EncodeToString([]byte(v))
	case []byte:
		return hex.EncodeToString(v)
	case []rune:
		var l []string
		for _, r := range v {
			l = append(l, strconv.Itoa(int(r)))
		}
		return strings.Join(l, ",")
	case []int:
		var l []string
		for _, r := range v {
			l = append(l, strconv.Itoa(r))
		}
		return strings.Join(l, ",")
	case sPA:
		return strconv.Itoa(v.X) + "," + hex.EncodeToString([]byte(v.S))
	case sPC:
		return strconv.Itoa(v.X) + "," + hex.EncodeToString([]byte(v.T))
	case *sPA:
		if v == nil {
			return "nil"
		}
		return encodeValue(*v)
	}
	return fmt.Sprint(x) // integers
}

func decodeValue(kind, s string) (interface{}, error) {
	pi := func(bits int) (int64, error) { return strconv.ParseInt(s, 10, bits) }
	pu := func(bits int) (uint64, error) { return strconv.ParseUint(s, 10, bits) }
	switch kind {
	case "bool":
		return s == "true", nil
	case "int":
		n, err := pi(64)
		return int(n), err
	case "int8":
		n, err := pi(8)
		return int8(n), err
	case "int16":
		n, err := pi(16)
		return int16(n), err
	case "int32":
		n, err := pi(32)
		return int32(n), err
	case "int64":
		n, err := pi(64)
		return n, err
	case "uint":
		n, err := pu(64)
		return uint(n), err
	case "uint8":
		n, err := pu(8)
		return uint8(n), err
	case "uint16":
		n, err := pu(16)
		return uint16(n), err
	case "uint32":
		n, err := pu(32)
		return uint32(n), err
	case "uint64":
		n, err := pu(64)
		return n, err
	case "uintptr":
		n, err := pu(64)
		return uintptr(n), err
	case "float32":
		n, err := strconv.ParseUint(s, 0, 32)
		return math.Float32frombits(uint32(n)), err
	case "float64":
		n, err := strconv.ParseUint(s, 0, 64)
		return math.Float64frombits(n), err
	case "complex64", "complex128":
		p := strings.Split(s, ",")
		if len(p) != 2 {
			return nil, fmt.Errorf("bad complex %q", s)
		}
		if kind == "complex64" {
			a, e1 := decodeValue("float32", p[0])
			b, e2 := decodeValue("float32", p[1])
			if e1 != nil || e2 != nil {
				return nil, fmt.Errorf("bad complex %q", s)
			}
			return complex(a.(float32), b.(float32)), nil
		}
		a, e1 := decodeValue("float64", p[0])
		b, e2 := decodeValue("float64", p[1])
		if e1 != nil || e2 != nil {
			return nil, fmt.Errorf("bad complex %q", s)
		}
		return complex(a.(float64), b.(float64)), nil
	case "string":
		b, err := hex.DecodeString(s)
		return string(b), err
	case "[]uint8":
		b, err := hex.DecodeString(s)
		if b == nil {
			b = []byte{}
		}
		return b, err
	case "[]int32":
		r := []rune{}
		if s != "" {
			for _, f := range strings.Split(s, ",") {
				n, err := strconv.ParseInt(f, 10, 32)
				if err != nil {
					return nil, err
				}
				r = append(r, rune(n))
			}
		}
		return r, nil
	case "[]int":
		r := []int{}
		if s != "" {
			for _, f := range strings.Split(s, ",") {
				n, err := strconv.Atoi(f)
				if err != nil {
					return nil, err
				}
				r = append(r, n)
			}
		}
		return r, nil
	case "PA", "PC", "*PA":
		if s == "nil" {
			return (*sPA)(nil), nil
		}
		p := strings.SplitN(s, ",", 2)
		if len(p) != 2 {
			return nil, fmt.Errorf("bad struct %q", s)
		}
		n, err := strconv.Atoi(p[0])
		b, err2 := hex.DecodeString(p[1])
		if err != nil || err2 != nil {
			return nil, fmt.Errorf("bad struct %q", s)
		}
		switch kind {
		case "PA":
			return sPA{n, string(b)}, nil
		case "PC":
			return sPC{n, string(b)}, nil
		}
		return &sPA{n, string(b)}, nil
	}
	return nil, fmt.Errorf("unknown kind %q", kind)
}

func canonAny(x interface{}) string {
	switch v := x.(type) {
	case sPA:
		return fmt.Sprintf("struct{X:%d,S:%q}", v.X, v.S)
	case sPC:
		return fmt.Sprintf("struct{X:%d,T:%q}", v.X, v.T)
	case *sPA:
		if v == nil {
			return "ptr:nil"
		}
		return "ptr:" + canonAny(*v)
	case []int:
		return fmt.Sprintf("[]int:len%d:%v", len(v), v)
	}
	return canon(x)
}

var intBits = map[string]int{"int": 64, "int8": 8, "int16": 16, "int32": 32, "int64": 64}
var uintBits = map[string]int{"uint": 64, "uint8": 8, "uint16": 16, "uint32": 32, "uint64": 64, "uintptr": 64}

func mkInt(kind string, n int64) interface{} {
	switch kind {
	case "int":
		return int(n)
	case "int8":
		return int8(n)
	case "int16":
		return int16(n)
	case "int32":
		return int32(n)
	}
	return n
}
func mkUint(kind string, n uint64) interface{} {
	switch kind {
	case "uint":
		return uint(n)
	case "uint8":
		return uint8(n)
	case "uint16":
		return uint16(n)
	case "uint32":
		return uint32(n)
	case "uintptr":
		return uintptr(n)
	}
	return n
}

var float64Boundary = func() []float64 {
	l := []float64{0, math.Copysign(0, -1), 1, -1, 0.1, 0.5, -0.5, 0.9999999999999999, -0.9999999999999999, 1.5, 2.5, -1.5, -2.5, 3, 7, 10, 65, 97, 1e10, -1e10,
		math.MaxFloat64, -math.MaxFloat64, math.SmallestNonzeroFloat64, 0x1p-1022, 0x1p-1023, math.Inf(1), math.Inf(-1), math.NaN(),
		math.MaxFloat32, -math.MaxFloat32, math.SmallestNonzeroFloat32, 0x1p-126, 0x1p-127, 0x1p-149, 0x1p-150, 0x1.8p-150, 0x1p-151,
		0x1.fffffefp127, 0x1.ffffffp127, 0x1.fffffe0000001p127, 1e39, -1e39, 1e300,
		// float32 rounding: midpoints and their neighbours
		1 + 0x1p-24, 1 + 0x1p-24 + 0x1p-52, 1 + 0x1p-23 + 0x1p-24, 1 + 0x1p-24 - 0x1p-53, 16777217, 16777219, 33554434, 33554438,
		0.30000000000000004, 1.0000000596046448, 123456789.125, 1e-320, 4.9e-324}
	for _, k := range []int{7, 8, 15, 16, 24, 31, 32, 53, 62, 63, 64} {
		p := math.Ldexp(1, k)
		l = append(l, p, -p, p-1, p+1, -p-1, -p+1, p-0.5, p+0.5, -p-0.5, -p+0.5, math.Nextafter(p, 0), math.Nextafter(p, math.Inf(1)),
			math.Nextafter(-p, 0), math.Nextafter(-p, math.Inf(-1)), p-0.0001, -p-0.9999)
	}
	return l
}()

var stringBoundary = []string{"", "a", "ab", "A", "\x00", "héllo", "日本語", "\xff", "\xff\xfe\xfd", "a\xc0\xafb", "\xed\xa0\x80", "\xf4\x90\x80\x80",
	"\U0010FFFF", "�", "\xe6\x97", "x\x80y", "é\xe9", strings.Repeat("ab€", 20), "\xf0\x9f\x98\x80", "\xc3"}

var runeBoundary = []rune{0, 'a', 0x7f, 0x80, 0xe9, 0x7ff, 0x800, 0xd7ff, 0xd800, 0xdfff, 0xe000, 0xfffd, 0xffff, 0x10000, 0x10ffff, 0x110000, -1, math.MaxInt32, math.MinInt32, 0x1f600}

// boundaryValues returns the fixed boundary set of a kind.
func boundaryValues(kind string) []interface{} {
	var out []interface{}
	seen := map[string]bool{}
	add := func(x interface{}) {
		k := encodeValue(x)
		if !seen[k] {
			seen[k] = true
			out = append(out, x)
		}
	}
	if bits, ok := intBits[kind]; ok {
		min, max := int64(-1)<<(bits-1), int64(1)<<(bits-1)-1
		for _, n := range []int64{0, 1, -1, 2, 3, 7, 10, 65, 97, 0xe9, min, min + 1, max, max - 1, 0xd800, 0x10ffff, 0x110000, 0xfffd, -0x80, 0x20ac} {
			if n >= min && n <= max {
				add(mkInt(kind, n))
			}
		}
		for k := 1; k < bits-1; k++ {
			p := int64(1) << k
			for _, n := range []int64{p, p - 1, p + 1, -p, -p - 1, -p + 1} {
				if n >= min && n <= max {
					add(mkInt(kind, n))
				}
			}
		}
		if bits == 64 {
			// candidates for double rounding int -> float64 -> float32
			for _, p := range []int{54, 55, 60, 62} {
				half := p - 24
				for _, low := range []int64{1, 1 << 5, 1 << uint(p-54)} {
					n := int64(1)<<uint(p) | int64(1)<<uint(half) | low
					add(mkInt(kind, n))
					add(mkInt(kind, -n))
					add(mkInt(kind, n|int64(1)<<uint(half+1)))
				}
			}
		}
		return out
	}
	if bits, ok := uintBits[kind]; ok {
		max := ^uint64(0) >> (64 - bits)
		for _, n := range []uint64{0, 1, 2, 3, 7, 10, 65, 97, 0xe9, max, max - 1, 0xd800, 0x10ffff, 0x110000, 0xfffd, 0x20ac} {
			if n <= max {
				add(mkUint(kind, n))
			}
		}
		for k := 1; k < bits; k++ {
			p := uint64(1) << k
			for _, n := range []uint64{p, p - 1, p + 1} {
				if n <= max {
					add(mkUint(kind, n))
				}
			}
		}
		if bits == 64 {
			for _, p := range []int{54, 55, 60, 63} {
				half := p - 24
				for _, low := range []uint64{1, 1 << 5, 1 << uint(p-54)} {
					n := uint64(1)<<uint(p) | uint64(1)<<uint(half) | low
					add(mkUint(kind, n))
					add(mkUint(kind, n|uint64(1)<<uint(half+1)))
				}
			}
		}
		return out
	}
	switch kind {
	case "bool":
		return []interface{}{false, true}
	case "float64":
		for _, f := range float64Boundary {
			add(f)
		}
	case "float32":
		for _, f := range float64Boundary {
			add(float32(f))
		}
		add(math.Float32frombits(0x7fc00001))
		add(math.Float32frombits(0x00000001))
		add(math.Float32frombits(0x7f7fffff))
	case "complex128":
		fs := []float64{0, math.Copysign(0, -1), 1, -1.5, 0.1, 1e39, math.MaxFloat32, 1 + 0x1p-24 + 0x1p-52, math.Inf(1), math.NaN(), math.MaxFloat64, 0x1p-150, 16777217}
		for _, a := range fs {
			for _, b := range fs {
				add(complex(a, b))
			}
		}
	case "complex64":
		fs := []float32{0, float32(math.Copysign(0, -1)), 1, -1.5, 0.1, math.MaxFloat32, float32(math.Inf(1)), float32(math.NaN()), 0x1p-149, 16777216}
		for _, a := range fs {
			for _, b := range fs {
				add(complex(a, b))
			}
		}
	case "string":
		for _, s := range stringBoundary {
			add(s)
		}
	case "[]uint8":
		for _, s := range stringBoundary {
			add([]byte(s))
		}
	case "[]int32":
		add([]rune{})
		for _, r := range runeBoundary {
			add([]rune{r})
		}
		add(runeBoundary)
		add([]rune("héllo, 日本語"))
	case "[]int":
		add([]int{})
		add([]int{1, 2, 3})
	case "PA":
		add(sPA{})
		add(sPA{7, "x"})
	case "PC":
		add(sPC{})
		add(sPC{-1, "y"})
	case "*PA":
		add((*sPA)(nil))
		add(&sPA{3, "p"})
	}
	return out
}

// drawValue draws a random value of the kind.
func drawValue(t *rapid.T, kind string) interface{} {
	if rapid.IntRange(0, 3).Draw(t, "boundary") == 0 {
		b := boundaryValues(kind)
		return b[rapid.IntRange(0, len(b)-1).Draw(t, "bidx")]
	}
	if bits, ok := intBits[kind]; ok {
		n := int64(drawBits(t))
		return mkInt(kind, n>>(64-uint(bits)))
	}
	if bits, ok := uintBits[kind]; ok {
		return mkUint(kind, drawBits(t)>>(64-uint(bits)))
	}
	switch kind {
	case "bool":
		return rapid.Bool().Draw(t, "b")
	case "float64":
		return drawFloat64(t)
	case "float32":
		if rapid.Bool().Draw(t, "f32bits") {
			return math.Float32frombits(rapid.Uint32().Draw(t, "bits"))
		}
		return float32(drawFloat64(t))
	case "complex128":
		return complex(drawFloat64(t), drawFloat64(t))
	case "complex64":
		return complex(float32(drawFloat64(t)), float32(drawFloat64(t)))
	case "string":
		return string(drawBytes(t))
	case "[]uint8":
		return drawBytes(t)
	case "[]int32":
		n := rapid.IntRange(0, 8).Draw(t, "nrunes")
		r := []rune{}
		for i := 0; i < n; i++ {
			if rapid.Bool().Draw(t, "rb") {
				r = append(r, runeBoundary[rapid.IntRange(0, len(runeBoundary)-1).Draw(t, "ri")])
			} else {
				r = append(r, rapid.Int32().Draw(t, "r"))
			}
		}
		return r
	case "[]int":
		return rapid.SliceOfN(rapid.Int(), 0, 4).Draw(t, "ints")
	case "PA":
		return sPA{rapid.Int().Draw(t, "x"), string(drawBytes(t))}
	case "PC":
		return sPC{rapid.Int().Draw(t, "x"), string(drawBytes(t))}
	case "*PA":
		if rapid.IntRange(0, 4).Draw(t, "nilp") == 0 {
			return (*sPA)(nil)
		}
		return &sPA{rapid.Int().Draw(t, "x"), string(drawBytes(t))}
	}
	panic("drawValue: " + kind)
}

// drawBits: 64 random bits, biased to sparse / dense-top patterns that hit rounding cases
func drawBits(t *rapid.T) uint64 {
	switch rapid.IntRange(0, 3).Draw(t, "bitshape") {
	case 0:
		return rapid.Uint64().Draw(t, "u64")
	case 1: // a few set bits
		var n uint64
		for i, k := 0, rapid.IntRange(1, 4).Draw(t, "nbits"); i < k; i++ {
			n |= 1 << uint(rapid.IntRange(0, 63).Draw(t, "bit"))
		}
		if rapid.Bool().Draw(t, "neg") {
			n = -n
		}
		return n
	case 2: // float32 midpoint + sticky bit: 24-bit mantissa, half bit, one low bit
		p := rapid.IntRange(26, 63).Draw(t, "top")
		m := uint64(rapid.Uint32Range(0, 1<<23-1).Draw(t, "mant"))
		n := uint64(1)<<uint(p) | m<<uint(p-23) | uint64(1)<<uint(p-24)
		if rapid.Bool().Draw(t, "sticky") {
			n |= uint64(1) << uint(rapid.IntRange(0, p-25).Draw(t, "stickybit"))
		}
		if rapid.Bool().Draw(t, "neg") {
			n = -n
		}
		return n
	}
	return uint64(rapid.Int64Range(-70000, 70000).Draw(t, "small")) << uint(rapid.IntRange(0, 40).Draw(t, "shift"))
}

func drawFloat64(t *rapid.T) float64 {
	switch rapid.IntRange(0, 4).Draw(t, "fshape") {
	case 0:
		return math.Float64frombits(rapid.Uint64().Draw(t, "fbits"))
	case 1: // integer-valued or near integer boundary
		k := rapid.IntRange(0, 64).Draw(t, "k")
		f := math.Ldexp(1, k) + float64(rapid.IntRange(-3, 3).Draw(t, "d"))*0.5
		if rapid.Bool().Draw(t, "neg") {
			f = -f
		}
		return f
	case 2: // float32 midpoint with sticky bit
		m := rapid.Uint32Range(0, 1<<23-1).Draw(t, "mant")
		f := 1 + float64(m)*0x1p-23 + 0x1p-24
		if rapid.Bool().Draw(t, "sticky") {
			f += math.Ldexp(1, -rapid.IntRange(25, 52).Draw(t, "stickybit"))
		}
		return math.Ldexp(f, rapid.IntRange(-150, 127).Draw(t, "exp"))
	case 3:
		return float64(rapid.Int64Range(-100000, 100000).Draw(t, "n")) / float64(rapid.IntRange(1, 64).Draw(t, "den"))
	}
	return rapid.Float64().Draw(t, "f")
}

func drawBytes(t *rapid.T) []byte {
	if rapid.Bool().Draw(t, "fromset") {
		return []byte(stringBoundary[rapid.IntRange(0, len(stringBoundary)-1).Draw(t, "si")] + stringBoundary[rapid.IntRange(0, len(stringBoundary)-1).Draw(t, "sj")])
	}
	b := rapid.SliceOfN(rapid.Byte(), 0, 12).Draw(t, "bytes")
	if b == nil {
		b = []byte{}
	}
	return b
}

// ---------------------------------------------------------------- storage / place templates

// Each template is a function literal func(x S) D; %[1]s = S, %[2]s = D, %[3]s = package-level variable of type S.
// CONV marks the conversion under test (replaced by D(...) or by a chain).
var templates = []struct{ Name, Src string }{
	{"param", `(func(x %[1]s) %[2]s { return CONV(x) })`},
	{"local", `(func(x %[1]s) %[2]s { y := x; return CONV(y) })`},
	{"localvar", `(func(x %[1]s) %[2]s { var y %[1]s; y = x; return CONV(y) })`},
	{"captured1", `(func(x %[1]s) %[2]s { return func() %[2]s { return CONV(x) }() })`},
	{"captured2", `(func(x %[1]s) %[2]s { y := x; return func() %[2]s { return func() %[2]s { return CONV(y) }() }() })`},
	{"captured3w", `(func(x %[1]s) %[2]s { var r %[2]s; func() { func() { func() { r = CONV(x) }() }() }(); return r })`},
	{"namedresult", `(func(x %[1]s) (r %[2]s) { r = CONV(x); return })`},
	{"global", `(func(x %[1]s) %[2]s { %[3]s = x; return CONV(%[3]s) })`},
	{"deref", `(func(x %[1]s) %[2]s { p := &x; return CONV(*p) })`},
	{"sliceelem", `(func(x %[1]s) %[2]s { a := []%[1]s{x}; return CONV(a[0]) })`},
	{"field", `(func(x %[1]s) %[2]s { s := struct{ a int; f %[1]s }{1, x}; return CONV(s.f) })`},
	{"mapelem", `(func(x %[1]s) %[2]s { m := map[string]%[1]s{"k": x}; return CONV(m["k"]) })`},
	{"assert", `(func(x %[1]s) %[2]s { var i interface{} = x; return CONV(i.(%[1]s)) })`},
	{"callresult", `(func(x %[1]s) %[2]s { f := func() %[1]s { return x }; return CONV(f()) })`},
}

func wrapConv(name, inner string) string {
	if strings.HasPrefix(name, "*") {
		return "(" + name + ")(" + inner + ")"
	}
	return name + "(" + inner + ")"
}

func render(tmpl string, s typ, chain []typ) string {
	src := fmt.Sprintf(tmpl, s.Name, chain[len(chain)-1].Name, varName(s))
	for {
		i := strings.Index(src, "CONV(")
		if i < 0 {
			break
		}
		// find the matching parenthesis
		depth, j := 0, i+4
		for ; j < len(src); j++ {
			if src[j] == '(' {
				depth++
			} else if src[j] == ')' {
				depth--
				if depth == 0 {
					break
				}
			}
		}
		arg := src[i+5 : j]
		for _, c := range chain {
			arg = wrapConv(c.Name, arg)
		}
		src = src[:i] + arg + src[j+1:]
	}
	return src
}

// chainValid asks O2 whether every step of the chain S -> c1 -> ... -> cn is a valid conversion of a variable.
func chainValid(s typ, chain []typ) (bool, string) {
	expr := varName(s)
	for _, c := range chain {
		expr = wrapConv(c.Name, expr)
	}
	r := o2(expr)
	return r.OK, r.Err
}

// nativeChain applies the compiled-Go conversions; ok=false when a step's result is not defined by the specification.
func nativeChain(s typ, chain []typ, x interface{}) (res interface{}, ok bool, err error) {
	cur, kind := x, s.Kind
	for _, c := range chain {
		if !defined(kind, c.Kind, cur) {
			return nil, false, nil
		}
		if isStructish(kind) || kind == "[]int" || kind == "bool" {
			if kind != c.Kind {
				return nil, false, fmt.Errorf("internal: no native conversion %s -> %s", kind, c.Kind)
			}
		} else {
			f := native[[2]string{kind, c.Kind}]
			if f == nil {
				return nil, false, fmt.Errorf("internal: no native conversion %s -> %s", kind, c.Kind)
			}
			cur = f(cur)
		}
		kind = c.Kind
	}
	return cur, true, nil
}

type compiled struct {
	fn       reflect.Value
	rejected bool
	msg      string
}

var fnCache = map[string]compiled{}
var fnCacheOwner *interp

// compileFn compiles a function literal once per interpreter.
func compileFn(ip *interp, src string) compiled {
	if fnCacheOwner != ip {
		fnCache = map[string]compiled{}
		fnCacheOwner = ip
	}
	if c, ok := fnCache[src]; ok {
		return c
	}
	var c compiled
	o := evalExpr(ip, src)
	switch {
	case o.Rejected || o.RunPanic:
		c = compiled{rejected: true, msg: o.Panic}
	default:
		c = compiled{fn: reflect.ValueOf(o.Value)}
		if c.fn.Kind() != reflect.Func {
			c = compiled{rejected: true, msg: fmt.Sprintf("not a function: %T", o.Value)}
		}
	}
	fnCache[src] = c
	return c
}

// checkRun re-checks one run-time case from its plain form.
func checkRun(ip *interp, k kase) error {
	s, ok := typeByName(k.S)
	if !ok {
		return fmt.Errorf("bad case: type %q", k.S)
	}
	var chain []typ
	names := []string{}
	if k.Via != "" {
		names = strings.Split(k.Via, ",")
	}
	names = append(names, k.D)
	for _, n := range names {
		c, ok := typeByName(n)
		if !ok {
			return fmt.Errorf("bad case: type %q", n)
		}
		chain = append(chain, c)
	}
	valid, why := chainValid(s, chain)
	c := compileFn(ip, k.Src)
	if !valid {
		if !c.rejected {
			return fmt.Errorf("%s: Go rejects the conversion (%s); gomacro compiled it", k.Src, why)
		}
		return nil
	}
	if c.rejected {
		return fmt.Errorf("%s: valid Go; gomacro failed to compile it: %s", k.Src, c.msg)
	}
	if k.Value == "" && k.Form == "reject" {
		return nil
	}
	x, err := decodeValue(s.Kind, k.Value)
	if err != nil {
		return fmt.Errorf("bad case value: %v", err)
	}
	want, def, err := nativeChain(s, chain, x)
	if err != nil {
		return err
	}
	if !def {
		return nil // outside the property's domain
	}
	var out []reflect.Value
	if p := vlib.Try(func() { out = c.fn.Call([]reflect.Value{reflect.ValueOf(x)}) }); p != nil {
		return fmt.Errorf("%s applied to %s: gomacro panicked: %v; Go gives %s", k.Src, canonAny(x), p, canonAny(want))
	}
	if len(out) != 1 {
		return fmt.Errorf("%s: %d results", k.Src, len(out))
	}
	got := out[0].Interface()
	if g, w := canonAny(got), canonAny(want); g != w {
		return fmt.Errorf("%s applied to %s: gomacro %s, Go %s", k.Src, canonAny(x), g, w)
	}
	return nil
}

// changes: does the conversion change the value (not merely its type)?
func changes(x, y interface{}) bool { return valueText(x) != valueText(y) }

// valueText renders the mathematical / textual content of a value without its kind.
func valueText(x interface{}) string {
	switch v := x.(type) {
	case float32:
		return valueText(float64(v))
	case float64:
		if v == math.Trunc(v) && math.Abs(v) < 1<<63 && !(v == 0 && math.Signbit(v)) {
			return strconv.FormatInt(int64(v), 10)
		}
		if v == math.Trunc(v) && v >= 1<<63 && v < 1<<64 {
			return strconv.FormatUint(uint64(v), 10)
		}
		return strconv.FormatFloat(v, 'g', -1, 64)
	case complex64:
		return valueText(complex128(v))
	case complex128:
		if imag(v) == 0 && !math.Signbit(imag(v)) {
			return valueText(real(v))
		}
		return valueText(real(v)) + "+" + valueText(imag(v)) + "i"
	case string:
		return strconv.Quote(v)
	case []byte:
		return strconv.Quote(string(v))
	case []rune:
		for _, r := range v {
			if r < 0 || r >= 0x80 {
				return fmt.Sprint(v)
			}
		}
		return strconv.Quote(string(v))
	case sPA, sPC, *sPA, []int, bool:
		return canonAny(x)
	}
	return fmt.Sprint(x)
}

var _ = utf8.RuneError
var _ testing.T
