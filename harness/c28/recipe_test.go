package c28

import (
	"encoding/json"
	"fmt"
	"go/token"
	"sort"
	"strings"

	"github.com/cosmos72/gomacro/go/types"
)

// A recipe R is the plain, serialisable description of a type term. build() turns it
// into a *fresh* graph of go/types objects every time it is called (named types and
// "shared" method objects come from the world and are the same objects every time).
type R struct {
	K  string   `json:"k"`            // basic named ptr slice array map chan func struct iface msig
	N  string   `json:"n,omitempty"`  // basic: name; named: name; chan: dir (both send recv)
	L  int64    `json:"l,omitempty"`  // array: length; msig: index of the explicit method
	E  []*R     `json:"e,omitempty"`  // ptr/slice/array/chan: [elem]; map: [key, elem]; msig: [iface]
	P  []*R     `json:"p,omitempty"`  // func: parameter types
	Q  []*R     `json:"q,omitempty"`  // func: result types
	V  bool     `json:"v,omitempty"`  // func: variadic (last parameter must be a slice)
	Rc *R       `json:"rc,omitempty"` // func: receiver type (nil: no receiver)
	F  []F      `json:"f,omitempty"`  // struct: fields
	M  []M      `json:"m,omitempty"`  // iface: explicit methods
	Em []string `json:"em,omitempty"` // iface: embedded named interfaces (E0 E1 E2 NI)
}

type F struct {
	Name string `json:"name"`          // field name; for an embedded field the type name
	Pkg  string `json:"pkg,omitempty"` // p or q
	Emb  bool   `json:"emb,omitempty"`
	Tag  string `json:"tag,omitempty"`
	T    *R     `json:"t"`
}

type M struct {
	Name string `json:"name"`
	Pkg  string `json:"pkg,omitempty"` // p or q
	Sig  *R     `json:"sig"`           // K=func, receiver given by Recv
	// Recv: how the method's receiver is set.
	//  self     no receiver given: types.NewInterfaceType sets it to the interface itself (what xreflect does)
	//  named:X  receiver is the named type X (what the type checker does for `type X interface{...}`)
	//  shared   the *types.Func object is shared: it belongs to a one-method owner interface of the world
	Recv string `json:"recv"`
}

func (r *R) String() string {
	b, _ := json.Marshal(r)
	return string(b)
}

func clone(r *R) *R {
	var c R
	if err := json.Unmarshal([]byte(r.String()), &c); err != nil {
		panic(err)
	}
	return &c
}

// ---------------------------------------------------------------- the world: named types and shared objects

type world struct {
	pkg    map[string]*types.Package
	named  map[string]*types.Named
	shared map[string]*types.Func
}

var basics = map[string]types.Type{}

func init() {
	for _, k := range []types.BasicKind{types.Bool, types.Int, types.Int8, types.Int32, types.Int64, types.Uint8, types.Uint, types.Uintptr, types.Float32, types.Float64,
		types.Complex128, types.String, types.UnsafePointer} {
		basics[types.Typ[k].Name()] = types.Typ[k]
	}
	basics["byte"] = types.Universe.Lookup("byte").Type()
	basics["rune"] = types.Universe.Lookup("rune").Type()
}

var namedNames = []string{"N1", "N2", "N3", "E0", "E1", "E2", "NI"}
var ifaceNames = []string{"E0", "E1", "E2", "NI"}

// methods of the named interfaces (an explicit method of an interface that embeds one
// of them must not repeat these names)
var namedIfaceMethods = map[string][]string{"E0": nil, "E1": {"m"}, "E2": {"n"}, "NI": {"k"}}

func newWorld() *world {
	w := &world{pkg: map[string]*types.Package{}, named: map[string]*types.Named{}, shared: map[string]*types.Func{}}
	w.pkg["p"] = types.NewPackage("example.org/p", "p")
	w.pkg["q"] = types.NewPackage("example.org/q", "q")
	mk := func(pkg, name string, under types.Type) *types.Named {
		tn := types.NewTypeName(token.NoPos, w.pkg[pkg], name, nil)
		n := types.NewNamed(tn, under, nil)
		w.named[name] = n
		return n
	}
	mk("p", "N1", types.Typ[types.Int])
	mk("q", "N2", types.NewStruct([]*types.Var{types.NewField(token.NoPos, w.pkg["q"], "A", types.Typ[types.Int], false)}, nil))
	mk("q", "N3", types.Typ[types.Int]) // same underlying type as N1, another declaration
	// named interfaces, built as the type checker builds them: the receiver of a method is the named type
	iface := func(pkg, name string, methods ...string) {
		n := mk(pkg, name, nil)
		var fs []*types.Func
		for _, m := range methods {
			var params *types.Tuple
			if m == "n" {
				params = types.NewTuple(types.NewVar(token.NoPos, nil, "", types.Typ[types.Int]))
			}
			sig := types.NewSignature(types.NewVar(token.NoPos, w.pkg[pkg], "", n), params, nil, false)
			fs = append(fs, types.NewFunc(token.NoPos, w.pkg[pkg], m, sig))
		}
		n.SetUnderlying(types.NewInterfaceType(fs, nil).Complete())
	}
	iface("p", "E0")
	iface("p", "E1", "m")
	iface("q", "E2", "n")
	iface("p", "NI", "k")
	return w
}

// ---------------------------------------------------------------- build

type buildError struct{ msg string }

func (e buildError) Error() string { return e.msg }

func bad(format string, args ...interface{}) { panic(buildError{fmt.Sprintf(format, args...)}) }

// build makes fresh type objects for r. It returns an error for a recipe that does
// not describe a type (the constructors of go/types would refuse it).
func (w *world) build(r *R) (t types.Type, err error) {
	defer func() {
		if p := recover(); p != nil {
			if be, ok := p.(buildError); ok {
				t, err = nil, be
				return
			}
			panic(p)
		}
	}()
	return w.mk(r), nil
}

func (w *world) elems(r *R, n int) []types.Type {
	if len(r.E) != n {
		bad("%s needs %d element types", r.K, n)
	}
	out := make([]types.Type, n)
	for i, e := range r.E {
		out[i] = w.mk(e)
	}
	return out
}

func (w *world) tuple(l []*R) *types.Tuple {
	vars := make([]*types.Var, len(l))
	for i, e := range l {
		vars[i] = types.NewVar(token.NoPos, nil, "", w.mk(e))
	}
	return types.NewTuple(vars...)
}

func (w *world) sig(r *R, recv *types.Var) *types.Signature {
	if r == nil || r.K != "func" {
		bad("signature recipe expected")
	}
	if r.V && (len(r.P) == 0 || r.P[len(r.P)-1].K != "slice") {
		bad("variadic without a final slice parameter")
	}
	return types.NewSignature(recv, w.tuple(r.P), w.tuple(r.Q), r.V)
}

func (w *world) mk(r *R) types.Type {
	if r == nil {
		bad("nil recipe")
	}
	switch r.K {
	case "basic":
		t, ok := basics[r.N]
		if !ok {
			bad("unknown basic %q", r.N)
		}
		return t
	case "named":
		t, ok := w.named[r.N]
		if !ok {
			bad("unknown named %q", r.N)
		}
		return t
	case "ptr":
		return types.NewPointer(w.elems(r, 1)[0])
	case "slice":
		return types.NewSlice(w.elems(r, 1)[0])
	case "array":
		if r.L < 0 {
			bad("negative length")
		}
		return types.NewArray(w.elems(r, 1)[0], r.L)
	case "map":
		e := w.elems(r, 2)
		return types.NewMap(e[0], e[1])
	case "chan":
		dir, ok := map[string]types.ChanDir{"both": types.SendRecv, "send": types.SendOnly, "recv": types.RecvOnly}[r.N]
		if !ok {
			bad("bad chan direction %q", r.N)
		}
		return types.NewChan(dir, w.elems(r, 1)[0])
	case "func":
		var recv *types.Var
		if r.Rc != nil {
			recv = types.NewVar(token.NoPos, nil, "", w.mk(r.Rc))
		}
		return w.sig(r, recv)
	case "struct":
		seen := map[string]bool{}
		var fields []*types.Var
		var tags []string
		for _, f := range r.F {
			if f.Name == "" || seen[f.Name] || f.T == nil {
				bad("bad or repeated field name %q", f.Name)
			}
			seen[f.Name] = true
			pkg := w.pkg[f.Pkg]
			if pkg == nil {
				bad("bad package %q", f.Pkg)
			}
			if f.Emb && (f.T.K != "named" || f.T.N != f.Name) {
				bad("embedded field must be named after its named type")
			}
			fields = append(fields, types.NewField(token.NoPos, pkg, f.Name, w.mk(f.T), f.Emb))
			tags = append(tags, f.Tag)
		}
		return types.NewStruct(fields, tags)
	case "iface":
		return w.iface(r)
	case "msig":
		if len(r.E) != 1 || r.E[0].K != "iface" {
			bad("msig needs an interface")
		}
		it := w.iface(r.E[0])
		if r.L < 0 || int(r.L) >= it.NumExplicitMethods() {
			bad("msig index out of range")
		}
		return it.ExplicitMethod(int(r.L)).Type()
	}
	bad("unknown kind %q", r.K)
	return nil
}

func (w *world) iface(r *R) *types.Interface {
	seen := map[string]bool{}
	var embeds []types.Type
	es := append([]string(nil), r.Em...)
	sort.Strings(es)
	for i, e := range es {
		ms, ok := namedIfaceMethods[e]
		if !ok || (i > 0 && es[i-1] == e) {
			bad("bad or repeated embedded interface %q", e)
		}
		for _, m := range ms {
			seen[m] = true
		}
		embeds = append(embeds, w.named[e])
	}
	var methods []*types.Func
	for _, m := range r.M {
		if m.Name == "" || seen[m.Name] {
			bad("bad or repeated method name %q", m.Name)
		}
		seen[m.Name] = true
		pkg := w.pkg[m.Pkg]
		if pkg == nil {
			bad("bad package %q", m.Pkg)
		}
		if m.Sig == nil || m.Sig.Rc != nil {
			bad("method signature without receiver expected")
		}
		switch {
		case m.Recv == "self":
			methods = append(methods, types.NewFunc(token.NoPos, pkg, m.Name, w.sig(m.Sig, nil)))
		case strings.HasPrefix(m.Recv, "named:"):
			n, ok := w.named[strings.TrimPrefix(m.Recv, "named:")]
			if !ok {
				bad("bad receiver %q", m.Recv)
			}
			methods = append(methods, types.NewFunc(token.NoPos, pkg, m.Name, w.sig(m.Sig, types.NewVar(token.NoPos, pkg, "", n))))
		case m.Recv == "shared":
			key := m.Pkg + "." + m.Name + " " + m.Sig.String()
			f := w.shared[key]
			if f == nil {
				f = types.NewFunc(token.NoPos, pkg, m.Name, w.sig(m.Sig, nil))
				// the owner: a one-method interface; NewInterfaceType makes it the receiver of f
				types.NewInterfaceType([]*types.Func{f}, nil).Complete()
				w.shared[key] = f
			}
			methods = append(methods, f)
		default:
			bad("bad receiver style %q", m.Recv)
		}
	}
	return types.NewInterfaceType(methods, embeds).Complete()
}

// ---------------------------------------------------------------- descriptors (reference model of the documented identity rules)

// coarse is a canonical text of what the comments of typeutil.identical name as
// relevant for identity, minus the receivers of interface methods: byte is uint8,
// rune is int32, methods and embeddeds are sorted (NewInterfaceType sorts them), an
// unexported name carries its package. Two terms with different coarse texts are NOT
// identical by those rules. (The converse is not claimed.)
func coarse(r *R) string {
	var sb strings.Builder
	writeCoarse(&sb, r)
	return sb.String()
}

func exported(name string) bool { return name != "" && name[0] >= 'A' && name[0] <= 'Z' }

func qname(name, pkg string) string {
	if exported(name) {
		return name
	}
	return pkg + "." + name
}

func writeCoarse(sb *strings.Builder, r *R) {
	switch r.K {
	case "basic":
		n := r.N
		if n == "byte" {
			n = "uint8"
		} else if n == "rune" {
			n = "int32"
		}
		sb.WriteString(n)
	case "named":
		sb.WriteString("named " + r.N)
	case "ptr", "slice", "map":
		sb.WriteString(r.K + "(")
		for _, e := range r.E {
			writeCoarse(sb, e)
			sb.WriteString(",")
		}
		sb.WriteString(")")
	case "array":
		fmt.Fprintf(sb, "array %d(", r.L)
		writeCoarse(sb, r.E[0])
		sb.WriteString(")")
	case "chan":
		sb.WriteString("chan " + r.N + "(")
		writeCoarse(sb, r.E[0])
		sb.WriteString(")")
	case "func":
		sb.WriteString("func[")
		if r.Rc != nil {
			writeCoarse(sb, r.Rc)
		} else {
			sb.WriteString("-")
		}
		sb.WriteString("](")
		for _, e := range r.P {
			writeCoarse(sb, e)
			sb.WriteString(",")
		}
		if r.V {
			sb.WriteString("...")
		}
		sb.WriteString(")(")
		for _, e := range r.Q {
			writeCoarse(sb, e)
			sb.WriteString(",")
		}
		sb.WriteString(")")
	case "struct":
		sb.WriteString("struct{")
		for _, f := range r.F {
			fmt.Fprintf(sb, "%s emb=%v tag=%q ", qname(f.Name, f.Pkg), f.Emb, f.Tag)
			writeCoarse(sb, f.T)
			sb.WriteString(";")
		}
		sb.WriteString("}")
	case "iface":
		var ms []string
		for _, m := range r.M {
			ms = append(ms, qname(m.Name, m.Pkg)+" "+coarse(m.Sig))
		}
		sort.Strings(ms)
		es := append([]string(nil), r.Em...)
		sort.Strings(es)
		sb.WriteString("iface{" + strings.Join(ms, ";") + "|" + strings.Join(es, ";") + "}")
	case "msig":
		// the signature of an interface method: its receiver is (or points into) the
		// interface, which the coarse text does not describe: no claim is made
		fmt.Fprintf(sb, "msig %d ", r.L)
		sb.WriteString(r.String())
	}
}

// hasMsig: coarse makes no claim about terms that contain a method signature.
func hasMsig(r *R) bool { return strings.Contains(r.String(), `"k":"msig"`) }

// ---------------------------------------------------------------- small constructors for recipes

func rb(n string) *R           { return &R{K: "basic", N: n} }
func rn(n string) *R           { return &R{K: "named", N: n} }
func r1(k string, e *R) *R     { return &R{K: k, E: []*R{e}} }
func rarr(l int64, e *R) *R    { return &R{K: "array", L: l, E: []*R{e}} }
func rmap(k, e *R) *R          { return &R{K: "map", E: []*R{k, e}} }
func rchan(dir string, e *R) *R { return &R{K: "chan", N: dir, E: []*R{e}} }
func rfunc(rc *R, p, q []*R, v bool) *R {
	return &R{K: "func", Rc: rc, P: p, Q: q, V: v}
}
