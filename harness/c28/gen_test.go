package c28

import (
	"fmt"

	"pgregory.net/rapid"
)

// ---------------------------------------------------------------- bounded-exhaustive enumeration

var (
	tInt    = rb("int")
	tString = rb("string")
	tSliceI = r1("slice", rb("int"))
)

func tuples(ts []*R, max int) [][]*R {
	out := [][]*R{nil}
	if max >= 1 {
		for _, a := range ts {
			out = append(out, []*R{a})
		}
	}
	if max >= 2 {
		for _, a := range ts {
			for _, b := range ts {
				out = append(out, []*R{a, b})
			}
		}
	}
	return out
}

func funcs(params, results [][]*R, recvs []*R) []*R {
	var out []*R
	for _, rc := range recvs {
		for _, p := range params {
			for _, q := range results {
				out = append(out, rfunc(rc, p, q, false))
				if len(p) > 0 && p[len(p)-1].K == "slice" {
					out = append(out, rfunc(rc, p, q, true))
				}
			}
		}
	}
	return out
}

type fieldName struct{ name, pkg string }

func fieldVariants(names []fieldName, ts []*R, tags []string, embedded bool) []F {
	var out []F
	for _, n := range names {
		for _, t := range ts {
			for _, tag := range tags {
				out = append(out, F{Name: n.name, Pkg: n.pkg, Tag: tag, T: t})
			}
		}
	}
	if embedded {
		for _, tag := range tags {
			out = append(out, F{Name: "N1", Pkg: "p", Emb: true, Tag: tag, T: rn("N1")}, F{Name: "N2", Pkg: "q", Emb: true, Tag: tag, T: rn("N2")})
		}
	}
	return out
}

func structs(first, second []F) []*R {
	out := []*R{{K: "struct"}}
	for _, f := range first {
		out = append(out, &R{K: "struct", F: []F{f}})
		for _, g := range second {
			if g.Name != f.Name {
				out = append(out, &R{K: "struct", F: []F{f, g}})
			}
		}
	}
	return out
}

func methodVariants(names []fieldName, sigs []*R, recvs []string) []M {
	var out []M
	for _, n := range names {
		for _, s := range sigs {
			for _, rc := range recvs {
				out = append(out, M{Name: n.name, Pkg: n.pkg, Sig: s, Recv: rc})
			}
		}
	}
	return out
}

func ifaces(first, second []M, embeds [][]string) []*R {
	var out []*R
	for _, em := range embeds {
		out = append(out, &R{K: "iface", Em: em})
		for i, m := range first {
			out = append(out, &R{K: "iface", M: []M{m}, Em: em})
			for j, n := range second {
				if n.Name != m.Name && (len(first) != len(second) || j > i) {
					out = append(out, &R{K: "iface", M: []M{m, n}, Em: em})
				}
			}
		}
	}
	return out
}

func enumerate(thorough bool) []*R {
	var out []*R
	var atoms []*R
	for _, n := range []string{"bool", "int", "uint8", "byte", "int32", "rune", "string", "float64"} {
		atoms = append(atoms, rb(n))
	}
	for _, n := range namedNames {
		atoms = append(atoms, rn(n))
	}
	out = append(out, atoms...)
	small := []*R{tInt, tString, rb("byte"), rb("uint8"), rn("N1"), rn("N3"), rn("E1")}

	// ---- level 1
	unary := func(over []*R, dirs []string, lens []int64) {
		for _, a := range over {
			out = append(out, r1("ptr", a), r1("slice", a))
			for _, l := range lens {
				out = append(out, rarr(l, a))
			}
			for _, d := range dirs {
				out = append(out, rchan(d, a))
			}
		}
	}
	unary(atoms, []string{"both", "send", "recv"}, []int64{2, 3})
	for _, k := range small {
		for _, e := range small {
			out = append(out, rmap(k, e))
		}
	}
	results := [][]*R{nil, {tInt}, {rn("E1")}, {tInt, rn("E1")}}
	if thorough {
		results = tuples([]*R{tInt, rn("E1")}, 2)
	}
	recvs := []*R{nil, rn("N1"), r1("ptr", rn("N1"))}
	if thorough {
		recvs = append(recvs, tInt)
	}
	out = append(out, funcs(tuples([]*R{tInt, tString, tSliceI, rn("N1")}, 2), results, recvs)...)
	fnames := []fieldName{{"a", "p"}, {"a", "q"}, {"A", "p"}, {"b", "p"}}
	fv := fieldVariants(fnames, []*R{tInt, tString, rn("N1")}, []string{"", "x"}, true)
	fvSecond := fv
	if !thorough { // quick: the second field comes from a sample of the variants (every name, type, tag and both embedded types occur)
		fvSecond = nil
		for i, f := range fv {
			if i%3 == 0 || f.Emb {
				fvSecond = append(fvSecond, f)
			}
		}
	}
	out = append(out, structs(fv, fvSecond)...)
	mnames := []fieldName{{"m", "p"}, {"n", "p"}, {"x", "p"}, {"x", "q"}}
	sigs := []*R{rfunc(nil, nil, nil, false), rfunc(nil, []*R{tInt}, nil, false)}
	if thorough {
		sigs = append(sigs, rfunc(nil, nil, []*R{tString}, false), rfunc(nil, []*R{tSliceI}, nil, true))
	}
	mv := methodVariants(mnames, sigs, []string{"self", "named:NI", "shared"})
	embeds := [][]string{nil, {"E0"}, {"E1"}, {"E2"}, {"E0", "E1"}, {"E1", "E2"}}
	l1ifaces := ifaces(mv, mv, embeds)
	out = append(out, l1ifaces...)
	for _, it := range l1ifaces {
		if len(it.M) == 1 && len(it.Em) <= 1 {
			out = append(out, &R{K: "msig", E: []*R{it}})
		}
	}

	// ---- level 2, over representatives of level 1
	mSelf := M{Name: "m", Pkg: "p", Sig: sigs[0], Recv: "self"}
	mNamed := M{Name: "m", Pkg: "p", Sig: sigs[0], Recv: "named:NI"}
	mShared := M{Name: "m", Pkg: "p", Sig: sigs[0], Recv: "shared"}
	iSelf := &R{K: "iface", M: []M{mSelf}}
	iE1 := &R{K: "iface", Em: []string{"E1"}}
	sAp := &R{K: "struct", F: []F{{Name: "a", Pkg: "p", T: tInt}}}
	reps := []*R{r1("ptr", tInt), r1("ptr", rn("N1")), tSliceI, r1("slice", rb("byte")), rarr(2, tInt), rmap(tString, tInt), rchan("both", tInt), rchan("send", tInt),
		rfunc(nil, nil, nil, false), rfunc(nil, []*R{tInt}, nil, false), rfunc(nil, []*R{tSliceI}, nil, true), rfunc(rn("N1"), nil, nil, false),
		{K: "struct"}, sAp, {K: "struct", F: []F{{Name: "a", Pkg: "q", T: tInt}}}, {K: "struct", F: []F{{Name: "A", Pkg: "p", Tag: "x", T: tInt}}},
		{K: "struct", F: []F{{Name: "N1", Pkg: "p", Emb: true, T: rn("N1")}}},
		{K: "iface"}, iSelf, {K: "iface", M: []M{mNamed}}, {K: "iface", M: []M{mShared}}, iE1, {K: "iface", Em: []string{"E0", "E1"}},
		{K: "msig", E: []*R{iSelf}}}
	unary(reps, []string{"both", "recv"}, []int64{2})
	for _, k := range []*R{tInt, tString, r1("ptr", tInt), iSelf, iE1, sAp} {
		for _, e := range reps {
			out = append(out, rmap(k, e))
		}
	}
	repsB := []*R{r1("ptr", tInt), tSliceI, rfunc(nil, nil, nil, false), sAp, iSelf, iE1}
	recvs2 := []*R{nil, iSelf}
	if thorough {
		recvs2 = append(recvs2, r1("ptr", rn("N1")))
	}
	out = append(out, funcs(tuples(repsB, 2), [][]*R{nil, {iSelf}, {rfunc(nil, []*R{tInt}, nil, false)}}, recvs2)...)
	fv2 := fieldVariants([]fieldName{{"a", "p"}, {"a", "q"}, {"A", "p"}}, append([]*R{tInt}, repsB...), []string{"", "x"}, false)
	out = append(out, structs(fv2, []F{{Name: "A", Pkg: "p", T: tInt}, {Name: "b", Pkg: "p", Tag: "x", T: tString}, {Name: "N1", Pkg: "p", Emb: true, T: rn("N1")}})...)
	var sigs2 []*R
	for _, t := range repsB {
		sigs2 = append(sigs2, rfunc(nil, []*R{t}, nil, false), rfunc(nil, nil, []*R{t}, false))
	}
	mv2 := methodVariants([]fieldName{{"m", "p"}}, sigs2, []string{"self", "named:NI", "shared"})
	mv2 = append(mv2, methodVariants([]fieldName{{"x", "p"}, {"x", "q"}}, sigs2[:6], []string{"self"})...)
	l2ifaces := ifaces(mv2, []M{{Name: "n", Pkg: "p", Sig: sigs[0], Recv: "self"}}, [][]string{nil, {"E0"}, {"E2"}})
	out = append(out, l2ifaces...)
	for i, it := range l2ifaces {
		if len(it.M) == 1 && i%4 == 1 {
			out = append(out, &R{K: "msig", E: []*R{it}})
		}
	}
	return out
}

// ---------------------------------------------------------------- rapid generator of recipes

var basicNames = []string{"int", "byte", "uint8", "rune", "int32", "string", "bool", "float64", "uintptr", "unsafe.Pointer", "complex128"}

func genAtom(t *rapid.T, label string) *R {
	if rapid.Bool().Draw(t, label+"-named") {
		return rn(rapid.SampledFrom(namedNames).Draw(t, label+"-name"))
	}
	n := rapid.SampledFrom(basicNames).Draw(t, label+"-basic")
	if _, ok := basics[n]; !ok {
		n = "int"
	}
	return rb(n)
}

func genList(t *rapid.T, depth int, label string, max int) []*R {
	n := rapid.IntRange(0, max).Draw(t, label+"-n")
	var out []*R
	for i := 0; i < n; i++ {
		out = append(out, genR(t, depth, fmt.Sprintf("%s%d", label, i)))
	}
	return out
}

func genSig(t *rapid.T, depth int, label string) *R {
	f := rfunc(nil, genList(t, depth, label+"-p", 2), genList(t, depth, label+"-q", 2), false)
	if rapid.IntRange(0, 3).Draw(t, label+"-variadic") == 0 {
		f.P = append(f.P, r1("slice", genR(t, depth-1, label+"-var")))
		f.V = true
	}
	return f
}

func genPkg(t *rapid.T, label string) string {
	return rapid.SampledFrom([]string{"p", "q"}).Draw(t, label+"-pkg")
}

func genR(t *rapid.T, depth int, label string) *R {
	if depth <= 0 {
		return genAtom(t, label)
	}
	d := depth - 1
	switch rapid.IntRange(0, 11).Draw(t, label+"-kind") {
	case 0, 1: // interface
		r := &R{K: "iface"}
		used := map[string]bool{}
		ne := rapid.IntRange(0, 2).Draw(t, label+"-nemb")
		for i := 0; i < ne; i++ {
			e := rapid.SampledFrom(ifaceNames).Draw(t, fmt.Sprintf("%s-emb%d", label, i))
			if used["emb:"+e] {
				continue
			}
			used["emb:"+e] = true
			for _, m := range namedIfaceMethods[e] {
				used[m] = true
			}
			r.Em = append(r.Em, e)
		}
		nm := rapid.IntRange(0, 2).Draw(t, label+"-nmeth")
		for i := 0; i < nm; i++ {
			l := fmt.Sprintf("%s-m%d", label, i)
			name := rapid.SampledFrom([]string{"m", "n", "x", "k", "M"}).Draw(t, l+"-name")
			if used[name] {
				continue
			}
			used[name] = true
			rc := rapid.SampledFrom([]string{"self", "named:NI", "shared", "named:E1", "named:N1"}).Draw(t, l+"-recv")
			r.M = append(r.M, M{Name: name, Pkg: genPkg(t, l), Sig: genSig(t, d, l), Recv: rc})
		}
		return r
	case 2, 3: // function type
		f := genSig(t, d, label)
		if rapid.IntRange(0, 2).Draw(t, label+"-hasrecv") == 0 {
			f.Rc = genR(t, d, label+"-recv")
		}
		return f
	case 4, 5: // struct
		r := &R{K: "struct"}
		used := map[string]bool{}
		nf := rapid.IntRange(0, 2).Draw(t, label+"-nf")
		for i := 0; i < nf; i++ {
			l := fmt.Sprintf("%s-f%d", label, i)
			f := F{Tag: rapid.SampledFrom([]string{"", "x", "y"}).Draw(t, l+"-tag")}
			if rapid.IntRange(0, 3).Draw(t, l+"-emb") == 0 {
				n := rapid.SampledFrom(namedNames).Draw(t, l+"-embname")
				f.Name, f.Emb, f.T, f.Pkg = n, true, rn(n), "p"
			} else {
				f.Name = rapid.SampledFrom([]string{"a", "b", "A"}).Draw(t, l+"-name")
				f.Pkg = genPkg(t, l)
				f.T = genR(t, d, l+"-t")
			}
			if used[f.Name] {
				continue
			}
			used[f.Name] = true
			r.F = append(r.F, f)
		}
		return r
	case 6: // method signature of an interface
		it := &R{K: "iface", M: []M{{Name: "m", Pkg: genPkg(t, label), Sig: genSig(t, d, label+"-ms"),
			Recv: rapid.SampledFrom([]string{"self", "named:NI", "shared"}).Draw(t, label+"-msrecv")}}}
		if rapid.Bool().Draw(t, label+"-msemb") {
			it.Em = []string{"E2"}
		}
		return &R{K: "msig", E: []*R{it}}
	case 7:
		return rmap(genR(t, d, label+"-k"), genR(t, d, label+"-e"))
	case 8:
		return rchan(rapid.SampledFrom([]string{"both", "send", "recv"}).Draw(t, label+"-dir"), genR(t, d, label+"-e"))
	case 9:
		return rarr(int64(rapid.IntRange(0, 3).Draw(t, label+"-len")), genR(t, d, label+"-e"))
	case 10:
		return r1(rapid.SampledFrom([]string{"ptr", "slice"}).Draw(t, label+"-ps"), genR(t, d, label+"-e"))
	default:
		return genAtom(t, label)
	}
}

// ---------------------------------------------------------------- single-feature mutants

func nodes(r *R, acc *[]*R) {
	if r == nil {
		return
	}
	*acc = append(*acc, r)
	for _, e := range r.E {
		nodes(e, acc)
	}
	for _, e := range r.P {
		nodes(e, acc)
	}
	for _, e := range r.Q {
		nodes(e, acc)
	}
	nodes(r.Rc, acc)
	for _, f := range r.F {
		nodes(f.T, acc)
	}
	for _, m := range r.M {
		nodes(m.Sig, acc)
	}
}

// mutate returns a copy of r with one feature of one node changed (sometimes the copy
// is not a type any more: the caller skips those; sometimes the change is invisible to
// identity, e.g. byte for uint8: that is wanted).
func mutate(t *rapid.T, r *R, label string) *R {
	c := clone(r)
	var all []*R
	nodes(c, &all)
	n := all[rapid.IntRange(0, len(all)-1).Draw(t, label+"-node")]
	flip := func(a, b string, cur string) string {
		if cur == a {
			return b
		}
		return a
	}
	switch n.K {
	case "basic":
		n.N = map[string]string{"byte": "uint8", "uint8": "byte", "rune": "int32", "int32": "rune", "int": "uint"}[n.N]
		if n.N == "" {
			n.N = "int"
		}
	case "named":
		n.N = rapid.SampledFrom(namedNames).Draw(t, label+"-named")
	case "array":
		n.L = (n.L + 1) % 4
	case "chan":
		n.N = rapid.SampledFrom([]string{"both", "send", "recv"}).Draw(t, label+"-dir")
	case "ptr":
		n.K = "slice"
	case "slice":
		n.K = "ptr"
	case "map":
		n.E[0], n.E[1] = n.E[1], n.E[0]
	case "func":
		switch rapid.IntRange(0, 4).Draw(t, label+"-what") {
		case 0:
			n.V = !n.V
		case 1:
			if n.Rc == nil {
				n.Rc = rn("N1")
			} else {
				n.Rc = nil
			}
		case 2:
			if n.Rc != nil {
				n.Rc = r1("ptr", n.Rc)
			} else {
				n.P = append(n.P, tInt)
			}
		case 3:
			n.P, n.Q = n.Q, n.P
		default:
			if len(n.Q) > 0 {
				n.Q = n.Q[:len(n.Q)-1]
			} else {
				n.Q = []*R{tString}
			}
		}
	case "struct":
		if len(n.F) == 0 {
			n.F = []F{{Name: "a", Pkg: "p", T: tInt}}
			break
		}
		f := &n.F[rapid.IntRange(0, len(n.F)-1).Draw(t, label+"-field")]
		switch rapid.IntRange(0, 3).Draw(t, label+"-what") {
		case 0:
			f.Tag = flip("", "x", f.Tag)
		case 1:
			f.Pkg = flip("p", "q", f.Pkg)
		case 2:
			if !f.Emb {
				f.Name = flip("a", "A", f.Name)
			}
		default:
			if f.Emb {
				f.Emb = false
			} else if f.T.K == "named" {
				f.Emb, f.Name = true, f.T.N
			}
		}
	case "iface":
		switch rapid.IntRange(0, 3).Draw(t, label+"-what") {
		case 0: // embedded interfaces: add or drop one
			e := rapid.SampledFrom(ifaceNames).Draw(t, label+"-emb")
			var out []string
			found := false
			for _, x := range n.Em {
				if x == e {
					found = true
				} else {
					out = append(out, x)
				}
			}
			if !found {
				out = append(out, e)
			}
			n.Em = out
		case 1:
			if len(n.M) > 0 {
				m := &n.M[rapid.IntRange(0, len(n.M)-1).Draw(t, label+"-meth")]
				m.Recv = rapid.SampledFrom([]string{"self", "named:NI", "shared", "named:E1"}).Draw(t, label+"-recv")
			}
		case 2:
			if len(n.M) > 0 {
				m := &n.M[rapid.IntRange(0, len(n.M)-1).Draw(t, label+"-meth")]
				m.Pkg = flip("p", "q", m.Pkg)
			}
		default:
			if len(n.M) > 0 {
				n.M = n.M[1:]
			} else {
				n.M = []M{{Name: "z", Pkg: "p", Sig: rfunc(nil, nil, nil, false), Recv: "self"}}
			}
		}
	case "msig":
		// handled through its interface child
	}
	return c
}
