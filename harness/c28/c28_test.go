// C28: type identity is a total equivalence consistent with hashing and type maps.
// Oracles: the algebraic laws of the property statement checked on all pairs of a
// bounded universe of type terms (every term built twice, as distinct objects), a small
// reference model of the identity rules documented in typeutil.identical, and an
// association list keyed by identity for typeutil.Map.
package c28

import (
	"encoding/json"
	"flag"
	"fmt"
	"os"
	"sort"
	"testing"

	"github.com/cosmos72/gomacro/go/types"
	"github.com/cosmos72/gomacro/go/typeutil"
	"pgregory.net/rapid"

	"verif/harness/vlib"
)

var rec *vlib.Rec

func TestMain(m *testing.M) {
	rec = vlib.Open("C28")
	rec.Rule("cases = ordered pairs (and triples inside hash buckets) of type terms: bounded-exhaustive terms to depth 2 over basic (incl. byte/rune aliases), named, pointer, slice, array, map, chan, func (0-2 params/results, variadic, receiver), struct (0-2 fields: embedded, tagged, unexported in two packages), interface (0-2 explicit methods with three receiver styles, 0-2 embedded named interfaces) and method signatures taken from interfaces, every term built twice as distinct objects; " +
		"rapid-drawn terms to depth 4 with single-feature mutants; rapid histories of Set/At/Delete/Len/Iterate/Keys on typeutil.Map over pools of such terms. " +
		"A pair is non-trivial when the two terms are distinct objects and identical, or are not identical although their hashes are equal or their recipes differ in one feature only (embedded interfaces, receiver, tag, package of an unexported name, alias); a map history is non-trivial when it touches two distinct identical keys or two non-identical keys with equal hash; distinct = distinct recipe pairs / distinct histories")
	rec.Assume("the forked go/types constructors (NewInterfaceType, NewSignature, NewStruct, NewNamed ...) are trusted to build the terms; recipes they refuse are not types and are skipped")
	rec.Assume("reference model of identity, used one way only: two builds of the same recipe must be identical; recipes whose canonical text differs in a feature that the comments of typeutil.identical name (kind, length, direction, variadic, receiver of a function type, field name/package/embedded/tag, explicit method names and signatures, embedded interfaces, declaration of a named type) must not be identical")
	// a failing tree is reported after a bounded shrink (the pair laws are cheap to re-check, the histories are not)
	_ = flag.Set("rapid.shrinktime", "10s")
	os.Exit(vlib.Main(m, rec))
}

// ---------------------------------------------------------------- a term and the checked operations

type term struct {
	r    *R
	t    types.Type
	fine int // id of the recipe text: equal => same recipe
	crs  int // id of the coarse text, -1 when no claim is made
	hash uint32
	feat [10]string // top-level features of the recipe, for nearMiss
}

type interner map[string]int

func (in interner) id(s string) int {
	if v, ok := in[s]; ok {
		return v
	}
	v := len(in)
	in[s] = v
	return v
}

type universe struct {
	w      *world
	fine   interner
	coarse interner
	terms  []*term
	hasher typeutil.Hasher
}

func newUniverse() *universe {
	return &universe{w: newWorld(), fine: interner{}, coarse: interner{}, hasher: typeutil.MakeHasher()}
}

// add builds r once more and appends the term; returns nil for a recipe that is not a type.
func (u *universe) add(r *R) *term {
	t, err := u.w.build(r)
	if err != nil {
		return nil
	}
	tm := &term{r: r, t: t, fine: u.fine.id(r.String()), crs: -1, feat: features(r)}
	if !hasMsig(r) {
		tm.crs = u.coarse.id(coarse(r))
	}
	u.terms = append(u.terms, tm)
	return tm
}

func ident(a, b types.Type) (res bool, panicked interface{}) {
	panicked = vlib.Try(func() { res = typeutil.Identical(a, b) })
	return
}

func hashOf(h typeutil.Hasher, a types.Type) (res uint32, panicked interface{}) {
	panicked = vlib.Try(func() { res = h.Hash(a) })
	return
}

// plain form of a failing case
type caseFile struct {
	Kind  string   `json:"kind"` // "terms": laws over all pairs and triples of the listed terms; "map": a Map history
	Terms []*R     `json:"terms"`
	Ops   []mapOp  `json:"ops,omitempty"`
	Note  string   `json:"note,omitempty"`
	Dup   bool     `json:"dup,omitempty"` // terms: also build every term a second time
	Keys  []string `json:"-"`
}

func termsCase(note string, rs ...*R) []byte {
	data, _ := json.MarshalIndent(caseFile{Kind: "terms", Terms: rs, Note: note, Dup: true}, "", " ")
	return data
}

// checkTerms checks every law on all pairs and triples of the given terms (built in a
// fresh world, each twice when dup). It is the replay routine and the rapid property.
func checkTerms(rs []*R, dup bool) (class string, err error) {
	u := newUniverse()
	for _, r := range rs {
		if u.add(r) == nil {
			return "", nil // not a type: nothing to check
		}
	}
	if dup {
		for _, r := range rs {
			u.add(r)
		}
	}
	for _, t := range u.terms {
		h, p := hashOf(u.hasher, t.t)
		if p != nil {
			return "panic", fmt.Errorf("Hash panics: %v on %s", p, t.r)
		}
		t.hash = h
		h2, p := hashOf(typeutil.MakeHasher(), t.t)
		if p != nil || h2 != h {
			return "hash", fmt.Errorf("a second Hasher gives another hash (%d, %d, panic %v) for %s", h, h2, p, t.r)
		}
	}
	n := len(u.terms)
	id := make([][]bool, n)
	for i := range id {
		id[i] = make([]bool, n)
	}
	for i, a := range u.terms {
		for j, b := range u.terms {
			class, err := u.checkPair(a, b)
			if err != nil {
				return class, err
			}
			id[i][j] = class == "identical"
		}
	}
	for i := 0; i < n; i++ {
		for j := 0; j < n; j++ {
			for k := 0; k < n; k++ {
				if id[i][j] && id[j][k] && !id[i][k] {
					return "transitive", fmt.Errorf("not transitive: a~b and b~c but not a~c for a=%s b=%s c=%s", u.terms[i].r, u.terms[j].r, u.terms[k].r)
				}
			}
		}
	}
	return "", nil
}

// checkPair: the laws on the ordered pair (a, b), both directions. With a nil error
// class is "identical" or "different".
func (u *universe) checkPair(a, b *term) (class string, err error) {
	ab, p := ident(a.t, b.t)
	if p != nil {
		return "panic", fmt.Errorf("Identical(a, b) panics: %v; a=%s b=%s", p, a.r, b.r)
	}
	ba, p := ident(b.t, a.t)
	if p != nil {
		return "panic", fmt.Errorf("Identical(b, a) panics: %v; a=%s b=%s", p, a.r, b.r)
	}
	if ab != ba {
		return "symmetric", fmt.Errorf("not symmetric: Identical(a, b)=%v Identical(b, a)=%v; a=%s b=%s", ab, ba, a.r, b.r)
	}
	if a == b && !ab {
		return "reflexive", fmt.Errorf("not reflexive on %s", a.r)
	}
	if ab && a.hash != b.hash {
		return "hash", fmt.Errorf("identical types with different hashes %d, %d: a=%s b=%s", a.hash, b.hash, a.r, b.r)
	}
	// the documented rules
	if a.fine == b.fine && !ab {
		return "model-same-recipe", fmt.Errorf("two builds of the same recipe are not identical: %s", a.r)
	}
	if a.crs >= 0 && b.crs >= 0 && a.crs != b.crs && ab {
		return "model-different", fmt.Errorf("identical although the documented rules tell them apart: a=%s b=%s", a.r, b.r)
	}
	// IdenticalIgnoreTags is the same relation with tags ignored: it contains Identical and is symmetric
	var iab, iba bool
	if p := vlib.Try(func() { iab, iba = typeutil.IdenticalIgnoreTags(a.t, b.t), typeutil.IdenticalIgnoreTags(b.t, a.t) }); p != nil {
		return "panic", fmt.Errorf("IdenticalIgnoreTags panics: %v; a=%s b=%s", p, a.r, b.r)
	}
	if iab != iba || (ab && !iab) {
		return "ignoretags", fmt.Errorf("IdenticalIgnoreTags(a,b)=%v (b,a)=%v Identical=%v; a=%s b=%s", iab, iba, ab, a.r, b.r)
	}
	if ab {
		return "identical", nil
	}
	return "different", nil
}

// ---------------------------------------------------------------- replay

func replay(content []byte) error {
	var c caseFile
	if err := json.Unmarshal(content, &c); err != nil {
		return nil
	}
	switch c.Kind {
	case "terms":
		_, err := checkTerms(c.Terms, c.Dup)
		return err
	case "map":
		_, err := runMapHistory(c.Terms, c.Ops)
		return err
	}
	return nil
}

func TestReplays(t *testing.T) {
	rec.RunReplays(t, replay)
}

// ---------------------------------------------------------------- bounded-exhaustive universe

func (u *universe) addTwice(r *R) {
	if u.add(r) != nil {
		u.add(r)
	}
}

func TestExhaustive(t *testing.T) {
	if rec.ReplayOnly() {
		return
	}
	u := newUniverse()
	recipes := enumerate(rec.Thorough())
	for _, r := range recipes {
		u.addTwice(r)
	}
	n := len(u.terms)
	rec.LabelN("universe-terms(objects)", n)
	for _, tm := range u.terms {
		h, p := hashOf(u.hasher, tm.t)
		if p != nil {
			rec.Violation("exhaustive:panic", termsCase("Hash panics", tm.r), "json", "Hash panics: %v on %s", p, tm.r)
			t.Fatalf("Hash panics: %v on %s", p, tm.r)
		}
		tm.hash = h
	}
	// rows of the pair matrix are split between the shards
	fails := map[string]int{}
	for i, a := range u.terms {
		if !rec.Mine(i) {
			continue
		}
		rec.Label("row:" + a.r.K)
		for j := i; j < n; j++ {
			b := u.terms[j]
			rec.Eval(1)
			class, err := u.checkPair(a, b)
			if err != nil {
				fails[class]++
				if fails[class] == 1 { // one (the first, small terms come first) per class
					if _, rerr := checkTerms([]*R{a.r, b.r}, true); rerr == nil {
						t.Fatalf("harness: the failing pair does not fail when rebuilt alone: %v", err)
					}
					rec.Violation("exhaustive:"+class, termsCase(class, a.r, b.r), "json", "%v", err)
					t.Errorf("%v", err)
				}
				continue
			}
			if i != j {
				u.account(a, b, class == "identical")
			}
		}
	}
	for c, k := range fails {
		rec.LabelN("failing-pairs:"+c, k)
	}
	// transitivity: identical terms have equal hashes (checked above on every pair), so
	// every identity class lies inside one hash bucket; all triples inside a bucket
	buckets := map[uint32][]*term{}
	for _, tm := range u.terms {
		buckets[tm.hash] = append(buckets[tm.hash], tm)
	}
	var hashes []uint32
	for h := range buckets {
		hashes = append(hashes, h)
	}
	sort.Slice(hashes, func(i, j int) bool { return hashes[i] < hashes[j] })
	maxBucket := 0
	for bi, h := range hashes {
		b := buckets[h]
		if len(b) > maxBucket {
			maxBucket = len(b)
		}
		if !rec.Mine(bi) || len(b) < 3 {
			continue
		}
		m := len(b)
		id := make([]bool, m*m)
		for i := range b {
			for j := range b {
				id[i*m+j], _ = ident(b[i].t, b[j].t)
			}
		}
		for i := 0; i < m; i++ {
			for j := 0; j < m; j++ {
				if !id[i*m+j] {
					continue
				}
				for k := 0; k < m; k++ {
					rec.Eval(1)
					if id[j*m+k] && !id[i*m+k] {
						rec.Violation("exhaustive:transitive", termsCase("transitive", b[i].r, b[j].r, b[k].r), "json",
							"not transitive: a~b, b~c, not a~c: a=%s b=%s c=%s", b[i].r, b[j].r, b[k].r)
						t.Fatalf("not transitive: a=%s b=%s c=%s", b[i].r, b[j].r, b[k].r)
					}
				}
			}
		}
		rec.Label("bucket-triples-checked")
	}
	rec.Extra("largest_hash_bucket", maxBucket)
	rec.Exhaustive(len(fails) == 0)
}

// account counts a checked, law-abiding pair in the evidence.
func (u *universe) account(a, b *term, ab bool) {
	switch {
	case ab && a.fine == b.fine:
		rec.Label("pair:identical,same-recipe")
		rec.NT(a.r.String() + "~" + b.r.String())
	case ab:
		rec.Label("pair:identical,other-recipe:" + a.r.K)
		rec.NT(a.r.String() + "~" + b.r.String())
	case a.hash == b.hash:
		rec.Label("pair:different,equal-hash:" + a.r.K)
		rec.NT(a.r.String() + "#" + b.r.String())
	case a.r.K == b.r.K && nearMiss(a, b):
		rec.Label("pair:different,one-feature:" + a.r.K)
		rec.NT(a.r.String() + "#" + b.r.String())
	default:
		rec.Label("pair:different")
	}
}

// nearMiss: same constructor and the recipes differ in one top-level feature only.
func nearMiss(a, b *term) bool {
	d := 0
	for i := range a.feat {
		if a.feat[i] != b.feat[i] {
			d++
		}
	}
	return d == 1
}

func features(r *R) [10]string {
	js := func(v interface{}) string { s, _ := json.Marshal(v); return string(s) }
	return [10]string{r.N, fmt.Sprint(r.L), fmt.Sprint(r.V), js(r.E), js(r.P), js(r.Q), js(r.Rc), js(r.F), js(r.M), js(r.Em)}
}

// ---------------------------------------------------------------- rapid: deeper terms and their mutants

func TestRandomTerms(t *testing.T) {
	rec.Check(t, rec.Scale(12000, 30000), func(t *rapid.T) {
		depth := rapid.IntRange(1, rec.Scale(3, 4)).Draw(t, "depth")
		a := genR(t, depth, "a")
		rs := []*R{a}
		nm := rapid.IntRange(1, 3).Draw(t, "mutants")
		cur := a
		for i := 0; i < nm; i++ {
			cur = mutate(t, cur, fmt.Sprintf("mut%d", i))
			rs = append(rs, cur)
		}
		if rapid.Bool().Draw(t, "independent") {
			rs = append(rs, genR(t, depth, "b"))
		}
		w := newWorld()
		for _, r := range rs {
			if _, err := w.build(r); err != nil {
				rec.Label("random:skipped-not-a-type")
				return
			}
		}
		rec.Label("random:root:" + a.K)
		for _, r := range rs[1:] {
			if r.String() != a.String() {
				rec.NT(a.String() + "|" + r.String())
			}
		}
		rec.Sample(rs)
		if class, err := checkTerms(rs, true); err != nil {
			rec.Failf(t, "random:"+class, termsCase(class, rs...), "json", "%v", err)
		}
	})
}
