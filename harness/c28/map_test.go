package c28

import (
	"encoding/json"
	"fmt"
	"sort"
	"testing"

	"github.com/cosmos72/gomacro/go/types"
	"github.com/cosmos72/gomacro/go/typeutil"
	"pgregory.net/rapid"

	"verif/harness/vlib"
)

// mapOp is one step of a Map history. Key is an index into the history's key pool.
type mapOp struct {
	Op  string `json:"op"` // set at delete len iterate keys
	Key int    `json:"key,omitempty"`
	Val int    `json:"val,omitempty"`
}

type assoc struct {
	key int // pool index of the key stored first
	val int
}

// runMapHistory builds the key pool (fresh objects, one per pool entry), then drives a
// typeutil.Map and an association list keyed by typeutil.Identical side by side.
func runMapHistory(pool []*R, ops []mapOp) (class string, err error) {
	w := newWorld()
	keys := make([]types.Type, len(pool))
	for i, r := range pool {
		t, berr := w.build(r)
		if berr != nil {
			return "", nil // not a type: no case
		}
		keys[i] = t
	}
	// identity on the pool must be an equivalence for the model to mean anything; the
	// laws are the business of checkTerms, here a broken pool is reported the same way
	n := len(keys)
	same := make([][]bool, n)
	for i := range keys {
		same[i] = make([]bool, n)
		for j := range keys {
			r, p := ident(keys[i], keys[j])
			if p != nil {
				return "panic", fmt.Errorf("Identical panics on pool keys %d,%d: %v; a=%s b=%s", i, j, p, pool[i], pool[j])
			}
			same[i][j] = r
		}
	}
	for i := 0; i < n; i++ {
		for j := 0; j < n; j++ {
			if same[i][j] != same[j][i] {
				return "symmetric", fmt.Errorf("Identical not symmetric on pool keys a=%s b=%s", pool[i], pool[j])
			}
			for k := 0; k < n; k++ {
				if same[i][j] && same[j][k] && !same[i][k] {
					return "transitive", fmt.Errorf("Identical not transitive on pool keys a=%s b=%s c=%s", pool[i], pool[j], pool[k])
				}
			}
		}
	}
	var m *typeutil.Map // nil map first: "a nil *Map is a valid, read-only empty map"
	var model []assoc
	find := func(k int) int {
		for i, e := range model {
			if same[e.key][k] {
				return i
			}
		}
		return -1
	}
	indexOf := func(t types.Type) int {
		for i, k := range keys {
			if k == t {
				return i
			}
		}
		return -1
	}
	for step, op := range ops {
		if op.Key < 0 || op.Key >= n {
			return "", nil
		}
		where := fmt.Sprintf("step %d %+v (key %s)", step, op, pool[op.Key])
		var perr error
		p := vlib.Try(func() {
			switch op.Op {
			case "set":
				if m == nil {
					m = &typeutil.Map{}
				}
				prev := m.Set(keys[op.Key], op.Val)
				i := find(op.Key)
				if i < 0 {
					if prev != nil {
						perr = fmt.Errorf("%s: Set returned previous value %v for a new key", where, prev)
					}
					// basic and named types are the same object in several pool entries: store the first such index
					model = append(model, assoc{indexOf(keys[op.Key]), op.Val})
				} else {
					if prev != model[i].val {
						perr = fmt.Errorf("%s: Set returned previous value %v, want %v", where, prev, model[i].val)
					}
					model[i].val = op.Val
				}
			case "at":
				got := m.At(keys[op.Key])
				if i := find(op.Key); i < 0 {
					if got != nil {
						perr = fmt.Errorf("%s: At returned %v for an absent key", where, got)
					}
				} else if got != model[i].val {
					perr = fmt.Errorf("%s: At returned %v, want %v", where, got, model[i].val)
				}
			case "delete":
				got := m.Delete(keys[op.Key])
				i := find(op.Key)
				if got != (i >= 0) {
					perr = fmt.Errorf("%s: Delete returned %v, want %v", where, got, i >= 0)
				}
				if i >= 0 {
					model = append(model[:i:i], model[i+1:]...)
				}
			case "len":
				if got := m.Len(); got != len(model) {
					perr = fmt.Errorf("%s: Len returned %d, want %d", where, got, len(model))
				}
			case "iterate", "keys":
				var got []string
				if op.Op == "iterate" {
					m.Iterate(func(k types.Type, v interface{}) { got = append(got, fmt.Sprintf("%d=%v", indexOf(k), v)) })
				} else {
					for _, k := range m.Keys() {
						i := indexOf(k)
						got = append(got, fmt.Sprintf("%d=%v", i, m.At(k)))
					}
				}
				var want []string
				for _, e := range model {
					want = append(want, fmt.Sprintf("%d=%v", e.key, e.val))
				}
				sort.Strings(got)
				sort.Strings(want)
				if fmt.Sprint(got) != fmt.Sprint(want) {
					perr = fmt.Errorf("%s: entries (pool index of stored key = value) %v, want %v", where, got, want)
				}
			}
		})
		if p != nil {
			return "panic", fmt.Errorf("%s: panic: %v", where, p)
		}
		if perr != nil {
			return "map", perr
		}
		// after every step the length and every pool key agree with the model
		var aerr error
		if p := vlib.Try(func() {
			if m.Len() != len(model) {
				aerr = fmt.Errorf("after %s: Len %d, want %d", where, m.Len(), len(model))
				return
			}
			for k := range keys {
				got := m.At(keys[k])
				i := find(k)
				if (i < 0 && got != nil) || (i >= 0 && got != model[i].val) {
					aerr = fmt.Errorf("after %s: At(pool key %d %s) = %v, model has %v", where, k, pool[k], got, model)
					return
				}
			}
		}); p != nil {
			return "panic", fmt.Errorf("after %s: panic: %v", where, p)
		}
		if aerr != nil {
			return "map", aerr
		}
	}
	return "", nil
}

// curated keys: several recipes each, identical ones, and different ones that share a hash
func curatedPool() []*R {
	sig0 := rfunc(nil, nil, nil, false)
	im := func(recv string, em ...string) *R {
		return &R{K: "iface", M: []M{{Name: "m", Pkg: "p", Sig: sig0, Recv: recv}}, Em: em}
	}
	sf := func(pkg, tag string) *R { return &R{K: "struct", F: []F{{Name: "a", Pkg: pkg, Tag: tag, T: tInt}}} }
	return []*R{
		rb("byte"), rb("uint8"), rb("rune"), rb("int32"), tInt,
		rn("N1"), rn("N3"), r1("ptr", rn("N1")), r1("ptr", rn("N3")),
		im("self"), im("self"), im("named:NI"), im("named:E1"), im("shared"), im("self", "E0"), im("self", "E0", "E2"),
		{K: "iface", Em: []string{"E1"}}, {K: "iface", Em: []string{"E0", "E1"}}, {K: "iface"}, rn("E0"), rn("E1"),
		sf("p", ""), sf("q", ""), sf("p", "x"), sf("p", ""),
		rfunc(nil, []*R{tInt}, nil, false), rfunc(rn("N1"), []*R{tInt}, nil, false), rfunc(rn("N3"), []*R{tInt}, nil, false), rfunc(nil, []*R{tSliceI}, nil, true), rfunc(nil, []*R{tSliceI}, nil, false),
		{K: "msig", E: []*R{im("self")}}, {K: "msig", E: []*R{im("named:NI")}},
		rchan("send", tInt), rchan("recv", tInt), rarr(2, tInt), rarr(3, tInt), rmap(tInt, im("self")), rmap(tInt, im("named:NI")),
	}
}

func TestMapStateMachine(t *testing.T) {
	cur := curatedPool()
	rec.Check(t, rec.Scale(8000, 20000), func(t *rapid.T) {
		// the pool: curated recipes, random ones and their mutants; a recipe may appear twice (two distinct objects)
		var pool []*R
		np := rapid.IntRange(2, 8).Draw(t, "npool")
		for i := 0; i < np; i++ {
			l := fmt.Sprintf("k%d", i)
			switch k := rapid.IntRange(0, 9).Draw(t, l+"-src"); {
			case k <= 4 || len(pool) == 0 && k >= 8:
				pool = append(pool, rapid.SampledFrom(cur).Draw(t, l))
			case k <= 6:
				pool = append(pool, genR(t, rapid.IntRange(0, 3).Draw(t, l+"-depth"), l))
			case k == 7 && len(pool) > 0:
				pool = append(pool, mutate(t, rapid.SampledFrom(pool).Draw(t, l+"-of"), l))
			default:
				if len(pool) == 0 {
					pool = append(pool, rapid.SampledFrom(cur).Draw(t, l))
				} else {
					pool = append(pool, rapid.SampledFrom(pool).Draw(t, l+"-again"))
				}
			}
		}
		w := newWorld()
		for _, r := range pool {
			if _, err := w.build(r); err != nil {
				rec.Label("map:skipped-not-a-type")
				return
			}
		}
		var ops []mapOp
		nops := rapid.IntRange(1, 40).Draw(t, "nops")
		for i := 0; i < nops; i++ {
			k := rapid.IntRange(0, len(pool)-1).Draw(t, "key")
			switch o := rapid.IntRange(0, 11).Draw(t, "op"); {
			case o <= 3:
				ops = append(ops, mapOp{Op: "set", Key: k, Val: 1 + rapid.IntRange(0, 99).Draw(t, "val")})
			case o <= 5:
				ops = append(ops, mapOp{Op: "delete", Key: k})
			case o <= 8:
				ops = append(ops, mapOp{Op: "at", Key: k})
			case o == 9:
				ops = append(ops, mapOp{Op: "len"})
			case o == 10:
				ops = append(ops, mapOp{Op: "iterate"})
			default:
				ops = append(ops, mapOp{Op: "keys"})
			}
		}
		c := caseFile{Kind: "map", Terms: pool, Ops: ops}
		data, _ := json.MarshalIndent(c, "", " ")
		mapAccount(pool, ops, data)
		if class, err := runMapHistory(pool, ops); err != nil {
			rec.Failf(t, "map:"+class, data, "json", "%v", err)
		}
	})
}

// mapAccount: labels and the non-trivial count of a history (computed on its own build of the pool).
func mapAccount(pool []*R, ops []mapOp, data []byte) {
	w := newWorld()
	h := typeutil.MakeHasher()
	keys := make([]types.Type, len(pool))
	hashes := make([]uint32, len(pool))
	for i, r := range pool {
		keys[i], _ = w.build(r)
		hashes[i], _ = hashOf(h, keys[i])
	}
	used := map[int]bool{}
	for _, op := range ops {
		rec.Label("map-op:" + op.Op)
		if op.Op == "set" || op.Op == "at" || op.Op == "delete" {
			used[op.Key] = true
		}
	}
	twin, collide := false, false
	for i := range keys {
		for j := range keys {
			if i >= j || !used[i] || !used[j] {
				continue
			}
			same, _ := ident(keys[i], keys[j])
			if same {
				twin = true
			} else if hashes[i] == hashes[j] {
				collide = true
			}
		}
	}
	if twin {
		rec.Label("map-history:touches-identical-distinct-keys")
	}
	if collide {
		rec.Label("map-history:touches-different-keys-with-equal-hash")
	}
	if twin || collide {
		rec.NT(string(data))
		rec.Sample(json.RawMessage(data))
	}
}
