// C12: a panic escaping an evaluation at any point leaves later evaluations unaffected.
// Fault enumeration: a compiled hook called by probe programs at every basic block
// panics on its k-th call, for every k. Oracle (O6): the same later evaluations in a
// fresh interpreter that received the same definitions and the side effects performed.
package c12

import (
	"encoding/json"
	"fmt"
	"os"
	"testing"

	"pgregory.net/rapid"

	"verif/harness/c12/inj"
	"verif/harness/vlib"
)

var rec *vlib.Rec

func TestMain(m *testing.M) {
	rec = vlib.Open("C12")
	rec.Rule("cases = (probe program, OptDebugger on/off, entry point Eval / single-step Debug / REPL ParseEvalPrint, fault kind, fault point k): " +
		"a compiled hook H called at every basic block of 16 hand-written probe programs (closure-free func()/func(int)/... frames with plain defers, nested calls, defers incl. directly deferred compiled functions, recover, selective re-panic, closures, loops and blocks, " +
		"callbacks from sort.Slice / strings.Map / sort.Search, goroutines, methods, deep recursion with defers, panic inside a defer, run-time panics, top-level statements) and of rapid-generated call trees panics on its k-th call, every k enumerated; " +
		"in single-step mode additionally the debugger aborts at its k-th stop; rapid draws sequences of 2-4 fault points applied to one interpreter. " +
		"non-trivial = fault point at which a deferred function was pending (hook calls continue after the fault while unwinding) or a panic of the program itself was already in flight (hook id 400-499); distinct = distinct (probe, options, entry, kind, k)")
	rec.Assume("oracle O6: battery of 48 later evaluations (first of all recover() without a panic in flight swept over all pooled frames and call depths 1..4; defer order, recover in and outside defers, named results, closures, recursion, call depth seen by compiled code, run-time panics, callbacks, goroutines, single-step evaluations with a recording debugger, REPL entry with panic trap, declarations made after the abort) and a complete re-run of the probe give the same text in the interpreter that had the aborted evaluation and in a fresh interpreter that received the same definitions and the values of the probe's variables read after the abort")
	rec.Assume("execution state asserted directly (exported fields of fast.Run, no hook needed): Run.CurrEnv == nil, EFDefer/EFStartDefer clear, DeferOfFun == nil, no debugger mode unless the evaluation was started in single-step mode; other fields (PanicFun, Signals, Interrupt) are only recorded as labels")
	rec.Assume("compiled library functions are registered with Interp.DeclFunc instead of import (import runs `go list -export`, ~0.5 s per interpreter)")
	rec.Assume("single-step evaluation is only used with probes and battery functions that contain no defer statement: single-stepping over a defer statement never terminates on the unchanged tree (defect outside C12, see NOTES.md)")
	os.Exit(vlib.Main(m, rec))
}

// ---------------------------------------------------------------- replay

func replay(content []byte) error {
	var c inj.Case
	if err := json.Unmarshal(content, &c); err != nil || c.Probe.Main == "" {
		return nil // not a C12 case
	}
	res := inj.RunCase(c)
	if res.Harness != nil {
		panic(res.Harness)
	}
	if res.Violation != "" {
		return fmt.Errorf("%s", res.Violation)
	}
	return nil
}

func TestReplays(t *testing.T) { rec.RunReplays(t, replay) }

// ---------------------------------------------------------------- bookkeeping shared by the tests

func siteClass(id int) string {
	switch {
	case id >= 400:
		return "defer-while-program-panic-in-flight"
	case id >= 300:
		return "other-goroutine"
	case id >= 200:
		return "callback-from-compiled"
	case id >= 100:
		return "deferred-function"
	case id > 0:
		return "plain"
	}
	return "none"
}

func account(c inj.Case, res inj.CaseResult) {
	for _, st := range res.Steps {
		rec.Label("outcome:" + st.Class)
		rec.Label("entry:" + c.Entry + "/optdbg=" + fmt.Sprint(c.OptDebugger) + "/" + c.Fault)
		if c.Fault == "hook" {
			rec.Label("site:" + siteClass(st.FireID))
		}
		if st.Fired {
			rec.Label(fmt.Sprintf("depth-at-fault:%d", min(st.FireDepth, 8)))
		}
		if st.PostTrace > 0 {
			rec.Label("defer-pending-at-fault")
		}
		if st.State.PanicFun {
			rec.Label("state:stale-PanicFun")
		}
		if st.State.Interrupt {
			rec.Label("state:stale-Interrupt")
		}
		if st.State.InstallDefer {
			rec.Label("state:stale-InstallDefer")
		}
		if st.State.Signals.Sync != 0 || st.State.Signals.Async != 0 {
			rec.Label(fmt.Sprintf("state:signals-sync=%d-async=%d", st.State.Signals.Sync, st.State.Signals.Async))
		}
		if st.Fired && (st.PostTrace > 0 || st.FireID >= 400) {
			rec.NT(c.Key(st.K))
		}
	}
}

func caseJSON(c inj.Case) []byte {
	data, _ := json.MarshalIndent(c, "", " ")
	return data
}

// ---------------------------------------------------------------- enumeration of every fault point of the hand-written probes

type config struct {
	optDbg bool
	entry  string
	fault  string
	stride int // quick tier: every stride-th k (offset rotates with the seed); thorough: 1
	stepOK bool
}

func TestEnumerateFaultPoints(t *testing.T) {
	if rec.ReplayOnly() {
		return
	}
	// quick: every k for the four probes with pending defers / panics in flight in the
	// plain configuration, every stride-th k elsewhere (the offset rotates with the seed,
	// the probe and the configuration); thorough: every k everywhere.
	configs := []config{
		{false, "eval", "hook", rec.Scale(3, 1), false},
		{true, "eval", "hook", rec.Scale(5, 1), false},
		{false, "repl", "hook", rec.Scale(5, 1), false},
		{true, "debug", "hook", rec.Scale(4, 1), true},
		{true, "debug", "debugger", rec.Scale(10, 1), true},
		{false, "debug", "hook", rec.Scale(8, 1), true},
	}
	full := map[string]bool{"plain-defer-specialisations": true, "plain-defer-toplevel-call": true, "defers": true, "recover": true, "selective-recover": true, "panic-in-defer": true}
	idx, mine := 0, 0
	complete := true
	for ci, cf := range configs {
		for pi, p := range inj.C12Probes {
			if cf.stepOK && !p.StepOK {
				continue
			}
			base := inj.Case{Probe: p, OptDebugger: cf.optDbg, Entry: cf.entry, Fault: cf.fault}
			ref := &inj.Ref{}
			hooks, stops, o, err := inj.Count(base)
			if err != nil {
				t.Fatalf("%s: %v", p.Name, err)
			}
			n := hooks
			if cf.fault == "debugger" {
				n = stops
			}
			if n == 0 && cf.fault == "hook" {
				t.Fatalf("probe %s makes no hook call (%s)", p.Name, o)
			}
			stride := cf.stride
			if ci == 0 && full[p.Name] {
				stride = 1
			}
			if stride > 1 {
				complete = false
			}
			off := int(rec.Seed()+int64(pi)+int64(ci)) % stride
			// k = n+1 is the control: no fault fires, the evaluation completes
			for k := 1; k <= n+1; k++ {
				if k%stride != off && k != n+1 {
					continue
				}
				idx++
				if !rec.Mine(idx) {
					continue
				}
				c := base
				c.Ks = []int{k}
				rec.Eval(1)
				mine++
				res := inj.RunCaseRef(c, ref)
				account(c, res)
				if res.Harness != nil {
					t.Fatalf("harness: %v", res.Harness)
				}
				if k == n+1 && len(res.Steps) == 1 && res.Steps[0].Fired {
					t.Fatalf("%s: hook count not deterministic (fault fired at control point %d)", c.Key(k), k)
				}
				if idx%37 == 0 && len(res.Steps) == 1 {
					rec.Sample(map[string]interface{}{"case": c.Key(k), "outcome": res.Steps[0].Outcome.String(), "class": res.Steps[0].Class,
						"hook_id_at_fault": res.Steps[0].FireID, "hook_calls_after_fault": res.Steps[0].PostTrace, "vars_after_abort": inj.SnapString(res.Steps[0].Snap)})
				}
				if res.Violation != "" {
					rec.Violation("enumerate:"+c.Key(k), caseJSON(c), "json", "%s", res.Violation)
					t.Errorf("%s", res.Violation)
					return
				}
			}
		}
	}
	rec.LabelN("fault-points-enumerated", mine)
	rec.Exhaustive(complete)
}

// ---------------------------------------------------------------- sequences of faults in one interpreter

func TestFaultSequences(t *testing.T) {
	counts := map[string][2]int{}
	refs := map[string]*inj.Ref{}
	rec.Check(t, rec.Scale(6, 30), func(t *rapid.T) { // counts are per shard
		p := rapid.SampledFrom(inj.C12Probes).Draw(t, "probe")
		c := inj.Case{Probe: p, Fault: "hook"}
		c.OptDebugger = rapid.Bool().Draw(t, "optdbg")
		entries := []string{"eval", "eval", "repl"}
		if p.StepOK {
			entries = append(entries, "debug")
		}
		c.Entry = rapid.SampledFrom(entries).Draw(t, "entry")
		if c.Entry == "debug" && c.OptDebugger && rapid.Bool().Draw(t, "debugger-fault") {
			c.Fault = "debugger"
		}
		key := fmt.Sprint(p.Name, c.OptDebugger, c.Entry)
		n, ok := counts[key]
		if !ok {
			h, s, _, err := inj.Count(c)
			if err != nil {
				t.Fatalf("harness: %v", err)
			}
			n = [2]int{h, s}
			counts[key] = n
		}
		max := n[0]
		if c.Fault == "debugger" {
			max = n[1]
		}
		c.Ks = rapid.SliceOfN(rapid.IntRange(1, max+1), 2, 4).Draw(t, "ks")
		if refs[key] == nil {
			refs[key] = &inj.Ref{}
		}
		res := inj.RunCaseRef(c, refs[key])
		account(c, res)
		if res.Harness != nil {
			t.Fatalf("harness: %v", res.Harness)
		}
		rec.Label(fmt.Sprintf("sequence-length:%d", len(c.Ks)))
		if res.Violation != "" {
			rec.Failf(t, "sequence", caseJSON(c), "json", "%s", res.Violation)
		}
	})
}
