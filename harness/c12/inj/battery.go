package inj

import (
	"fmt"
	"strings"
)

// BatteryDefs is evaluated in every session BEFORE the evaluation that gets aborted
// ("the same definitions"). Plain Go; every function returns text built in-program.
const BatteryDefs = `
type bT struct { A int; B string }
func (t bT) String() string { return fmtSprint("bT<", t.A, ",", t.B, ">") }
func (t *bT) Inc() { t.A++ }
type bShape interface { Area() int }
type bSq struct { S int }
func (q bSq) Area() int { return q.S * q.S }
type bRect struct { W, H int }
func (q bRect) Area() int { return q.W * q.H }

var bCount int
var bLog []string

func bDeferOrder() string {
	var l []int
	func() {
		defer func() { l = append(l, 1) }()
		defer func() { l = append(l, 2) }()
		defer func() { l = append(l, 3) }()
		l = append(l, 0)
	}()
	return fmtSprint(l)
}
func bRecover() (r string) {
	defer func() {
		if e := recover(); e != nil {
			r = fmtSprint("recovered:", e)
		}
	}()
	panic("boom")
}
// recover() in a deferred closure of a function that returns normally, no panic in flight:
// must be nil whatever frame the interpreter hands out. The closure pins the frame, so
// every call takes the next pooled frame for good: n calls walk through the frame pool.
func bSafe() (r interface{}) {
	defer func() { r = recover() }()
	return nil
}
func bSafeAt(depth int) interface{} {
	if depth <= 1 {
		return bSafe()
	}
	return bSafeAt(depth - 1)
}
func bSafeVoid() {
	defer func() {
		if r := recover(); r != nil {
			bLog = append(bLog, fmtSprint("bSafeVoid recovered ", r))
		}
	}()
}
func bRecoverSweep(n int) string {
	var bad []string
	for d := 4; d >= 1; d-- {
		for i := 0; i < 2; i++ {
			if r := bSafeAt(d); r != nil {
				bad = append(bad, fmtSprint("depth", d, ":", r))
			}
		}
	}
	for i := 0; i < n; i++ {
		bSafeVoid()
		if r := bSafe(); r != nil {
			bad = append(bad, fmtSprint("call", i, ":", r))
		}
		bFib(3) // intervening calls that take and return pooled frames
	}
	return fmtSprint("sweep", n, bad, len(bLog))
}
func bRecoverOutsideDefer() string {
	e := recover()
	return fmtSprint("plain:", e)
}
func bRecoverNoPanic() (r string) {
	defer func() {
		e := recover()
		r = fmtSprint("nopanic:", e)
	}()
	return "unset"
}
func bHelperRecover() interface{} { return recover() }
func bRecoverNested() (r string) {
	defer func() {
		a := bHelperRecover()
		b := recover()
		r = fmtSprint("nested:", a, "/", b)
	}()
	panic("deep")
}
func bRecoverAfterCall() (r string) {
	defer func() {
		x := bFib(5)
		e := recover()
		r = fmtSprint("aftercall:", x, ":", e)
	}()
	panic("late")
}
func bPanicInDefer() (r string) {
	defer func() {
		r = fmtSprint("second:", recover())
	}()
	defer func() {
		panic("two")
	}()
	panic("one")
}
func bRepanicInner() {
	defer func() {
		e := recover()
		panic(fmtSprint("re-", e))
	}()
	panic("orig")
}
func bRepanic() (r string) {
	defer func() { r = fmtSprint("outer:", recover()) }()
	bRepanicInner()
	return "unreachable"
}
func bNamedResult() (x int, s string) {
	defer func() {
		recover()
		x *= 2
		s += "!"
	}()
	x, s = 21, "named"
	var m map[string]int
	m["a"] = 1
	return 0, "unreachable"
}
func bCounter() func() int {
	c := 0
	return func() int { c++; return c }
}
func bClosures() string {
	a, b := bCounter(), bCounter()
	a(); a(); b()
	var fs []func() int
	for i := 0; i < 3; i++ {
		j := i
		fs = append(fs, func() int { return j * 10 })
	}
	return fmtSprint(a(), b(), fs[0](), fs[1](), fs[2]())
}
func bFib(n int) int {
	if n < 2 {
		return n
	}
	return bFib(n-1) + bFib(n-2)
}
func bDepth3() int { return Depth() }
func bDepth2() int { return bDepth3() }
func bDepth1() int { return bDepth2() }
func bDepthInDefer() (d int) {
	defer func() { d = Depth()*100 + bDepth2() }()
	return 0
}
func bRuntimePanic() (r string) {
	defer func() { r = fmtSprint("rt:", recover()) }()
	a := []int{1, 2, 3}
	i := 5
	return fmtSprint(a[i])
}
func bDivZero() (r string) {
	defer func() { r = fmtSprint("div:", recover()) }()
	a, b := 1, 0
	return fmtSprint(a / b)
}
func bSort() string {
	v := []int{5, 2, 8, 1, 9, 3, 7}
	n := 0
	sortSlice(v, func(i, j int) bool { n++; return v[i] < v[j] })
	return fmtSprint(v, n > 0)
}
func bSortPanic() (r string) {
	defer func() { r = fmtSprint("sortpanic:", recover()) }()
	v := []int{5, 2, 8, 1}
	sortSlice(v, func(i, j int) bool {
		if v[i] == 8 || v[j] == 8 {
			panic("eight")
		}
		return v[i] < v[j]
	})
	return "sorted"
}
func bDeferLoop() string {
	var l []int
	func() {
		for i := 0; i < 5; i++ {
			defer func(k int) { l = append(l, k) }(i)
		}
	}()
	return fmtSprint(l)
}
func bDeferArgs() string {
	x := 1
	var got []int
	func() {
		defer func(v int) { got = append(got, v, x) }(x)
		x = 2
	}()
	return fmtSprint(got)
}
func bMaps() string {
	m := map[string]int{}
	for i, w := range stringsFields("a b c a b a") {
		m[w] += i
	}
	keys := make([]string, 0, len(m))
	for k := range m {
		keys = append(keys, k)
	}
	sortStrings(keys)
	s := ""
	for _, k := range keys {
		s += fmtSprint(k, m[k], ",")
	}
	return s
}
func bGoroutine() string {
	ch := make(chan int)
	done := make(chan string)
	go func() {
		s := 0
		for v := range ch {
			s += v
		}
		done <- fmtSprint("sum", s)
	}()
	for i := 1; i <= 4; i++ {
		ch <- bFib(i + 3)
	}
	close(ch)
	return <-done
}
func bGoRecover() string {
	done := make(chan string)
	go func() {
		defer func() { done <- fmtSprint("gorec:", recover()) }()
		panic("in goroutine")
	}()
	return <-done
}
func bInnerDefer() (r string) {
	defer func() { r += "|outer:" + fmtSprint(recover()) }()
	r = bRecover()
	r += "|" + bRecoverNoPanic()
	panic("after")
}
func bMethods() string {
	t := bT{1, "x"}
	t.Inc()
	p := &t
	p.Inc()
	f := t.Inc
	f()
	shapes := []bShape{bSq{3}, bRect{2, 5}}
	a := 0
	for _, s := range shapes {
		a += s.Area()
	}
	return fmtSprint(t, a, fmtSprintf("%v", t))
}
func bControl() string {
	s := ""
outer:
	for i := 0; i < 4; i++ {
		for j := 0; j < 4; j++ {
			switch {
			case j == 2:
				continue outer
			case i == 3:
				break outer
			}
			s += fmtSprint(i, j, " ")
		}
	}
	return s
}
func bGlobals() string {
	bCount++
	bLog = append(bLog, fmtSprint("n", bCount))
	return fmtSprint(bCount, bLog)
}
func bUncaught() int {
	defer func() { bLog = append(bLog, "unc-defer") }()
	var p *bT
	return p.A
}
func bOnce() string {
	n := 0
	callN(3, func(i int) { n += i + 1 })
	return fmtSprint("once", n)
}
func bErr() (r string) {
	defer func() {
		if e, ok := recover().(error); ok {
			r = "err:" + e.Error()
		}
	}()
	panic(errorsNew("custom"))
}
`

// BatteryGlobals are the variables the battery itself modifies; they are transferred
// together with the probe's variables when one interpreter gets several faults.
var BatteryGlobals = []string{"bCount", "bLog"}

// Item is one later evaluation. Kind: "eval" (Interp.Eval), "debug" (Interp.Debug,
// single-step with the recording debugger), "repl" (ParseEvalPrint with panic trap).
type Item struct {
	Kind string
	Src  string
}

// Battery is the fixed list of later evaluations. Items that declare new things come
// last so that the definitions made *after* the abort are exercised too.
var Battery = []Item{
	// first, before anything else takes frames out of the pool left by the aborted evaluation
	{"eval", "bSafe()"},
	{"eval", "bRecoverSweep(40)"},
	{"eval", "Depth()"},
	{"eval", "bDeferOrder()"},
	{"eval", "bRecover()"},
	{"eval", "bRecoverOutsideDefer()"},
	{"eval", "bRecoverNoPanic()"},
	{"eval", "bRecoverNested()"},
	{"eval", "bRecoverAfterCall()"},
	{"eval", "bPanicInDefer()"},
	{"eval", "bRepanic()"},
	{"eval", "bNamedResult()"},
	{"eval", "bClosures()"},
	{"eval", "bFib(12)"},
	{"eval", "bDepth1()"},
	{"eval", "bDepthInDefer()"},
	{"eval", "bRuntimePanic()"},
	{"eval", "bDivZero()"},
	{"eval", "bSort()"},
	{"eval", "bSortPanic()"},
	{"eval", "bDeferLoop()"},
	{"eval", "bDeferArgs()"},
	{"eval", "bMaps()"},
	{"eval", "bGoroutine()"},
	{"eval", "bGoRecover()"},
	{"eval", "bInnerDefer()"},
	{"eval", "bMethods()"},
	{"eval", "bControl()"},
	{"eval", "bGlobals()"},
	{"eval", "bOnce()"},
	{"eval", "bErr()"},
	{"eval", "recover()"},
	{"eval", "bUncaught()"}, // a second, different abort (nil dereference escaping the evaluation)
	{"eval", "bRecoverOutsideDefer()"},
	{"eval", "bDepth1()"},
	{"eval", "bGlobals()"},
	{"debug", "bDepth1()"},
	{"debug", "bFib(4)"},
	{"debug", "bControl()"},
	{"eval", "bRecoverNoPanic()"},
	{"repl", "bInnerDefer()"},
	{"repl", "bUncaught()"},
	{"eval", "bDepthInDefer()"},
	{"eval", "bRecoverSweep(8)"},
	// declarations made after the abort
	{"eval", "func bNew(x int) (r int) { defer func() { if recover() != nil { r = -x } }(); if x > 2 { panic(x) }; return x + Depth() }"},
	{"eval", "bNew(1)*1000 + bNew(5)"},
	{"eval", "var bLate = []int{bFib(6), bDepth1()}"},
	{"eval", "(func() string { bLate = append(bLate, len(bLate)); return fmtSprint(bLate) })()"},
	{"eval", "bRecoverOutsideDefer()"},
}

// Result of one battery item.
type Result struct {
	Item    Item
	Outcome Outcome
	Steps   string // debugger stops (call depths) of a "debug" item
}

func (r Result) String() string {
	s := r.Outcome.String()
	if r.Item.Kind == "debug" {
		s += " steps=" + r.Steps
	}
	return s
}

// RunBattery evaluates the battery with the hook disarmed.
func (s *Session) RunBattery(items []Item) []Result {
	out := make([]Result, 0, len(items))
	for _, it := range items {
		s.Arm(Off, 0)
		s.Dbg.AbortAt = 0
		s.Dbg.Steps = nil
		s.Dbg.N = 0
		var res Result
		res.Item = it
		switch it.Kind {
		case "debug":
			res.Outcome = s.EvalDebug(it.Src)
			res.Steps = fmt.Sprint(s.Dbg.Steps)
		case "repl":
			res.Outcome = s.EvalRepl(it.Src)
		default:
			res.Outcome = s.Eval(it.Src)
		}
		out = append(out, res)
		if res.Outcome.Hung {
			break
		}
	}
	return out
}

// CompareBattery returns a description of the first difference ("" if none).
func CompareBattery(a, f []Result) string {
	for i := range a {
		if i >= len(f) {
			return fmt.Sprintf("item %d %q: reference battery stopped early", i, a[i].Item.Src)
		}
		if a[i].String() != f[i].String() {
			return fmt.Sprintf("battery item %d (%s) %q: after the aborted evaluation = %s, fresh interpreter = %s",
				i, a[i].Item.Kind, a[i].Item.Src, clip(a[i].String()), clip(f[i].String()))
		}
	}
	if len(f) != len(a) {
		return fmt.Sprintf("battery stopped after %d of %d items", len(a), len(f))
	}
	return ""
}

func clip(s string) string {
	s = strings.TrimSpace(s)
	if len(s) > 300 {
		return s[:300] + "..."
	}
	return s
}
