// Package inj is the fault-injection runtime shared by the C12 and C13 checks:
// a compiled hook that interpreted probe programs call at every basic block and
// that panics / raises an interrupt on its k-th call, a guarded interpreter
// session, the battery of later evaluations and the transfer of the side effects
// of an aborted evaluation into a fresh interpreter.
package inj

import (
	"bytes"
	"errors"
	"fmt"
	"os"
	r "reflect"
	"sort"
	"strings"
	"sync"
	"sync/atomic"
	"time"

	"github.com/cosmos72/gomacro/base"
	"github.com/cosmos72/gomacro/fast"
)

// Fault is the value the hook panics with.
type Fault struct{ K int }

func (f Fault) String() string { return fmt.Sprintf("fault#%d", f.K) }

type Mode int

const (
	Off       Mode = iota
	Panic          // panic(Fault{k}) on the k-th call
	Interrupt      // ir.Interrupt(os.Interrupt) on the k-th call, same goroutine
	Async          // wake a second goroutine on the k-th call; it calls ir.Interrupt
)

// Hook is the compiled function H(id) / HV(id, v) registered in the interpreter.
type Hook struct {
	mu    sync.Mutex
	Mode  Mode
	At    int   // 1-based call number that fires; 0 = never
	N     int   // calls so far
	Trace []int // ids of all calls
	Fired bool
	// what the hook saw when it fired
	FireID    int
	FireV     int // value passed to HV at the firing call (or -1)
	FireDepth int // interpreter call depth at the firing call (evaluating goroutine only)
	FireGoid  bool
	// asynchronous mode
	Delivered int32 // set to 1 after the second goroutine's Interrupt call returned
	SeenV     int   // first HV value observed after Delivered became 1 (-1 none)
	SeenID    int   // id of that call
	wake      chan struct{}
	done      chan struct{}

	sess *Session
}

func (h *Hook) reset(mode Mode, at int) {
	h.mu.Lock()
	defer h.mu.Unlock()
	h.Mode, h.At, h.N, h.Trace, h.Fired = mode, at, 0, nil, false
	h.FireID, h.FireV, h.FireDepth = 0, -1, 0
	atomic.StoreInt32(&h.Delivered, 0)
	h.SeenV, h.SeenID = -1, 0
}

func (h *Hook) call(id, v int) {
	h.mu.Lock()
	h.N++
	n := h.N
	if len(h.Trace) < 1<<16 {
		h.Trace = append(h.Trace, id)
	}
	fire := h.Mode != Off && n == h.At
	mode := h.Mode
	if fire {
		h.Fired = true
		h.FireID, h.FireV = id, v
		h.FireDepth = h.sess.depth()
	}
	if mode == Async && v >= 0 && h.SeenV < 0 && atomic.LoadInt32(&h.Delivered) == 1 {
		h.SeenV, h.SeenID = v, id
	}
	h.mu.Unlock()
	if !fire {
		return
	}
	switch mode {
	case Panic:
		panic(Fault{n})
	case Interrupt:
		h.sess.IR.Interrupt(os.Interrupt)
	case Async:
		h.wake <- struct{}{} // the helper goroutine is waiting; it interrupts concurrently with the code that continues below
	}
}

// Call is H(id).
func (h *Hook) Call(id int) { h.call(id, -1) }

// CallV is HV(id, v): v is a progress counter of the probe program.
func (h *Hook) CallV(id, v int) { h.call(id, v) }

// ---------------------------------------------------------------- debugger

// Dbg records the call depth of every debugger stop; it can abort the evaluation
// at its k-th stop the way a debugger does (DebugOp.Panic).
type Dbg struct {
	Steps   []int
	N       int
	AbortAt int
	Fired   bool
}

func (d *Dbg) Breakpoint(ir *fast.Interp, env *fast.Env) fast.DebugOp {
	d.N++
	if len(d.Steps) < 1<<14 {
		d.Steps = append(d.Steps, -env.CallDepth)
	}
	return fast.DebugOpStep
}

func (d *Dbg) At(ir *fast.Interp, env *fast.Env) fast.DebugOp {
	d.N++
	if len(d.Steps) < 1<<14 {
		d.Steps = append(d.Steps, env.CallDepth)
	}
	if d.AbortAt != 0 && d.N == d.AbortAt {
		d.Fired = true
		var v interface{} = Fault{-d.N}
		return fast.DebugOp{Depth: 0, Panic: &v}
	}
	return fast.DebugOpStep
}

// ---------------------------------------------------------------- session

// Outcome of one evaluation, in canonical text.
type Outcome struct {
	Vals  string // values, "%#v" joined by " ; "
	Panic string // "" if none
	Hung  bool   // the watchdog had to interrupt it
}

func (o Outcome) String() string {
	if o.Hung {
		return "HUNG " + o.Panic
	}
	if o.Panic != "" {
		return "panic(" + o.Panic + ")"
	}
	return o.Vals
}

type Session struct {
	IR    *fast.Interp
	Run   *fast.Run
	Hook  *Hook
	Dbg   *Dbg
	Out   bytes.Buffer
	Debug bool
	// Guard is the wall-clock limit after which a running evaluation is interrupted
	// by the watchdog (safety net, never an oracle by itself).
	Guard time.Duration
}

// NewSession creates an interpreter (in the calling goroutine, which must also be
// the one that evaluates) with the hook functions H, HV, Depth and the standard
// imports of the probe programs.
func NewSession(debug bool) *Session {
	s := &Session{Debug: debug, Guard: 30 * time.Second}
	s.Hook = &Hook{sess: s, wake: make(chan struct{}), SeenV: -1, FireV: -1}
	s.Dbg = &Dbg{}
	ir := fast.New()
	s.IR = ir
	g := &ir.Comp.Globals
	g.Stdout, g.Stderr = &s.Out, &s.Out
	g.Options &^= base.OptShowPrompt | base.OptShowEval | base.OptShowEvalType | base.OptTrapPanic
	if debug {
		g.Options |= base.OptDebugger
	}
	s.Run = ir.PrepareEnv().Run
	ir.SetDebugger(s.Dbg)
	ir.DeclFunc("H", s.Hook.Call)
	ir.DeclFunc("HV", s.Hook.CallV)
	ir.DeclFunc("Depth", s.depth)
	// Compiled library functions are registered directly instead of through "import":
	// gomacro's import loads type information with `go list -export`, which costs
	// seconds per process and ~0.5 s per interpreter, and every fault point needs two
	// fresh interpreters. The callbacks below still run interpreted closures from
	// compiled code (sort.Slice, strings.Map, sort.Search).
	ir.DeclFunc("fmtSprint", fmt.Sprint)
	ir.DeclFunc("fmtSprintf", fmt.Sprintf)
	ir.DeclFunc("sortSlice", sort.Slice)
	ir.DeclFunc("sortSearch", sort.Search)
	ir.DeclFunc("sortStrings", sort.Strings)
	ir.DeclFunc("stringsMap", strings.Map)
	ir.DeclFunc("stringsFields", strings.Fields)
	ir.DeclFunc("errorsNew", errors.New)
	ir.DeclFunc("callN", func(n int, f func(int)) {
		for i := 0; i < n; i++ {
			f(i)
		}
	})
	return s
}

// depth is the interpreter's call depth as seen by compiled code called from the
// evaluating goroutine.
func (s *Session) depth() int {
	if s.Run == nil {
		return -2
	}
	if e := s.Run.CurrEnv; e != nil {
		return e.CallDepth
	}
	return -1
}

func fmtPanic(p interface{}) string {
	switch v := p.(type) {
	case Fault:
		return v.String()
	case base.Signal:
		return "signal:" + v.String()
	case error:
		return fmt.Sprintf("error(%T):%s", p, v.Error())
	default:
		return fmt.Sprintf("%T:%v", p, p)
	}
}

func fmtVals(vs []r.Value) string {
	var b strings.Builder
	for i, v := range vs {
		if i > 0 {
			b.WriteString(" ; ")
		}
		if !v.IsValid() {
			b.WriteString("<none>")
		} else if v.CanInterface() {
			fmt.Fprintf(&b, "%#v", v.Interface())
		} else {
			fmt.Fprintf(&b, "%v", v)
		}
	}
	return b.String()
}

// guarded runs f (an evaluation) under the watchdog and converts a panic into an outcome.
func (s *Session) guarded(f func() []r.Value) (o Outcome) {
	var hung int32
	timer := time.AfterFunc(s.Guard, func() {
		atomic.StoreInt32(&hung, 1)
		for i := 0; i < 200 && atomic.LoadInt32(&hung) == 1; i++ {
			s.IR.Interrupt(os.Interrupt)
			time.Sleep(50 * time.Millisecond)
		}
	})
	defer func() {
		timer.Stop()
		if atomic.SwapInt32(&hung, 2) == 1 {
			o.Hung = true
		}
		if p := recover(); p != nil {
			o.Vals = ""
			o.Panic = fmtPanic(p)
		}
	}()
	o.Vals = fmtVals(f())
	return o
}

// Eval evaluates src the way Interp.Eval does.
func (s *Session) Eval(src string) Outcome {
	return s.guarded(func() []r.Value {
		vs, _ := s.IR.Eval(src)
		out := make([]r.Value, len(vs))
		for i := range vs {
			out[i] = vs[i].ReflectValue()
		}
		return out
	})
}

// EvalDebug evaluates src in single-step mode (Interp.Debug): the recording
// debugger is consulted before every statement.
func (s *Session) EvalDebug(src string) Outcome {
	return s.guarded(func() []r.Value {
		vs, _ := s.IR.Debug(src)
		out := make([]r.Value, len(vs))
		for i := range vs {
			out[i] = vs[i].ReflectValue()
		}
		return out
	})
}

// EvalRepl feeds src to the REPL entry point with OptTrapPanic set, as the
// interactive loop does: a panic is printed and swallowed. The outcome is the text printed.
func (s *Session) EvalRepl(src string) Outcome {
	g := &s.IR.Comp.Globals
	save := g.Options
	g.Options |= base.OptTrapPanic | base.OptShowEval
	s.Out.Reset()
	o := s.guarded(func() []r.Value {
		s.IR.ParseEvalPrint(src)
		return nil
	})
	g.Options = save
	o.Vals = s.Out.String()
	s.Out.Reset()
	return o
}

// StartAsync starts the helper goroutine of Mode Async. It calls Interrupt once the
// hook wakes it up. Call StopAsync afterwards.
func (s *Session) StartAsync() {
	h := s.Hook
	h.done = make(chan struct{})
	go func() {
		defer close(h.done)
		if _, ok := <-h.wake; !ok {
			return
		}
		s.IR.Interrupt(os.Interrupt)
		atomic.StoreInt32(&h.Delivered, 1)
	}()
}

// StopAsync ends the helper goroutine (whether or not it fired).
func (s *Session) StopAsync() {
	h := s.Hook
	if h.done == nil {
		return
	}
	select {
	case <-h.done:
	default:
		close(h.wake)
		<-h.done
		h.wake = make(chan struct{})
	}
	h.done = nil
}

// Arm sets the hook for the next evaluation.
func (s *Session) Arm(mode Mode, at int) { s.Hook.reset(mode, at) }

// ---------------------------------------------------------------- execution state

// State is the per-goroutine execution state of the interpreter that the property
// names: defer/recover bookkeeping, debugger mode, current call stack, signals.
type State struct {
	CurrEnvNil   bool
	CurrDepth    int
	ExecFlags    fast.ExecFlags
	DeferOfFun   bool // non-nil
	PanicFun     bool // non-nil
	PanicFunPooled   bool // Run.PanicFun is one of the frames in Run.Pool (free for reuse)
	DeferOfFunPooled bool
	InstallDefer bool // non-nil
	Interrupt    bool // non-nil
	Signals      base.Signals
	DebugDepth   int
}

func (s *Session) State() State {
	run := s.Run
	st := State{
		CurrEnvNil:   run.CurrEnv == nil,
		ExecFlags:    run.ExecFlags,
		DeferOfFun:   run.DeferOfFun != nil,
		PanicFun:     run.PanicFun != nil,
		InstallDefer: run.InstallDefer != nil,
		Interrupt:    run.Interrupt != nil,
		Signals:      run.Signals,
		DebugDepth:   run.DebugDepth,
	}
	if run.CurrEnv != nil {
		st.CurrDepth = run.CurrEnv.CallDepth
	}
	for i := 0; i < run.PoolSize && i < len(run.Pool); i++ {
		if e := run.Pool[i]; e != nil {
			if e == run.PanicFun {
				st.PanicFunPooled = true
			}
			if e == run.DeferOfFun {
				st.DeferOfFunPooled = true
			}
		}
	}
	return st
}

func (st State) String() string {
	pooled := ""
	if st.PanicFunPooled {
		pooled = " panicFun-is-in-frame-pool"
	}
	return pooled + fmt.Sprintf("{currEnvNil=%v depth=%d execFlags=%d deferOfFun=%v panicFun=%v installDefer=%v interrupt=%v signals=%d/%d/%d debugDepth=%d}",
		st.CurrEnvNil, st.CurrDepth, st.ExecFlags, st.DeferOfFun, st.PanicFun, st.InstallDefer, st.Interrupt,
		st.Signals.Sync, st.Signals.Debug, st.Signals.Async, st.DebugDepth)
}

// ---------------------------------------------------------------- probes

// Probe is one probe program: definitions (valid Go top-level declarations that call
// H / HV at every basic block), the expression to evaluate, the package-level
// variables that hold all its transferable state, and the statement that re-creates
// the initial state (including closures kept in variables).
type Probe struct {
	Name    string   `json:"name"`
	StepOK  bool     `json:"step_ok"` // contains no defer statement: can be evaluated in single-step mode (see NOTES.md, F-C12-dbg)
	Defs    string   `json:"defs"`
	Main    string   `json:"main"`
	Globals []string `json:"globals"`
	Reset   string   `json:"reset"`
}

// Define evaluates the probe's definitions; they must not fail.
func (s *Session) Define(src string) error {
	if o := s.Eval(src); o.Panic != "" || o.Hung {
		return fmt.Errorf("definitions failed: %s", o)
	}
	return nil
}

// Snapshot reads the probe's variables as Go-syntax text (they are ints, strings,
// bools, and slices / arrays / maps of those, so %#v is an assignable expression).
func (s *Session) Snapshot(globals []string) (map[string]string, error) {
	m := map[string]string{}
	for _, name := range globals {
		o := s.Eval(name)
		if o.Panic != "" || o.Hung {
			return nil, fmt.Errorf("reading %s: %s", name, o)
		}
		m[name] = o.Vals
	}
	return m, nil
}

// Load assigns a snapshot taken in another session.
func (s *Session) Load(snap map[string]string) error {
	names := make([]string, 0, len(snap))
	for n := range snap {
		names = append(names, n)
	}
	sort.Strings(names)
	for _, n := range names {
		if o := s.Eval(n + " = " + snap[n]); o.Panic != "" || o.Hung {
			return fmt.Errorf("loading %s = %s: %s", n, snap[n], o)
		}
	}
	return nil
}

func SnapString(snap map[string]string) string {
	names := make([]string, 0, len(snap))
	for n := range snap {
		names = append(names, n)
	}
	sort.Strings(names)
	var b strings.Builder
	for _, n := range names {
		fmt.Fprintf(&b, "%s=%s; ", n, snap[n])
	}
	return b.String()
}
