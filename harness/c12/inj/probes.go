package inj

// Hand-written probe programs of C12. Conventions (see NOTES.md):
//   H(id) is called at the start of every basic block.
//   id   1.. 99  plain interpreted code
//   id 100..199  inside a deferred function, no panic of the program in flight
//   id 200..299  inside an interpreted closure called back from compiled code
//   id 300..399  in a goroutine other than the evaluating one
//   id 400..499  inside a deferred function while a panic raised by the program itself is in flight
//   hd(n) picks 100+n or 400+n from the program's own "inflight" variable.
// All transferable state lives in the listed package-level variables; reset()
// re-creates the initial state.

const probeCommon = `
var tr []int
var acc int
var inflight bool
func hd(n int) { if inflight { H(400 + n) } else { H(100 + n) } }
`

var C12Probes = []Probe{
	{
		Name: "nested-calls", StepOK: true,
		Defs: probeCommon + `
func reset() { tr = nil; acc = 0; inflight = false }
func leaf(x int) int { H(1); acc += x; tr = append(tr, x); H(2); return x * 2 }
func mid(x int) int { H(3); a := leaf(x); H(4); b := leaf(x + 1); H(5); return a + b }
func top(n int) int {
	H(6)
	s := 0
	for i := 0; i < n; i++ {
		H(7)
		s += mid(i)
	}
	H(8)
	return s
}
func run() int { return top(3) + leaf(100) }
`,
		Main: "run()", Globals: []string{"tr", "acc", "inflight"}, Reset: "reset()",
	},
	{
		Name: "defers",
		Defs: probeCommon + `
func reset() { tr = nil; acc = 0; inflight = false }
func d1(x int) (r int) {
	H(1)
	defer func() { H(101); tr = append(tr, 100+x); r += 1; H(102) }()
	H(2)
	defer H(103) // a compiled function deferred directly
	for i := 0; i < 2; i++ {
		defer func(i int) { H(104); tr = append(tr, i) }(i)
		H(3)
	}
	H(4)
	return x
}
func d2() int {
	H(5)
	defer func() {
		H(105)
		acc += d1(7) // a function with defers called from a deferred function
		H(106)
	}()
	H(6)
	return d1(3)
}
func run() int { a := d1(1); H(7); b := d2(); H(8); return a*100 + b*10 + acc }
`,
		Main: "run()", Globals: []string{"tr", "acc", "inflight"}, Reset: "reset()",
	},
	{
		Name: "recover",
		Defs: probeCommon + `
func reset() { tr = nil; acc = 0; inflight = false }
func thrower(x int) {
	H(1)
	defer func() { hd(1); tr = append(tr, x) }()
	H(2)
	inflight = true
	panic(fmtSprint("user", x))
}
func catcher(x int) (r string) {
	H(3)
	defer func() {
		hd(2)
		if e := recover(); e != nil {
			inflight = false
			r = fmtSprint("rec:", e)
			hd(3)
		}
		hd(4)
	}()
	H(4)
	thrower(x)
	H(5)
	return "none"
}
func run() string { a := catcher(1); H(6); b := catcher(2); H(7); return a + b }
`,
		Main: "run()", Globals: []string{"tr", "acc", "inflight"}, Reset: "reset()",
	},
	{
		Name: "selective-recover",
		Defs: probeCommon + `
func reset() { tr = nil; acc = 0; inflight = false }
func thrower(x int) {
	H(1)
	defer func() { hd(1); tr = append(tr, x); hd(2) }()
	defer hd(3)
	H(2)
	inflight = true
	panic(fmtSprint("user", x))
}
// recovers only the program's own (string) panics and re-panics anything else
func catcher(x int) (r string) {
	H(3)
	defer func() {
		hd(4)
		e := recover()
		if s, ok := e.(string); ok {
			inflight = false
			r = "rec:" + s
			hd(5)
		} else if e != nil {
			hd(6)
			panic(e)
		}
		hd(7)
	}()
	H(4)
	thrower(x)
	H(5)
	return "none"
}
func run() string { a := catcher(1); H(6); b := catcher(2); H(7); return a + b }
`,
		Main: "run()", Globals: []string{"tr", "acc", "inflight"}, Reset: "reset()",
	},
	{
		Name: "closures", StepOK: true,
		Defs: probeCommon + `
// (a package-level func VARIABLE that is reassigned is avoided on purpose: calls of it from
// inside functions keep using the first value, a defect unrelated to aborted evaluations)
var cell []func() int
func next() int { return cell[0]() }
func mk(step int) func() int {
	H(1)
	c := 0
	return func() int { H(2); c += step; acc += c; return c }
}
func reset() { tr = nil; acc = 0; inflight = false; cell = []func() int{mk(3)} }
func apply(f func(int) int, xs []int) []int {
	H(3)
	var out []int
	for _, x := range xs {
		H(4)
		out = append(out, f(x))
	}
	H(5)
	return out
}
func run() string {
	H(6)
	a := mk(1)
	var fs []func() int
	for i := 0; i < 3; i++ {
		H(7)
		k := i
		fs = append(fs, func() int { H(8); tr = append(tr, k); return a() + k })
	}
	s := 0
	for _, f := range fs {
		H(9)
		s += f()
	}
	r := apply(func(x int) int { H(10); return x*x + next() }, []int{1, 2, 3})
	H(11)
	return fmtSprint(s, r, next())
}
`,
		Main: "run()", Globals: []string{"tr", "acc", "inflight"}, Reset: "reset()",
	},
	{
		Name: "loops-blocks", StepOK: true,
		Defs: probeCommon + `
func reset() { tr = nil; acc = 0; inflight = false }
func run() int {
	H(1)
	s := 0
outer:
	for i := 0; i < 4; i++ {
		H(2)
		x := i * 2
		{
			y := x + 1
			H(3)
			for j := 0; j < 3; j++ {
				z := y + j
				switch {
				case j == 2 && i == 1:
					H(4)
					continue outer
				case i == 3:
					H(5)
					break outer
				default:
					H(6)
					s += z
				}
				tr = append(tr, z)
			}
		}
		H(7)
		acc += x
	}
	for k, v := range []string{"a", "bb", "ccc"} {
		H(8)
		w := len(v) + k
		if w%2 == 0 {
			H(9)
			s += w
		} else {
			H(10)
			s -= w
		}
	}
	H(11)
	return s
}
`,
		Main: "run()", Globals: []string{"tr", "acc", "inflight"}, Reset: "reset()",
	},
	{
		Name: "compiled-callbacks",
		Defs: probeCommon + `
func reset() { tr = nil; acc = 0; inflight = false }
func run() string {
	H(1)
	v := []int{5, 2, 8, 1, 9, 3}
	defer func() { hd(1); tr = append(tr, len(v)) }()
	sortSlice(v, func(i, j int) bool { H(201); acc++; return v[i] < v[j] })
	H(2)
	s := stringsMap(func(c rune) rune { H(202); if c == 'a' { H(203); return 'A' }; return c }, "banana")
	H(3)
	callN(2, func(i int) { H(204); tr = append(tr, 77+i) })
	H(4)
	n := sortSearch(100, func(i int) bool { H(205); return i*i >= 50 })
	H(5)
	return fmtSprint(v, s, n)
}
`,
		Main: "run()", Globals: []string{"tr", "acc", "inflight"}, Reset: "reset()",
	},
	{
		Name: "goroutines",
		Defs: probeCommon + `
func reset() { tr = nil; acc = 0; inflight = false }
// strict ping-pong: at any time only one of the two goroutines runs, so the order of hook calls is fixed
func worker(in chan int, out chan interface{}) {
	defer func() {
		if e := recover(); e != nil {
			H(301)
			out <- e // hand the panic over to the evaluating goroutine
		}
	}()
	for x := range in {
		H(302)
		y := x * x
		H(303)
		out <- y
	}
}
func run() int {
	H(1)
	in, out := make(chan int), make(chan interface{})
	go worker(in, out)
	defer func() { close(in) }()
	s := 0
	for i := 1; i <= 3; i++ {
		H(2)
		in <- i
		v := <-out
		n, ok := v.(int)
		if !ok {
			H(3)
			panic(v)
		}
		H(4)
		s += n
		tr = append(tr, n)
	}
	H(5)
	return s
}
`,
		Main: "run()", Globals: []string{"tr", "acc", "inflight"}, Reset: "reset()",
	},
	{
		Name: "methods",
		Defs: probeCommon + `
type stack struct { v []int }
func (s *stack) push(x int) { H(1); s.v = append(s.v, x) }
func (s *stack) pop() int {
	H(2)
	if len(s.v) == 0 {
		H(3)
		inflight = true
		panic("empty")
	}
	x := s.v[len(s.v)-1]
	s.v = s.v[:len(s.v)-1]
	return x
}
type popper interface { pop() int }
func drain(p popper, n int) (sum int, err string) {
	H(4)
	defer func() {
		hd(1)
		if e := recover(); e != nil {
			hd(2)
			inflight = false
			err = fmtSprint(e)
		}
	}()
	for i := 0; i < n; i++ {
		H(5)
		sum += p.pop()
	}
	H(6)
	return sum, "ok"
}
func reset() { tr = nil; acc = 0; inflight = false }
func run() string {
	H(7)
	s := &stack{}
	push := s.push
	for i := 1; i <= 3; i++ {
		push(i * i)
	}
	a, e1 := drain(s, 2)
	H(8)
	b, e2 := drain(s, 2)
	H(9)
	tr = append(tr, a, b)
	return fmtSprint(a, e1, b, e2)
}
`,
		Main: "run()", Globals: []string{"tr", "acc", "inflight"}, Reset: "reset()",
	},
	{
		Name: "deep-recursion-defers",
		Defs: probeCommon + `
func reset() { tr = nil; acc = 0; inflight = false }
func down(n int) (r int) {
	H(1)
	defer func() { hd(1); acc += n; r += n }()
	if n == 0 {
		H(2)
		return 0
	}
	H(3)
	r = down(n-1) * 2
	H(4)
	return r
}
func run() int { return down(5) }
`,
		Main: "run()", Globals: []string{"tr", "acc", "inflight"}, Reset: "reset()",
	},
	{
		Name: "panic-in-defer",
		Defs: probeCommon + `
func reset() { tr = nil; acc = 0; inflight = false }
func messy() (r int) {
	H(1)
	defer func() { hd(1); tr = append(tr, 1); r = 10 }()
	defer func() {
		hd(2)
		if e := recover(); e != nil {
			hd(3)
			inflight = false
			tr = append(tr, 2)
		}
	}()
	defer func() {
		hd(4)
		tr = append(tr, 3)
		inflight = true
		panic("from-defer")
	}()
	defer func() { hd(5); tr = append(tr, 4) }()
	H(2)
	return 5
}
func run() int { a := messy(); H(3); b := messy(); H(4); return a + b }
`,
		Main: "run()", Globals: []string{"tr", "acc", "inflight"}, Reset: "reset()",
	},
	{
		Name: "runtime-panics",
		Defs: probeCommon + `
type box struct { X int }
func reset() { tr = nil; acc = 0; inflight = false }
func risky(k int) (r string) {
	H(1)
	defer func() {
		hd(1)
		e := recover()
		inflight = false
		hd(2)
		r = fmtSprint(k, ":", e != nil)
	}()
	var m map[string]int
	a := []int{1, 2, 3}
	var p *box
	z := 0
	inflight = true
	switch k {
	case 0:
		H(2)
		m["x"] = 1
	case 1:
		H(3)
		acc = a[k+5]
	case 2:
		H(4)
		acc = p.X
	case 3:
		H(5)
		acc = 10 / z
	default:
		H(6)
		inflight = false
	}
	H(7)
	return "fine"
}
func run() string {
	s := ""
	for k := 0; k < 5; k++ {
		H(8)
		s += risky(k) + " "
	}
	return s
}
`,
		Main: "run()", Globals: []string{"tr", "acc", "inflight"}, Reset: "reset()",
	},
	{
		// panicking frames of the specialised wrappers func(), func(int), func() int, func(int) int ...
		// with plain "defer f()" and no closure in the body: such frames are eligible for the frame pool
		Name: "plain-defer-specialisations",
		Defs: probeCommon + `
func reset() { tr = nil; acc = 0; inflight = false }
func cleanup() { hd(1) }
func cleanup2(x int) { hd(2); acc += x }
func p0() { defer cleanup(); H(1); acc++; H(2) }
func p1(x int) { defer cleanup(); H(3); acc += x; H(4) }
func p2() int { defer cleanup(); H(5); return acc }
func p3(x int) int { defer cleanup2(x); H(6); return acc + x }
func p4(x, y int) { defer H(107); H(7); acc += x * y }
func p5(s string) string { defer cleanup(); H(8); return s + "!" }
func p6(x int) (int, int) { defer cleanup(); H(9); return x, acc }
func nest() { defer cleanup(); H(10); p0(); H(11); p1(1); H(12) }
func thrower() { defer cleanup(); H(13); inflight = true; panic("plain") }
func guard() (r int) {
	defer func() { if recover() != nil { inflight = false; r = -1 } }()
	thrower()
	return 1
}
func run() string {
	p0()
	p1(2)
	a := p2()
	b := p3(3)
	p4(2, 5)
	s := p5("x")
	c, d := p6(4)
	nest()
	g := guard()
	H(14)
	return fmtSprint(a, b, s, c, d, g, acc)
}
`,
		Main: "run()", Globals: []string{"tr", "acc", "inflight"}, Reset: "reset()",
	},
	{
		// the same shapes called directly from the evaluated expression (depth 1)
		Name: "plain-defer-toplevel-call",
		Defs: probeCommon + `
func reset() { tr = nil; acc = 0; inflight = false }
func cleanup() { hd(1) }
func probe() { defer cleanup(); H(1); acc++; H(2) }
`,
		Main: "probe()", Globals: []string{"tr", "acc", "inflight"}, Reset: "reset()",
	},
	{
		Name: "toplevel-nodefer", // not StepOK: single-stepping these top-level statements does not terminate either (NOTES.md)
		Defs: probeCommon + `
func reset() { tr = nil; acc = 0; inflight = false }
func sq(x int) int { H(1); return x * x }
func twice(f func(int) int, x int) int { H(2); return f(f(x)) }
`,
		Main: `H(3); for i := 0; i < 3; i++ { H(4); acc += twice(sq, i); if acc > 5 { q := acc; H(5); tr = append(tr, q) } }; H(6); (func() int { H(7); return acc })()`,
		Globals: []string{"tr", "acc", "inflight"}, Reset: "reset()",
	},
	{
		Name: "toplevel-statements",
		Defs: probeCommon + `
func reset() { tr = nil; acc = 0; inflight = false }
func sq(x int) int { H(1); return x * x }
`,
		// several statements evaluated at top level (no enclosing function): loop, block, closure call
		Main: `H(2); for i := 0; i < 3; i++ { H(3); acc += sq(i); { q := acc; H(4); tr = append(tr, q) } }; H(5); (func() int { H(6); defer H(107); return acc })()`,
		Globals: []string{"tr", "acc", "inflight"}, Reset: "reset()",
	},
}
