package inj

import (
	"fmt"
	"os"
	"strings"
	"sync/atomic"

	"github.com/cosmos72/gomacro/fast"
)

// Case is one fault-injection experiment in plain form (this is also the replay file).
// For every k of Ks, in ONE interpreter: arm the fault at point k, evaluate the probe's
// Main through Entry (the evaluation is aborted, or absorbs the fault), compare the
// execution state, then compare the battery and a complete re-run of the probe with
// a fresh interpreter that received the same definitions and the variables' values
// observed after the abort.
type Case struct {
	Probe       Probe  `json:"probe"`
	OptDebugger bool   `json:"opt_debugger"`
	Entry       string `json:"entry"` // "eval" | "debug" | "repl"
	Fault       string `json:"fault"` // "hook" (panic in the hook) | "debugger" (debugger aborts at its k-th stop) | "interrupt" | "async"
	Ks          []int  `json:"ks"`
	Note        string `json:"note,omitempty"`
}

func (c Case) Key(k int) string {
	return fmt.Sprintf("%s|dbg=%v|%s|%s|%d", c.Probe.Name, c.OptDebugger, c.Entry, c.Fault, k)
}

// StepInfo is what was observed for one fault point.
type StepInfo struct {
	K         int
	Outcome   Outcome // of the evaluation the fault was injected into
	Class     string  // escaped-fault | escaped-interrupt | absorbed | escaped-other | not-fired
	Fired     bool
	FireID    int
	FireV     int
	FireDepth int
	SeenV     int
	SeenID    int
	Delivered bool
	PostTrace int // hook calls made after the firing call (deferred functions that ran while unwinding, or code that continued)
	Stops     int // debugger stops
	State     State
	Snap      map[string]string
}

type CaseResult struct {
	Steps     []StepInfo
	Violation string // "" = property held on this case
	Harness   error  // the harness itself failed (inconclusive)
}

const SigInterruptText = "signal:// signal: interrupt"

func (s *Session) evalEntry(entry, src string) Outcome {
	switch entry {
	case "debug":
		return s.EvalDebug(src)
	case "repl":
		return s.EvalRepl(src)
	}
	return s.Eval(src)
}

func setup(c Case) (*Session, error) {
	s := NewSession(c.OptDebugger)
	if err := s.Define(BatteryDefs); err != nil {
		return nil, fmt.Errorf("battery definitions: %v", err)
	}
	if err := s.Define(c.Probe.Defs); err != nil {
		return nil, fmt.Errorf("probe %s: %v", c.Probe.Name, err)
	}
	if o := s.Eval(c.Probe.Reset); o.Panic != "" || o.Hung {
		return nil, fmt.Errorf("probe %s reset: %s", c.Probe.Name, o)
	}
	return s, nil
}

// Count runs the probe once without fault and returns the number of hook calls and
// of debugger stops (entry "debug" only), plus the outcome.
func Count(c Case) (hooks, stops int, o Outcome, err error) {
	s, err := setup(c)
	if err != nil {
		return 0, 0, o, err
	}
	s.Arm(Off, 0)
	s.Dbg.AbortAt, s.Dbg.N, s.Dbg.Steps = 0, 0, nil
	o = s.evalEntry(c.Entry, c.Probe.Main)
	if o.Hung {
		return 0, 0, o, fmt.Errorf("probe %s does not terminate without fault", c.Probe.Name)
	}
	return s.Hook.N, s.Dbg.N, o, nil
}

// Ref holds the reference interpreter of one (probe, options) pair: it receives the same
// definitions, never gets a fault injected, and before every comparison is given the
// values of all variables observed in the interpreter under test. A nil *Ref (replay)
// means a new reference interpreter for every fault point.
type Ref struct {
	key string
	f   *Session
}

func (r *Ref) get(c Case) (*Session, error) {
	key := fmt.Sprint(c.Probe.Name, "|", c.OptDebugger, "|", len(c.Probe.Defs))
	if r != nil && r.f != nil && r.key == key {
		return r.f, nil
	}
	f, err := setup(c)
	if err == nil && r != nil {
		r.key, r.f = key, f
	}
	return f, err
}

// RunCase executes the experiment with a fresh reference interpreter per fault point.
func RunCase(c Case) CaseResult { return RunCaseRef(c, nil) }

// RunCaseRef executes the experiment.
func RunCaseRef(c Case, ref *Ref) (res CaseResult) {
	a, err := setup(c)
	if err != nil {
		res.Harness = err
		return
	}
	for _, k := range c.Ks {
		var st StepInfo
		st.K = k
		// ---- the evaluation that gets the fault
		a.Dbg.AbortAt, a.Dbg.N, a.Dbg.Steps, a.Dbg.Fired = 0, 0, nil, false
		switch c.Fault {
		case "hook":
			a.Arm(Panic, k)
		case "debugger":
			a.Arm(Off, 0)
			a.Dbg.AbortAt = k
		case "interrupt":
			a.Arm(Interrupt, k)
		case "async":
			a.Arm(Async, k)
			a.StartAsync()
		default:
			res.Harness = fmt.Errorf("bad fault kind %q", c.Fault)
			return
		}
		st.Outcome = a.evalEntry(c.Entry, c.Probe.Main)
		if c.Fault == "async" {
			a.StopAsync()
		}
		h := a.Hook
		h.mu.Lock()
		st.Fired = h.Fired || a.Dbg.Fired
		st.FireID, st.FireV, st.FireDepth, st.SeenV, st.SeenID = h.FireID, h.FireV, h.FireDepth, h.SeenV, h.SeenID
		st.Delivered = atomic.LoadInt32(&h.Delivered) == 1
		if h.Fired {
			st.PostTrace = h.N - h.At
		}
		h.mu.Unlock()
		st.Stops = a.Dbg.N
		st.State = a.State()
		a.Arm(Off, 0)
		a.Dbg.AbortAt = 0
		if st.Outcome.Hung {
			res.Steps = append(res.Steps, st)
			res.Harness = fmt.Errorf("%s: the evaluation with the fault did not terminate (watchdog): %s", c.Key(k), st.Outcome)
			return
		}
		text := st.Outcome.Panic
		if c.Entry == "repl" {
			text = st.Outcome.Vals
		}
		faultText := Fault{k}.String()
		if c.Fault == "debugger" {
			faultText = Fault{-k}.String()
		}
		switch {
		case !st.Fired:
			st.Class = "not-fired"
		case strings.Contains(text, faultText):
			st.Class = "escaped-fault"
		case strings.Contains(text, "signal: interrupt"):
			st.Class = "escaped-interrupt"
		case c.Entry != "repl" && st.Outcome.Panic == "":
			st.Class = "absorbed"
		case c.Entry == "repl" && !strings.Contains(text, "fault#"):
			st.Class = "absorbed" // (or another panic text was printed; the REPL swallows both)
		default:
			st.Class = "escaped-other"
		}

		// ---- execution state named by the property
		if v := checkState(c, st.State); v != "" {
			res.Steps = append(res.Steps, st)
			res.Violation = fmt.Sprintf("%s: after the aborted evaluation (%s) %s; state %s", c.Key(k), st.Outcome, v, st.State)
			return
		}

		// ---- side effects performed so far, transferred to a fresh interpreter
		snap, err := a.Snapshot(append(append([]string{}, c.Probe.Globals...), BatteryGlobals...))
		if err != nil {
			res.Steps = append(res.Steps, st)
			res.Violation = fmt.Sprintf("%s: after the aborted evaluation (%s) the probe's variables cannot be read: %v", c.Key(k), st.Outcome, err)
			return
		}
		st.Snap = snap
		res.Steps = append(res.Steps, st)
		f, err := ref.get(c)
		if err != nil {
			res.Harness = err
			return
		}
		if err := f.Load(snap); err != nil {
			res.Harness = fmt.Errorf("fresh interpreter: %v", err)
			return
		}

		// ---- later evaluations
		ra, rf := a.RunBattery(Battery), f.RunBattery(Battery)
		for _, r := range rf {
			if r.Outcome.Hung {
				res.Harness = fmt.Errorf("battery item %q does not terminate in a fresh interpreter", r.Item.Src)
				return
			}
		}
		if d := CompareBattery(ra, rf); d != "" {
			res.Violation = fmt.Sprintf("%s: aborted evaluation ended with %s; then %s", c.Key(k), st.Outcome, d)
			return
		}
		// the probe's variables after the battery, then the whole probe again without fault
		if d := compareProbeRerun(c, a, f); d != "" {
			res.Violation = fmt.Sprintf("%s: aborted evaluation ended with %s; then %s", c.Key(k), st.Outcome, d)
			return
		}
	}
	return
}

func compareProbeRerun(c Case, a, f *Session) string {
	sa, ea := a.Snapshot(c.Probe.Globals)
	sf, ef := f.Snapshot(c.Probe.Globals)
	if ea != nil || ef != nil || SnapString(sa) != SnapString(sf) {
		return fmt.Sprintf("probe variables after the battery differ: %s (%v) vs fresh %s (%v)", SnapString(sa), ea, SnapString(sf), ef)
	}
	for _, entry := range []string{"eval", c.Entry} {
		var out [2]string
		for i, s := range []*Session{a, f} {
			s.Arm(Off, 0)
			s.Dbg.AbortAt, s.Dbg.N, s.Dbg.Steps = 0, 0, nil
			o0 := s.Eval(c.Probe.Reset)
			o := s.evalEntry(entry, c.Probe.Main)
			if i == 1 && (o.Hung || o0.Hung) {
				return "" // reported by Count already; cannot happen
			}
			snap, err := s.Snapshot(c.Probe.Globals)
			out[i] = fmt.Sprintf("reset=%s result=%s hook-trace=%v stops=%v vars=%s err=%v", o0, o, s.Hook.Trace, s.Dbg.Steps, SnapString(snap), err)
		}
		if out[0] != out[1] {
			return fmt.Sprintf("re-running the probe (%s) without fault differs:\n  after abort: %s\n  fresh      : %s", entry, clipN(out[0], 1500), clipN(out[1], 1500))
		}
	}
	return ""
}

func clipN(s string, n int) string {
	if len(s) > n {
		return s[:n] + "..."
	}
	return s
}

// checkState asserts the part of the execution state that the property names and
// that a fresh interpreter has: no current call stack, no defer bookkeeping left,
// and (unless the evaluation itself was started in single-step mode) no debugger mode.
func checkState(c Case, st State) string {
	if os.Getenv("VERIF_C12_NOSTATE") != "" { // sensitivity experiments only: rely on the behavioural battery alone
		return ""
	}
	if !st.CurrEnvNil {
		return fmt.Sprintf("the current call stack is not restored (Run.CurrEnv != nil, depth %d)", st.CurrDepth)
	}
	if st.ExecFlags&(fast.EFDefer|fast.EFStartDefer) != 0 {
		return fmt.Sprintf("defer bookkeeping is not restored (Run.ExecFlags = %d)", st.ExecFlags)
	}
	if st.DeferOfFun {
		return "defer bookkeeping is not restored (Run.DeferOfFun != nil)"
	}
	// recover() decides "is the function whose defers run the panicking one" by comparing
	// Run.DeferOfFun with Run.PanicFun (builtin.go callRecover): a recorded frame must never
	// be free for reuse, or a later unrelated call gets the same *Env and the test passes wrongly.
	if st.PanicFunPooled || st.DeferOfFunPooled {
		return "defer/recover bookkeeping points to a frame that was returned to the frame pool (Run.PanicFun / Run.DeferOfFun is in Run.Pool): a later call reuses it and recover() sees the old panic"
	}
	if c.Entry != "debug" {
		if st.ExecFlags&fast.EFDebug != 0 || st.Signals.Debug != 0 || st.DebugDepth != 0 {
			return "debugger mode is set although the evaluation was not started in single-step mode"
		}
	}
	return ""
}
