package c32

import (
	"encoding/binary"
	"fmt"
	"go/ast"
	"go/constant"
	"go/parser"
	"go/token"
	"go/types"
	"math"
	"math/big"
	"strings"
	"testing"

	"github.com/cosmos72/gomacro/base/untyped"
	"pgregory.net/rapid"
)

// ---------------------------------------------------------------- constructors

func mkInt(i *big.Int) constant.Value { return constant.Make(i) }

func pow2(k int, d int64) *big.Int {
	n := new(big.Int).Lsh(big.NewInt(1), uint(k))
	return n.Add(n, big.NewInt(d))
}

// quo is what the constant expression a.0 / b.0 evaluates to.
func quo(a, b *big.Int) constant.Value {
	return constant.BinaryOp(constant.ToFloat(mkInt(a)), token.QUO, constant.ToFloat(mkInt(b)))
}

func lit(s string, tok token.Token) constant.Value { return constant.MakeFromLiteral(s, tok, 0) }

func cplx(re, im constant.Value) constant.Value {
	return constant.BinaryOp(constant.ToComplex(re), token.ADD, constant.MakeImag(im))
}

type edgeCase struct {
	kind untyped.Kind
	v    constant.Value
	src  string
}

var boundaries = []int{0, 1, 7, 8, 15, 16, 31, 32, 52, 53, 62, 63, 64, 65, 127, 128, 511, 512, 513, 1023, 1024, 1074, 4094, 4095, 4096, 4097}

func edgeFloats() []edgeCase {
	var l []edgeCase
	add := func(v constant.Value, src string) { l = append(l, edgeCase{untyped.Float, v, src}) }
	add(constant.MakeFloat64(0), "0.0")
	add(constant.MakeFloat64(math.Copysign(0, -1)), "-0.0 (go/constant: 0)")
	add(constant.MakeFloat64(math.SmallestNonzeroFloat64), "SmallestNonzeroFloat64")
	add(constant.MakeFloat64(math.MaxFloat64), "MaxFloat64")
	add(constant.MakeFloat64(-math.MaxFloat64), "-MaxFloat64")
	add(constant.MakeFloat64(math.MaxFloat32), "MaxFloat32")
	add(constant.MakeFloat64(0.1), "float64(0.1)")
	add(constant.MakeFloat64(math.NaN()), "NaN (Unknown)")
	add(constant.MakeFloat64(math.Inf(1)), "+Inf (Unknown)")
	for _, s := range []string{"0.1", "1e-1", "3.14159265358979323846264338327950288419716939937510582097494459", "1e23", "1e308", "1e309", "1e-324", "1e-400",
		"1e1232", "1e1233", "1e1234", "1e-1233", "1e-1234", "1e4000", "1e-4000", "1e100000", "1e-100000", "123456789.987654321e-77777",
		"0x1p-1074", "0x1p1023", "0x1.fffffffffffffp1023", "0x1p4094", "0x1p4095", "0x1p4096", "0x1p-4094", "0x1p-4095", "0x1p-4096", "0x1p-4097",
		"0x1.00000000000000000000000000000000000000000000000000000000000000000000000000000000000000000000000000000000000000000000000000001p0",
		"1_000.000_1", "0e0", ".5", "5.", "9007199254740993", "18446744073709551616"} {
		add(lit(s, token.FLOAT), s)
		add(constant.UnaryOp(token.SUB, lit(s, token.FLOAT), 0), "-"+s)
		add(constant.BinaryOp(lit(s, token.FLOAT), token.QUO, constant.MakeInt64(3)), s+"/3")
	}
	for _, k := range boundaries {
		for _, d := range []int64{-1, 0, 1} {
			n := pow2(k, d)
			if n.Sign() == 0 {
				continue
			}
			add(constant.ToFloat(mkInt(n)), fmt.Sprintf("2^%d%+d as float", k, d))
			add(quo(n, big.NewInt(3)), fmt.Sprintf("(2^%d%+d)/3", k, d))
			add(quo(big.NewInt(-7), n), fmt.Sprintf("-7/(2^%d%+d)", k, d))
			add(quo(n, pow2(k/2+1, 1)), fmt.Sprintf("(2^%d%+d)/(2^%d+1)", k, d, k/2+1))
			// an Int value under the Float kind, as real(<int> + 0i) gives in go/types
			add(mkInt(n), fmt.Sprintf("Int value 2^%d%+d under Float kind", k, d))
		}
	}
	return l
}

func edgeCases() []edgeCase {
	var l []edgeCase
	l = append(l, edgeCase{untyped.None, nil, "nil"})
	l = append(l, edgeCase{untyped.Bool, constant.MakeBool(true), "true"}, edgeCase{untyped.Bool, constant.MakeBool(false), "false"})
	for _, k := range boundaries {
		for _, d := range []int64{-1, 0, 1} {
			n := pow2(k, d)
			l = append(l, edgeCase{untyped.Int, mkInt(n), fmt.Sprintf("2^%d%+d", k, d)})
			l = append(l, edgeCase{untyped.Int, mkInt(new(big.Int).Neg(n)), fmt.Sprintf("-(2^%d%+d)", k, d)})
			l = append(l, edgeCase{untyped.Rune, mkInt(n), fmt.Sprintf("rune 2^%d%+d", k, d)})
		}
	}
	for _, r := range []int64{0, 'a', ':', '\n', 0x7f, 0x80, 0xd800, 0xfffd, 0x10ffff, 0x110000, -1, math.MinInt32, math.MaxInt32} {
		l = append(l, edgeCase{untyped.Rune, constant.MakeInt64(r), fmt.Sprintf("rune %d", r)})
	}
	fl := edgeFloats()
	l = append(l, fl...)
	// complex: every edge float as real part with a few imaginary parts, and the reverse
	ims := []constant.Value{constant.MakeInt64(0), constant.MakeInt64(1), lit("0.1", token.FLOAT), lit("1e100000", token.FLOAT), lit("1e-100000", token.FLOAT), quo(pow2(4095, -1), big.NewInt(3))}
	for i, f := range fl {
		if f.v.Kind() == constant.Unknown {
			continue
		}
		im := ims[i%len(ims)]
		l = append(l, edgeCase{untyped.Complex, cplx(f.v, im), "complex(" + f.src + ", " + im.String() + ")"})
		l = append(l, edgeCase{untyped.Complex, cplx(im, f.v), "complex(" + im.String() + ", " + f.src + ")"})
	}
	l = append(l, edgeCase{untyped.Complex, constant.MakeInt64(5), "Int value 5 under Complex kind"})
	l = append(l, edgeCase{untyped.Complex, lit("2.5", token.FLOAT), "Float value 2.5 under Complex kind"})
	l = append(l, edgeCase{untyped.Complex, lit("2.5i", token.IMAG), "2.5i"})
	for _, s := range []string{"", ":", "::", "a:b", "string:x", "nil", "bool:true", "int:1", "float:1/3", "complex:1:2", "true", "false", "\x00", "a\x00b", "\n", "line1\nline2\r\n",
		"\xff", "\xc0\x80", "a\xffb:", "日本語", " ", "\"quoted\"", "`raw`", "\\n", " ", "\t", strings.Repeat("x:", 5000)} {
		l = append(l, edgeCase{untyped.String, constant.MakeString(s), fmt.Sprintf("%q", trunc(s))})
	}
	// a string built by concatenation (go/constant keeps it as a lazy tree)
	cat := constant.MakeString("a:")
	for i := 0; i < 20; i++ {
		cat = constant.BinaryOp(cat, token.ADD, constant.MakeString(fmt.Sprintf("%d:", i)))
	}
	l = append(l, edgeCase{untyped.String, cat, "concatenation tree"})
	return l
}

// ---------------------------------------------------------------- rapid generators of go/constant values

func genBigInt(t *rapid.T, label string, maxBits int) *big.Int {
	var n *big.Int
	switch rapid.IntRange(0, 4).Draw(t, label+"-shape") {
	case 0: // small
		n = big.NewInt(rapid.Int64().Draw(t, label+"-i64"))
		return n
	case 1: // around a power of two
		k := rapid.IntRange(0, maxBits).Draw(t, label+"-k")
		d := rapid.Int64Range(-3, 3).Draw(t, label+"-d")
		n = pow2(k, d)
	case 2: // all ones / sparse
		k := rapid.IntRange(1, maxBits).Draw(t, label+"-k")
		n = pow2(k, -1)
		if rapid.Bool().Draw(t, label+"-sparse") {
			n.Xor(n, pow2(rapid.IntRange(0, k).Draw(t, label+"-hole"), 0))
		}
	default: // random bits
		nb := rapid.IntRange(0, maxBits/8).Draw(t, label+"-nbytes")
		b := rapid.SliceOfN(rapid.Byte(), nb, nb).Draw(t, label+"-bytes")
		n = new(big.Int).SetBytes(b)
	}
	if rapid.Bool().Draw(t, label+"-neg") {
		n.Neg(n)
	}
	return n
}

func genDigits(t *rapid.T, label string, max int) string {
	return rapid.StringMatching(fmt.Sprintf(`[0-9]{1,%d}`, max)).Draw(t, label)
}

// genFloat draws a Float-kind constant value (possibly Unknown: filtered by run).
func genFloat(t *rapid.T, label string) (constant.Value, string) {
	switch rapid.IntRange(0, 8).Draw(t, label+"-ctor") {
	case 0: // rational a/b, a and b wide
		a, b := genBigInt(t, label+"-num", 4200), genBigInt(t, label+"-den", 4200)
		if b.Sign() == 0 {
			b = big.NewInt(3)
		}
		return quo(a, b), "a.0/b.0"
	case 1: // rational with small non-dyadic denominator
		a := genBigInt(t, label+"-num", 1100)
		b := big.NewInt(rapid.Int64Range(1, 1000).Draw(t, label+"-den"))
		return quo(a, b), "a.0/small"
	case 2: // float64 bit pattern
		f := math.Float64frombits(rapid.Uint64().Draw(t, label+"-bits"))
		return constant.MakeFloat64(f), "float64 bits"
	case 3: // decimal literal
		s := genDigits(t, label+"-int", 40) + "." + genDigits(t, label+"-frac", 40)
		if rapid.Bool().Draw(t, label+"-hasexp") {
			s += fmt.Sprintf("e%d", expo(t, label))
		}
		return lit(s, token.FLOAT), s
	case 4: // hex literal
		s := "0x" + rapid.StringMatching(`[0-9a-f]{1,40}`).Draw(t, label+"-hm") + "." + rapid.StringMatching(`[0-9a-f]{0,140}`).Draw(t, label+"-hf") +
			fmt.Sprintf("p%d", expo(t, label))
		return lit(s, token.FLOAT), s
	case 5: // a big float with a full mantissa: literal / small integer
		s := genDigits(t, label+"-int", 20) + fmt.Sprintf("e%d", expo(t, label))
		d := rapid.Int64Range(1, 1000).Draw(t, label+"-div")
		return constant.BinaryOp(lit(s, token.FLOAT), token.QUO, constant.MakeInt64(d)), s + "/" + fmt.Sprint(d)
	case 6: // big.Float of drawn precision handed to constant.Make
		m := genBigInt(t, label+"-mant", 520)
		e := rapid.IntRange(-700000, 700000).Draw(t, label+"-exp2")
		// go/constant itself only creates big floats of 512 bits: a wider mantissa is not a
		// state an untyped constant can be in (and constant.Compare would round it)
		prec := uint(rapid.SampledFrom([]int{24, 53, 64, 512}).Draw(t, label+"-prec"))
		f := new(big.Float).SetPrec(prec).SetInt(m)
		f.SetMantExp(f, e)
		return constant.Make(f), "big.Float"
	case 7: // integer valued
		return constant.ToFloat(mkInt(genBigInt(t, label+"-int", 4200))), "integer as float"
	default: // Int value under a Float kind
		return mkInt(genBigInt(t, label+"-int", 4200)), "Int value under Float kind"
	}
}

func expo(t *rapid.T, label string) int {
	switch rapid.IntRange(0, 3).Draw(t, label+"-expshape") {
	case 0:
		return rapid.IntRange(-30, 30).Draw(t, label+"-exp")
	case 1:
		return rapid.IntRange(-1300, 1300).Draw(t, label+"-exp")
	case 2: // around the places where go/constant switches representation
		return rapid.SampledFrom([]int{1232, 1233, 1234, 4094, 4095, 4096, 4097}).Draw(t, label+"-exp") * (1 - 2*rapid.IntRange(0, 1).Draw(t, label+"-expneg"))
	}
	return rapid.IntRange(-200000, 200000).Draw(t, label+"-exp")
}

func genString(t *rapid.T) string {
	switch rapid.IntRange(0, 3).Draw(t, "str-shape") {
	case 0:
		return string(rapid.SliceOfN(rapid.Byte(), 0, 64).Draw(t, "str-bytes"))
	case 1:
		return rapid.StringOfN(rapid.RuneFrom([]rune{':', 'a', 0, '\n', 'n', 'i', 'l', '/', '"', '\\', 0xfffd, 0x10ffff}), 0, 30, -1).Draw(t, "str-hostile")
	case 2:
		return rapid.SampledFrom([]string{"nil", "bool", "int", "rune", "float", "complex", "string", "true", "false"}).Draw(t, "str-kw") +
			rapid.SampledFrom([]string{"", ":", ":1", ":1/3", ":true"}).Draw(t, "str-suffix")
	}
	return rapid.String().Draw(t, "str")
}

func genCase(t *rapid.T) (untyped.Kind, constant.Value, string) {
	// rapid favours small draws: the trivial kinds sit at the far end
	switch 13 - rapid.IntRange(0, 13).Draw(t, "kind") {
	case 0:
		return untyped.None, nil, "nil"
	case 1:
		b := rapid.Bool().Draw(t, "bool")
		return untyped.Bool, constant.MakeBool(b), fmt.Sprint(b)
	case 2, 3:
		return untyped.Int, mkInt(genBigInt(t, "int", 4200)), "int"
	case 4:
		if rapid.Bool().Draw(t, "rune-valid") {
			return untyped.Rune, constant.MakeInt64(int64(rapid.Int32Range(0, 0x10ffff).Draw(t, "rune"))), "rune"
		}
		return untyped.Rune, mkInt(genBigInt(t, "rune", 600)), "rune (wide)"
	case 5, 6, 7:
		v, src := genFloat(t, "f")
		return untyped.Float, v, src
	case 8, 9:
		re, s1 := genFloat(t, "re")
		im, s2 := genFloat(t, "im")
		if re.Kind() == constant.Unknown || im.Kind() == constant.Unknown {
			return untyped.Complex, constant.MakeUnknown(), "unknown"
		}
		switch rapid.IntRange(0, 9).Draw(t, "cplx-shape") {
		case 0:
			return untyped.Complex, re, "non-complex value under Complex kind: " + s1
		case 1:
			return untyped.Complex, cplx(re, constant.MakeInt64(0)), "complex(" + s1 + ", 0)"
		case 2:
			return untyped.Complex, cplx(constant.MakeInt64(0), im), "complex(0, " + s2 + ")"
		}
		return untyped.Complex, cplx(re, im), "complex(" + s1 + ", " + s2 + ")"
	case 10, 11:
		s := genString(t)
		return untyped.String, constant.MakeString(s), "string"
	default:
		v, src := genFloat(t, "f")
		return untyped.Float, v, src
	}
}

// ---------------------------------------------------------------- constants from raw bytes (native fuzz constructor)

func fromBytes(data []byte) (untyped.Kind, constant.Value, string) {
	if len(data) == 0 {
		return untyped.None, nil, "nil"
	}
	sel, rest := data[0], data[1:]
	neg := sel&0x80 != 0
	bigOf := func(b []byte) *big.Int {
		if len(b) > 530 {
			b = b[:530]
		}
		n := new(big.Int).SetBytes(b)
		if neg {
			n.Neg(n)
		}
		return n
	}
	var float func(sel byte, rest []byte) constant.Value
	float = func(sel byte, rest []byte) constant.Value {
		switch sel % 6 {
		case 0:
			h := len(rest) / 2
			den := new(big.Int).SetBytes(rest[h:])
			if den.Sign() == 0 {
				den.SetInt64(3)
			}
			return quo(bigOf(rest[:h]), den)
		case 1:
			var b [8]byte
			copy(b[:], rest)
			return constant.MakeFloat64(math.Float64frombits(binary.LittleEndian.Uint64(b[:])))
		case 2, 3: // literal: mantissa digits from the bytes, exponent from the first three
			var e int
			if len(rest) >= 3 {
				e = int(int16(binary.LittleEndian.Uint16(rest)))*4 + int(rest[2]%4)
				rest = rest[3:]
			}
			var sb strings.Builder
			if neg {
				sb.WriteByte('-')
			}
			sb.WriteString("0.")
			for i, c := range rest {
				if i >= 200 {
					break
				}
				sb.WriteByte('0' + c%10)
			}
			sb.WriteString("1")
			if sel%6 == 3 {
				return constant.BinaryOp(lit(fmt.Sprintf("%se%d", sb.String(), e), token.FLOAT), token.QUO, constant.MakeInt64(7))
			}
			return lit(fmt.Sprintf("%se%d", sb.String(), e), token.FLOAT)
		case 4: // 2^k + d
			var k, d int
			if len(rest) >= 3 {
				k = int(binary.LittleEndian.Uint16(rest)) % 4200
				d = int(int8(rest[2])) % 4
			}
			return quo(pow2(k, int64(d)), big.NewInt(int64(1+2*(len(rest)%3))))
		default:
			return mkInt(bigOf(rest))
		}
	}
	switch sel % 8 {
	case 7:
		if sel&0x40 != 0 {
			return untyped.None, nil, "nil"
		}
		return untyped.Bool, constant.MakeBool(neg), "bool"
	case 2:
		return untyped.Int, mkInt(bigOf(rest)), "int"
	case 3:
		if len(rest) > 4 {
			rest = rest[:4]
		}
		return untyped.Rune, mkInt(bigOf(rest)), "rune"
	case 0, 4, 5:
		var s byte
		if len(rest) > 0 {
			s, rest = rest[0], rest[1:]
		}
		return untyped.Float, float(s, rest), "float"
	case 6:
		var s1, s2 byte
		if len(rest) > 1 {
			s1, s2, rest = rest[0], rest[1], rest[2:]
		}
		h := len(rest) / 2
		re, im := float(s1, rest[:h]), float(s2, rest[h:])
		if re.Kind() == constant.Unknown || im.Kind() == constant.Unknown {
			return untyped.Complex, constant.MakeUnknown(), "unknown"
		}
		return untyped.Complex, cplx(re, im), "complex"
	default: // 1
		return untyped.String, constant.MakeString(string(rest)), "string"
	}
}

// ---------------------------------------------------------------- constants computed by go/types from source

// evalGoConst type-checks `package p; const C = <expr>` with the standard library
// checker and returns what genimport would marshal: GoUntypedToKind(type kind), Val().
// excl != "" when the source is not a valid untyped constant declaration.
func evalGoConst(src string) (kind untyped.Kind, v constant.Value, excl string) {
	fset := token.NewFileSet()
	f, err := parser.ParseFile(fset, "c.go", src, 0)
	if err != nil {
		return 0, nil, "parse-error"
	}
	conf := types.Config{Error: func(error) {}}
	pkg, err := conf.Check("p", fset, []*ast.File{f}, nil)
	if err != nil || pkg == nil {
		return 0, nil, "invalid-go"
	}
	obj, ok := pkg.Scope().Lookup("C").(*types.Const)
	if !ok {
		return 0, nil, "no-const"
	}
	b, ok := obj.Type().(*types.Basic)
	if !ok || b.Info()&types.IsUntyped == 0 {
		return 0, nil, "typed"
	}
	if obj.Val().Kind() == constant.Unknown {
		return 0, nil, "unknown"
	}
	return untyped.GoUntypedToKind(b.Kind()), obj.Val(), ""
}

var intLits = []string{"0", "1", "2", "3", "7", "10", "255", "256", "65535", "0x7fffffff", "0x80000000", "0xffffffffffffffff", "9223372036854775807", "9223372036854775808",
	"0b1010", "0o777", "0777", "1_000_000", "0x_ff", "1<<62", "1<<63", "1<<64", "1<<100", "1<<511", "(1<<64 - 1)", "(-1 << 63)"}
var runeLits = []string{`'a'`, `'0'`, `':'`, `'\n'`, `'\x00'`, `'\377'`, `'ሴ'`, `'\U0010FFFF'`, `'世'`, `'\''`, `'\\'`, `'�'`}
var floatLits = []string{"0.0", "1.0", "2.0", "0.5", "0.1", "1e-1", "3.141592653589793238462643383279502884197", "1e23", "1e100", "1e308", "1e309", "1e-324", "1e1233", "1e-1233", "1e4000", "1e-4000", "1e100000", "1e-100000",
	"0x1p-1074", "0x1p-52", "0x1p1023", "0x1p4094", "0x1p-4094", "0x1.8p1", ".25", "5.", "1_0.2_5", "(0x1p1023 * (1 + (1 - 0x1p-52)))", "(0x1p-1022 * 0x1p-52)", "(1.0/3)", "(2.0/7)", "(1/3.0)"}
var imagLits = []string{"0i", "1i", "2.5i", "1e3i", "0x1p-2i", "1e-400i", "123i", "(1+2i)", "(0.1 - 0.3i)", "(1.0/3 + 2i/7)"}
var strLits = []string{`""`, `"a"`, `":"`, `"a:b"`, `"nil"`, `"\x00"`, `"\n"`, `"\xff"`, `"日本"`, "`raw\\n:`", `"string:"`, `"\""`, "`multi\nline`"}

func pick(t *rapid.T, label string, l []string) string { return rapid.SampledFrom(l).Draw(t, label) }

func genDecimal(t *rapid.T) string {
	s := rapid.StringMatching(`[1-9][0-9]{0,150}`).Draw(t, "dec")
	return s
}

// genExpr draws the source of an untyped constant expression of the wanted category.
// cat: i(nt) r(une) f(loat) c(omplex) b(ool) s(tring)
func genExpr(t *rapid.T, cat byte, depth int) string {
	leaf := depth <= 0 || rapid.IntRange(0, 3).Draw(t, "leaf") == 0
	switch cat {
	case 'i':
		if leaf {
			if rapid.IntRange(0, 3).Draw(t, "ilit") == 0 {
				return genDecimal(t)
			}
			return pick(t, "int", intLits)
		}
		switch rapid.IntRange(0, 5).Draw(t, "iop") {
		case 0:
			return "(" + genExpr(t, 'i', depth-1) + " " + pick(t, "op", []string{"+", "-", "*", "/", "%", "&", "|", "^", "&^"}) + " " + genExpr(t, 'i', depth-1) + ")"
		case 1:
			return "(" + genExpr(t, 'i', depth-1) + pick(t, "shift", []string{"<<", ">>"}) + fmt.Sprint(rapid.IntRange(0, 300).Draw(t, "count")) + ")"
		case 2:
			return "(" + pick(t, "unary", []string{"-", "+", "^"}) + genExpr(t, 'i', depth-1) + ")"
		case 3:
			return "(" + genExpr(t, 'i', depth-1) + " * " + genExpr(t, 'i', depth-1) + " * " + genExpr(t, 'i', depth-1) + ")"
		default:
			return "(" + genExpr(t, 'i', depth-1) + " - " + genExpr(t, 'i', depth-1) + ")"
		}
	case 'r':
		if leaf {
			return pick(t, "rune", runeLits)
		}
		switch rapid.IntRange(0, 3).Draw(t, "rop") {
		case 0:
			return "(" + genExpr(t, 'r', depth-1) + pick(t, "op", []string{"+", "-", "*", "/", "%", "&", "|", "^"}) + genExpr(t, 'i', depth-1) + ")"
		case 1:
			return "(" + genExpr(t, 'i', depth-1) + pick(t, "op", []string{"+", "-", "*"}) + genExpr(t, 'r', depth-1) + ")"
		case 2:
			return "(" + genExpr(t, 'r', depth-1) + "<<" + fmt.Sprint(rapid.IntRange(0, 100).Draw(t, "count")) + ")"
		default:
			return "(-" + genExpr(t, 'r', depth-1) + ")"
		}
	case 'f':
		if leaf {
			if rapid.IntRange(0, 3).Draw(t, "flit") == 0 {
				return genDecimal(t) + "." + rapid.StringMatching(`[0-9]{0,60}`).Draw(t, "frac") + fmt.Sprintf("e%d", expo(t, "src"))
			}
			return pick(t, "float", floatLits)
		}
		switch rapid.IntRange(0, 5).Draw(t, "fop") {
		case 0, 1:
			return "(" + genExpr(t, 'f', depth-1) + pick(t, "op", []string{"+", "-", "*", "/"}) + genExpr(t, 'f', depth-1) + ")"
		case 2:
			return "(" + genExpr(t, pick(t, "other", []string{"i", "r"})[0], depth-1) + pick(t, "op", []string{"+", "-", "*", "/"}) + genExpr(t, 'f', depth-1) + ")"
		case 3:
			return pick(t, "part", []string{"real", "imag"}) + "(" + genExpr(t, 'c', depth-1) + ")"
		case 4:
			return "(-" + genExpr(t, 'f', depth-1) + ")"
		default:
			return "(" + genExpr(t, 'f', depth-1) + " / " + genExpr(t, 'i', depth-1) + ")"
		}
	case 'c':
		if leaf {
			return pick(t, "imag", imagLits)
		}
		switch rapid.IntRange(0, 4).Draw(t, "cop") {
		case 0:
			return "(" + genExpr(t, 'c', depth-1) + pick(t, "op", []string{"+", "-", "*", "/"}) + genExpr(t, 'c', depth-1) + ")"
		case 1:
			return "(" + genExpr(t, 'f', depth-1) + pick(t, "op", []string{"+", "-", "*"}) + genExpr(t, 'c', depth-1) + ")"
		case 2:
			return "complex(" + genExpr(t, 'f', depth-1) + ", " + genExpr(t, pick(t, "other", []string{"f", "i"})[0], depth-1) + ")"
		case 3:
			return "(" + genExpr(t, 'i', depth-1) + " + " + genExpr(t, 'c', depth-1) + ")"
		default:
			return "(-" + genExpr(t, 'c', depth-1) + ")"
		}
	case 'b':
		if leaf {
			return pick(t, "bool", []string{"true", "false"})
		}
		switch rapid.IntRange(0, 3).Draw(t, "bop") {
		case 0:
			c := pick(t, "cmpcat", []string{"i", "f", "r", "s"})[0]
			return "(" + genExpr(t, c, depth-1) + pick(t, "cmp", []string{"<", "<=", "==", "!=", ">", ">="}) + genExpr(t, c, depth-1) + ")"
		case 1:
			return "(" + genExpr(t, 'c', depth-1) + pick(t, "cmp", []string{"==", "!="}) + genExpr(t, 'c', depth-1) + ")"
		case 2:
			return "(" + genExpr(t, 'b', depth-1) + pick(t, "logic", []string{"&&", "||", "==", "!="}) + genExpr(t, 'b', depth-1) + ")"
		default:
			return "(!" + genExpr(t, 'b', depth-1) + ")"
		}
	default: // 's'
		if leaf {
			if rapid.IntRange(0, 2).Draw(t, "slit") == 0 {
				return fmt.Sprintf("%q", genString(t))
			}
			return pick(t, "str", strLits)
		}
		return "(" + genExpr(t, 's', depth-1) + " + " + genExpr(t, 's', depth-1) + ")"
	}
}

// ---------------------------------------------------------------- tests

func TestEdges(t *testing.T) {
	if rec.ReplayOnly() {
		return
	}
	for i, c := range edgeCases() {
		if !rec.Mine(i) {
			continue
		}
		rec.Eval(1)
		if !inDomain(c.kind, c.v) {
			rec.Label("excluded:unknown")
			continue
		}
		if wideIntUnderFloat(c.kind, c.v) {
			rec.Label("excluded:int-value-over-512-bits-under-float-kind")
			continue
		}
		if rec.Known(fNearLimit) && nearLimit(c.kind, c.v) {
			rec.Excluded(fNearLimit)
			continue
		}
		account("edge", c.kind, c.v)
		if class, err := checkCase(c.kind, c.v); err != nil {
			data, eerr := encodeCase(c.kind, c.v, c.src)
			if eerr != nil {
				t.Fatalf("harness: %v", eerr)
			}
			rec.Violation("edge:"+class+":"+c.src, data, "json", "edge case %s: %v", c.src, err)
			t.Errorf("edge case %s: %v", c.src, err)
		}
	}
}

func TestConstructed(t *testing.T) {
	rec.Check(t, rec.Scale(10000, 100000), func(t *rapid.T) {
		kind, v, src := genCase(t)
		run(t, "ctor", kind, v, src)
	})
}

func TestFromBytes(t *testing.T) {
	rec.Check(t, rec.Scale(6000, 50000), func(t *rapid.T) {
		data := rapid.SliceOfN(rapid.Byte(), 1, 1100).Draw(t, "data")
		kind, v, src := fromBytes(data)
		run(t, "bytes", kind, v, src)
	})
}

func TestGoTypesConstants(t *testing.T) {
	rec.Check(t, rec.Scale(9000, 60000), func(t *rapid.T) {
		cat := rapid.SampledFrom([]byte("iirfffcccbs")).Draw(t, "cat")
		expr := genExpr(t, cat, rapid.IntRange(0, 4).Draw(t, "depth"))
		src := "package p\n\nconst C = " + expr + "\n"
		kind, v, excl := evalGoConst(src)
		if excl != "" {
			rec.Label("excluded:gotypes:" + excl)
			return
		}
		if rec.Known(fNearLimit) && nearLimit(kind, v) {
			rec.Excluded(fNearLimit)
			return
		}
		if !inDomain(kind, v) {
			// go/types produced a (kind, value) pair outside the assumed domain: the assumption is wrong, not gomacro
			t.Fatalf("harness: go/types yields kind %v with a %v value for %s", kind, v.Kind(), expr)
		}
		account("gotypes", kind, v)
		rec.Sample(src)
		if class, err := checkCase(kind, v); err != nil {
			rec.Failf(t, "gotypes:"+class, []byte(src), "go", "%s: %v", trunc(expr), err)
		}
	})
}

// ---------------------------------------------------------------- native fuzzing (thorough tier only)

// FuzzBytes is driven by TestNativeFuzz, which re-executes this test binary with
// -test.fuzz; in a normal run it only replays its seed corpus.
func FuzzBytes(f *testing.F) {
	if rec.ReplayOnly() {
		f.Skip("replay only")
	}
	for _, seed := range [][]byte{{}, {2, 0xff, 0xff, 0xff, 0xff, 0xff, 0xff, 0xff, 0xff, 0xff}, {4, 0, 1, 2, 3, 4, 5, 6, 7, 8, 9}, {4, 2, 0x10, 0x27, 1, 9, 9, 9},
		{0x84, 3, 0xf0, 0xd8, 2, 1, 2, 3}, {5, 4, 0xff, 0x0f, 0xff}, {6, 0, 2, 1, 2, 3, 4, 5, 6, 7, 8, 9, 10, 11, 12}, {1, ':', 'n', 'i', 'l', 0, 0xff}, {3, 0x10, 0xff, 0xff}} {
		f.Add(seed)
	}
	f.Fuzz(func(t *testing.T, data []byte) {
		if len(data) > 1200 {
			return
		}
		kind, v, src := fromBytes(data)
		rec.Eval(1)
		if !inDomain(kind, v) {
			return
		}
		if wideIntUnderFloat(kind, v) || rec.Known(fNearLimit) && nearLimit(kind, v) {
			return
		}
		if class, err := checkCase(kind, v); err != nil {
			plain, eerr := encodeCase(kind, v, src)
			if eerr != nil {
				t.Skip()
			}
			rec.Violation("fuzz:"+class, plain, "json", "%v", err)
			t.Fatalf("%v", err)
		}
	})
}

// TestNativeFuzz runs go's native fuzzing engine on FuzzBytes for a bounded time in
// the thorough tier (one campaign, on shard 0). Failures found by the engine are read
// back from the child's violation files and re-checked here without the engine.
func TestNativeFuzz(t *testing.T) {
	if rec.ReplayOnly() || !rec.Thorough() || rec.Shard() != 0 {
		return
	}
	runNativeFuzz(t, "FuzzBytes", 60)
}
