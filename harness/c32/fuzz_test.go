package c32

import (
	"os"
	"os/exec"
	"path/filepath"
	"regexp"
	"strconv"
	"testing"
)

var execsRe = regexp.MustCompile(`execs: (\d+)`)

func runNativeFuzz(t *testing.T, target string, seconds int) {
	scratch := os.Getenv("VERIF_SCRATCH")
	if scratch == "" {
		scratch = t.TempDir()
	}
	out := filepath.Join(scratch, "fuzz-out")
	work := filepath.Join(scratch, "fuzz-work")
	for _, d := range []string{out, work, filepath.Join(scratch, "fuzz-cache")} {
		if err := os.MkdirAll(d, 0o755); err != nil {
			t.Fatalf("harness: %v", err)
		}
	}
	cmd := exec.Command(os.Args[0], "-test.run=^$", "-test.fuzz=^"+target+"$", "-test.fuzztime="+strconv.Itoa(seconds)+"s",
		"-test.fuzzcachedir="+filepath.Join(scratch, "fuzz-cache"), "-test.parallel=4", "-test.timeout="+strconv.Itoa(seconds+120)+"s")
	cmd.Dir = work
	cmd.Env = append(os.Environ(), "VERIF_OUT="+out, "VERIF_SHARD=900", "VERIF_TIER=thorough")
	log, err := cmd.CombinedOutput()
	execs := 0
	for _, m := range execsRe.FindAllSubmatch(log, -1) {
		if n, _ := strconv.Atoi(string(m[1])); n > execs {
			execs = n
		}
	}
	rec.Eval(execs)
	rec.LabelN("native-fuzz-execs", execs)
	viols, _ := filepath.Glob(filepath.Join(out, "viol-*.json"))
	found := false
	for _, v := range viols {
		data, rerr := os.ReadFile(v)
		if rerr != nil {
			continue
		}
		if cerr := replay(data); cerr != nil {
			found = true
			rec.Violation("native-fuzz", data, "json", "native fuzzing: %v", cerr)
			t.Errorf("native fuzzing: %v", cerr)
		}
	}
	if err != nil && !found {
		// the engine failed without a reproducible property violation: infrastructure, not a verdict
		tail := log
		if len(tail) > 3000 {
			tail = tail[len(tail)-3000:]
		}
		t.Fatalf("harness: native fuzz run failed without a recorded violation: %v\n%s", err, tail)
	}
}
