// C32: untyped constant serialisation round trip.
// Oracle (O6, round trip): Unmarshal(Marshal(kind, value)) gives the same untyped kind
// and exactly the same value: constant.Compare EQL as the property names it, plus a
// mathematically exact comparison through math/big for originals that go/constant holds
// exactly (integers, fractions inside its rational range), because constant.Compare
// rounds a fraction to 512 bits when the other operand is a big float.
package c32

import (
	"encoding/hex"
	"encoding/json"
	"fmt"
	"go/constant"
	"go/token"
	"math"
	"math/big"
	"os"
	"strings"
	"testing"
	"unicode/utf8"

	"github.com/cosmos72/gomacro/base/untyped"
	"pgregory.net/rapid"

	"verif/harness/vlib"
)

var rec *vlib.Rec

func TestMain(m *testing.M) {
	rec = vlib.Open("C32")
	rec.Rule("cases = (untyped kind, go/constant value) pairs from four sources: an enumerated edge list (0, -0, 2^k and 2^k+-1 around every width boundary up to 2^4096, huge/tiny exponents, non-dyadic rationals, hostile strings), " +
		"rapid-drawn constants built with go/constant constructors (ints to 4200 bits, rationals, float64 bit patterns, decimal/hex literals with exponents to +-200000, big floats, complex of those, byte strings), " +
		"constants computed by the standard go/types checker from rapid-generated untyped constant expressions (the exact path genimport takes: types.Const.Val()), and constants decoded from a raw byte string (the native-fuzz constructor). " +
		"A case is non-trivial when the value is an integer or rune outside int64, a float or complex component that is not exactly a float64, or a string that contains ':' / NUL / newline / invalid UTF-8 or equals a kind keyword; distinct = distinct (kind, exact value text)")
	rec.Assume("go/constant and go/types of the standard library are trusted (value construction, Compare); math/big is trusted for the exact comparison")
	rec.Assume("go/constant has no negative zero and no NaN/Inf: -0.0 is the constant 0, NaN/Inf give Unknown values, which are not untyped constants and are excluded (counted as excluded:unknown)")
	rec.Assume("domain of (kind, value) pairs: Int and Rune carry go/constant Int values; Float carries Float values, or Int values of at most 512 bits (go/types yields them for real(5+0i)); Complex carries Complex, Float or Int values")
	rec.Assume("'exactly the same value': exact equality (math/big) for originals held as an integer or as a fraction whose numerator and denominator have fewer than 4096 bits (go/constant's rational range); originals held as a 512-bit big float, or as a literal fraction beyond that range (1e-1233), have no exact rational form on either side and are compared with constant.Compare; the two classes are counted in labels cmp/*")
	os.Exit(vlib.Main(m, rec))
}

// ---------------------------------------------------------------- plain form of a case

type valRepr struct {
	Rep  string   `json:"rep"`            // bool | int | rat | bigfloat | string | complex
	Text string   `json:"text,omitempty"` // bool: true/false; int: decimal; rat: a/b; bigfloat: big.Float.Text('p',0); string: hex of the bytes
	Prec uint     `json:"prec,omitempty"` // bigfloat: mantissa precision
	Re   *valRepr `json:"re,omitempty"`
	Im   *valRepr `json:"im,omitempty"`
}

type caseRepr struct {
	Kind string   `json:"kind"` // bool int rune float complex string nil
	Val  *valRepr `json:"val,omitempty"`
	Src  string   `json:"src,omitempty"` // how the generator built it (information only)
}

var kindNames = map[untyped.Kind]string{
	untyped.None: "nil", untyped.Bool: "bool", untyped.Int: "int", untyped.Rune: "rune",
	untyped.Float: "float", untyped.Complex: "complex", untyped.String: "string",
}

func kindByName(s string) (untyped.Kind, bool) {
	for k, n := range kindNames {
		if n == s {
			return k, true
		}
	}
	return untyped.None, false
}

func encodeVal(v constant.Value) (*valRepr, error) {
	switch v.Kind() {
	case constant.Bool:
		return &valRepr{Rep: "bool", Text: fmt.Sprint(constant.BoolVal(v))}, nil
	case constant.String:
		return &valRepr{Rep: "string", Text: hex.EncodeToString([]byte(constant.StringVal(v)))}, nil
	case constant.Int, constant.Float:
		switch x := constant.Val(v).(type) {
		case int64:
			return &valRepr{Rep: "int", Text: fmt.Sprint(x)}, nil
		case *big.Int:
			return &valRepr{Rep: "int", Text: x.String()}, nil
		case *big.Rat:
			return &valRepr{Rep: "rat", Text: x.String()}, nil
		case *big.Float:
			return &valRepr{Rep: "bigfloat", Text: x.Text('p', 0), Prec: x.Prec()}, nil
		}
	case constant.Complex:
		re, err := encodeVal(constant.Real(v))
		if err != nil {
			return nil, err
		}
		im, err := encodeVal(constant.Imag(v))
		if err != nil {
			return nil, err
		}
		return &valRepr{Rep: "complex", Re: re, Im: im}, nil
	}
	return nil, fmt.Errorf("cannot encode %v value", v.Kind())
}

func decodeVal(r *valRepr) (constant.Value, error) {
	switch r.Rep {
	case "bool":
		return constant.MakeBool(r.Text == "true"), nil
	case "string":
		b, err := hex.DecodeString(r.Text)
		if err != nil {
			return nil, err
		}
		return constant.MakeString(string(b)), nil
	case "int":
		i, ok := new(big.Int).SetString(r.Text, 10)
		if !ok {
			return nil, fmt.Errorf("bad int %q", r.Text)
		}
		return constant.Make(i), nil
	case "rat":
		q, ok := new(big.Rat).SetString(r.Text)
		if !ok {
			return nil, fmt.Errorf("bad rat %q", r.Text)
		}
		return constant.Make(q), nil
	case "bigfloat":
		f, _, err := big.ParseFloat(r.Text, 0, r.Prec, big.ToNearestEven)
		if err != nil {
			return nil, err
		}
		return constant.Make(f), nil
	case "complex":
		if r.Re == nil || r.Im == nil {
			return nil, fmt.Errorf("complex without parts")
		}
		re, err := decodeVal(r.Re)
		if err != nil {
			return nil, err
		}
		im, err := decodeVal(r.Im)
		if err != nil {
			return nil, err
		}
		return constant.BinaryOp(constant.ToComplex(re), token.ADD, constant.MakeImag(im)), nil
	}
	return nil, fmt.Errorf("bad rep %q", r.Rep)
}

func encodeCase(kind untyped.Kind, v constant.Value, src string) ([]byte, error) {
	c := caseRepr{Kind: kindNames[kind], Src: src}
	if kind != untyped.None {
		r, err := encodeVal(v)
		if err != nil {
			return nil, err
		}
		c.Val = r
	}
	return json.MarshalIndent(c, "", " ")
}

func decodeCase(data []byte) (untyped.Kind, constant.Value, error) {
	var c caseRepr
	if err := json.Unmarshal(data, &c); err != nil {
		return 0, nil, err
	}
	kind, ok := kindByName(c.Kind)
	if !ok {
		return 0, nil, fmt.Errorf("bad kind %q", c.Kind)
	}
	if kind == untyped.None {
		return kind, nil, nil
	}
	if c.Val == nil {
		return 0, nil, fmt.Errorf("no value")
	}
	v, err := decodeVal(c.Val)
	return kind, v, err
}

// ---------------------------------------------------------------- exact comparison

// exactReal compares two Int/Float constants mathematically, without rounding.
func exactReal(a, b constant.Value) (bool, error) {
	x, y := constant.Val(a), constant.Val(b)
	fx, okx := x.(*big.Float)
	fy, oky := y.(*big.Float)
	if okx && oky {
		return fx.Cmp(fy) == 0, nil
	}
	rx, err := toRat(x)
	if err != nil {
		return false, err
	}
	ry, err := toRat(y)
	if err != nil {
		return false, err
	}
	return rx.Cmp(ry) == 0, nil
}

func toRat(x interface{}) (*big.Rat, error) {
	switch x := x.(type) {
	case int64:
		return new(big.Rat).SetInt64(x), nil
	case *big.Int:
		return new(big.Rat).SetInt(x), nil
	case *big.Rat:
		return x, nil
	case *big.Float:
		r, _ := x.Rat(nil) // exact for finite x
		if r == nil {
			return nil, fmt.Errorf("infinite float")
		}
		return r, nil
	}
	return nil, fmt.Errorf("not a number: %T", x)
}

func isNumber(v constant.Value) bool {
	k := v.Kind()
	return k == constant.Int || k == constant.Float || k == constant.Complex
}

// sameValue: nil error when got is exactly want. class names the comparison that failed.
func sameValue(kind untyped.Kind, want, got constant.Value) (class string, err error) {
	if got == nil {
		return "value", fmt.Errorf("decoded value is nil")
	}
	if got.Kind() == constant.Unknown {
		return "value", fmt.Errorf("decoded value is Unknown")
	}
	switch kind {
	case untyped.Bool:
		if got.Kind() != constant.Bool || constant.BoolVal(got) != constant.BoolVal(want) {
			return "value", fmt.Errorf("decoded %v, want %v", got, want)
		}
		return "", nil
	case untyped.String:
		if got.Kind() != constant.String || constant.StringVal(got) != constant.StringVal(want) {
			return "value", fmt.Errorf("decoded string %q, want %q", trunc(got.ExactString()), trunc(want.ExactString()))
		}
		return "", nil
	}
	if !isNumber(got) {
		return "value", fmt.Errorf("decoded a %v value, want a number", got.Kind())
	}
	// the comparison the property names
	var eq bool
	if p := vlib.Try(func() { eq = constant.Compare(want, token.EQL, got) }); p != nil {
		return "value", fmt.Errorf("constant.Compare panicked: %v", p)
	}
	if !eq {
		return "value", fmt.Errorf("constant.Compare: decoded %s != original %s", trunc(got.ExactString()), trunc(want.ExactString()))
	}
	// exactly the same value, wherever go/constant holds the original exactly: as an
	// integer, or as a fraction inside its rational range (see exactlyHeld). A part that is
	// a 512-bit big float, or a fraction beyond the range, is "the same value" when
	// constant.Compare says so (checked above).
	for _, part := range []func(constant.Value) constant.Value{constant.Real, constant.Imag} {
		if held, _ := exactlyHeld(part(want)); !held {
			continue
		}
		ok, err := exactReal(part(want), part(got))
		if err != nil {
			return "harness", err
		}
		if !ok {
			return "exact", fmt.Errorf("decoded value differs from the exactly held original although constant.Compare (which rounds to 512 bits) calls them equal: decoded %s, original %s",
				trunc(part(got).ExactString()), trunc(part(want).ExactString()))
		}
	}
	return "", nil
}

// maxExp is go/constant's bound on the parts of a fraction: makeRat keeps a fraction
// only while numerator and denominator have fewer than 4096 bits.
const maxExp = 4 << 10

// exactlyHeld reports whether go/constant holds the Int/Float value v exactly: an
// integer, or a fraction whose parts are inside the range makeRat keeps. A literal such
// as 1e-1233 is stored as 1/10^1233 although 10^1233 has 4096 bits: go/constant would
// not keep that fraction through any operation, it is beyond its rational range.
func exactlyHeld(v constant.Value) (held bool, how string) {
	switch x := constant.Val(v).(type) {
	case int64, *big.Int:
		return true, "exact:int"
	case *big.Rat:
		if x.Num().BitLen() < maxExp && x.Denom().BitLen() < maxExp {
			return true, "exact:rat"
		}
		return false, "compare-only:rat-beyond-range"
	case *big.Float:
		return false, "compare-only:bigfloat"
	}
	return false, "other"
}

func trunc(s string) string {
	if len(s) > 200 {
		return fmt.Sprintf("%s...%s (%d chars)", s[:90], s[len(s)-90:], len(s))
	}
	return s
}

// checkCase is the property on one constant. class is "" when it holds.
func checkCase(kind untyped.Kind, v constant.Value) (class string, err error) {
	var s string
	if p := vlib.Try(func() { s = untyped.Marshal(kind, v) }); p != nil {
		return "panic", fmt.Errorf("Marshal panicked: %v", p)
	}
	var k2 untyped.Kind
	var v2 constant.Value
	if p := vlib.Try(func() { k2, v2 = untyped.Unmarshal(s) }); p != nil {
		return "panic", fmt.Errorf("Unmarshal(%q) panicked: %v", trunc(s), p)
	}
	if k2 != kind {
		return "kind", fmt.Errorf("kind %v encoded as %q decodes to kind %v", kind, trunc(s), k2)
	}
	if kind == untyped.None {
		if v2 != nil {
			return "value", fmt.Errorf("nil decodes to value %v", v2)
		}
	} else if class, err := sameValue(kind, v, v2); err != nil {
		return class, fmt.Errorf("%v constant encoded as %q: %v", kind, trunc(s), err)
	}
	// the Val forms of the same two functions
	var s2 string
	var val *untyped.Val
	if p := vlib.Try(func() { s2 = (&untyped.Val{Kind: kind, Val: v}).Marshal(); val = untyped.UnmarshalVal(s) }); p != nil {
		return "panic", fmt.Errorf("Val.Marshal / UnmarshalVal panicked: %v", p)
	}
	if s2 != s {
		return "val", fmt.Errorf("Val.Marshal gives %q, Marshal gives %q", trunc(s2), trunc(s))
	}
	if val == nil || val.Kind != kind {
		return "val", fmt.Errorf("UnmarshalVal(%q) gives %+v, want kind %v", trunc(s), val, kind)
	}
	if kind == untyped.None {
		if val.Val != nil {
			return "val", fmt.Errorf("UnmarshalVal(nil) has value %v", val.Val)
		}
	} else if class, err := sameValue(kind, v, val.Val); err != nil {
		return class, fmt.Errorf("UnmarshalVal: %v constant encoded as %q: %v", kind, trunc(s), err)
	}
	return "", nil
}

// inDomain: the (kind, value) pairs that are untyped constants (see rec.Assume).
func inDomain(kind untyped.Kind, v constant.Value) bool {
	if kind == untyped.None {
		return v == nil
	}
	if v == nil {
		return false
	}
	switch kind {
	case untyped.Bool:
		return v.Kind() == constant.Bool
	case untyped.String:
		return v.Kind() == constant.String
	case untyped.Int, untyped.Rune:
		return v.Kind() == constant.Int
	case untyped.Float:
		return v.Kind() == constant.Int || v.Kind() == constant.Float
	case untyped.Complex:
		if !isNumber(v) {
			return false
		}
		return constant.Real(v).Kind() != constant.Unknown && constant.Imag(v).Kind() != constant.Unknown
	}
	return false
}

// ---------------------------------------------------------------- classification (labels, non-trivial)

func realClass(v constant.Value) (label string, nontrivial bool) {
	switch x := constant.Val(v).(type) {
	case int64:
		return "int64", false
	case *big.Int:
		return fmt.Sprintf("bigint:<=%dbits", bucket(x.BitLen())), true
	case *big.Rat:
		f, exact := x.Float64()
		if exact && !math.IsInf(f, 0) {
			return "rat:float64", false
		}
		if x.IsInt() {
			return fmt.Sprintf("rat:integer<=%dbits", bucket(x.Num().BitLen())), true
		}
		if isPow2(x.Denom()) {
			return "rat:dyadic-wide", true
		}
		return fmt.Sprintf("rat:non-dyadic<=%dbits", bucket(max(x.Num().BitLen(), x.Denom().BitLen()))), true
	case *big.Float:
		e := x.MantExp(nil)
		if e > 0 {
			return "bigfloat:huge", true
		}
		return "bigfloat:tiny", true
	}
	return "other", false
}

func isPow2(i *big.Int) bool {
	return i.Sign() > 0 && i.TrailingZeroBits() == uint(i.BitLen()-1)
}

func bucket(bits int) int {
	for _, b := range []int{64, 128, 512, 1024, 4095, 4096} {
		if bits <= b {
			return b
		}
	}
	return 1 << 20
}

func classify(kind untyped.Kind, v constant.Value) (label string, nontrivial bool) {
	name := kindNames[kind]
	switch kind {
	case untyped.None:
		return name, false
	case untyped.Bool:
		return name, false
	case untyped.String:
		s := constant.StringVal(v)
		var tags []string
		if strings.Contains(s, ":") {
			tags = append(tags, "colon")
		}
		if strings.ContainsAny(s, "\x00\n") {
			tags = append(tags, "nul-or-newline")
		}
		if !utf8.ValidString(s) {
			tags = append(tags, "invalid-utf8")
		}
		switch s {
		case "nil", "bool", "int", "rune", "float", "complex", "string", "true", "false":
			tags = append(tags, "keyword")
		}
		if len(tags) == 0 {
			return name + ":plain", false
		}
		return name + ":" + strings.Join(tags, "+"), true
	case untyped.Complex:
		lr, nr := realClass(constant.Real(v))
		li, ni := realClass(constant.Imag(v))
		coarse := func(l string) string { return strings.SplitN(l, ":", 2)[0] }
		return name + ":" + coarse(lr) + "," + coarse(li), nr || ni
	}
	l, nt := realClass(v)
	return name + ":" + l, nt
}

// account records one checked case in the evidence counters.
func account(source string, kind untyped.Kind, v constant.Value) {
	label, nt := classify(kind, v)
	rec.Label(source + "/" + label)
	if kind == untyped.Float || kind == untyped.Complex {
		_, hr := exactlyHeld(constant.Real(v))
		_, hi := exactlyHeld(constant.Imag(v))
		rec.Label("cmp/re=" + hr)
		if kind == untyped.Complex {
			rec.Label("cmp/im=" + hi)
		}
	}
	if nt {
		key := kindNames[kind] + "|"
		if v != nil {
			key += v.ExactString()
		}
		rec.NT(key)
	}
}

// ---------------------------------------------------------------- replay

func replay(content []byte) error {
	text := strings.TrimSpace(string(content))
	if strings.HasPrefix(text, "package") {
		kind, v, excl := evalGoConst(string(content))
		if excl != "" {
			return nil // not a valid untyped constant declaration: nothing to check
		}
		_, err := checkCase(kind, v)
		return err
	}
	kind, v, err := decodeCase(content)
	if err != nil {
		return nil // not a C32 case
	}
	if !inDomain(kind, v) {
		return nil
	}
	_, err = checkCase(kind, v)
	return err
}

func TestReplays(t *testing.T) {
	rec.RunReplays(t, replay)
}

// known finding switch: see NOTES.md. Cases of exactly that shape are skipped (and
// counted) while the finding is listed as "known"; with a "fixed" entry nothing is skipped.
const fNearLimit = "F-C32-2"

// nearLimit reports the shape of finding F-C32-2: a Float (or Complex component) held as
// a fraction whose numerator or denominator n needs more than 512 mantissa bits and is
// rounded by big.Float, at 512 bits, to 2^4095 or beyond (|n| >= 2^4095 - 2^3582):
// unmarshalFloat parses that integer text with MakeFromLiteral(token.FLOAT) and gets a
// rounded big float for it. Two symptoms: a fraction inside go/constant's rational range
// (2^4095-1) comes back inexact; a literal fraction beyond it (2.01e-1232 = 201/10^1234)
// comes back rounded twice, and about half of those are unequal even for constant.Compare.
func nearLimit(kind untyped.Kind, v constant.Value) bool {
	if kind != untyped.Float && kind != untyped.Complex {
		return false
	}
	lim := new(big.Int).Lsh(big.NewInt(1), 4095)
	lim.Sub(lim, new(big.Int).Lsh(big.NewInt(1), 4095-513))
	big1 := func(i *big.Int) bool {
		return i.BitLen()-int(i.TrailingZeroBits()) > 512 && new(big.Int).Abs(i).Cmp(lim) >= 0
	}
	part := func(p constant.Value) bool {
		if x, ok := constant.Val(p).(*big.Rat); ok {
			return big1(x.Num()) || big1(x.Denom())
		}
		return false
	}
	return part(constant.Real(v)) || part(constant.Imag(v))
}

// wideIntUnderFloat: an Int value under the Float or Complex kind wider than the 512
// bits go/types allows an untyped integer constant to have. The generators that build
// values by hand stay inside that bound (the go/types source is not filtered).
func wideIntUnderFloat(kind untyped.Kind, v constant.Value) bool {
	if kind != untyped.Float && kind != untyped.Complex {
		return false
	}
	wide := func(p constant.Value) bool {
		x, ok := constant.Val(p).(*big.Int)
		return ok && x.BitLen() > 512
	}
	return wide(constant.Real(v)) || wide(constant.Imag(v))
}

// run checks one generated case inside a rapid property.
func run(t *rapid.T, source string, kind untyped.Kind, v constant.Value, src string) {
	if !inDomain(kind, v) {
		rec.Label("excluded:unknown")
		return
	}
	if wideIntUnderFloat(kind, v) {
		rec.Label("excluded:int-value-over-512-bits-under-float-kind")
		return
	}
	if rec.Known(fNearLimit) && nearLimit(kind, v) {
		rec.Excluded(fNearLimit)
		return
	}
	data, err := encodeCase(kind, v, src)
	if err != nil {
		t.Fatalf("harness: %v", err)
	}
	// the plain form must describe the same constant, or a replay would be meaningless
	k2, v2, err := decodeCase(data)
	if err != nil || k2 != kind {
		t.Fatalf("harness: plain form does not decode: %v", err)
	}
	if kind != untyped.None {
		if _, err := sameValue(kind, v, v2); err != nil {
			t.Fatalf("harness: plain form decodes to another value: %v", err)
		}
	}
	account(source, kind, v)
	rec.Sample(json.RawMessage(data))
	if class, err := checkCase(kind, v); err != nil {
		rec.Failf(t, source+":"+class, data, "json", "%v", err)
	}
}
