package astx

import (
	"bytes"
	"fmt"
	"go/ast"
	stdparser "go/parser"
	"go/scanner"
	"go/token"
	"hash/fnv"
	"io/fs"
	"os"
	"path/filepath"
	"sort"
	"strings"
	"sync"

	"github.com/cosmos72/gomacro/go/etoken"
	"github.com/cosmos72/gomacro/go/parser"
)

// Roots of the offline corpora. They are inputs, never oracles.
var (
	StdlibRoot = "/usr/share/go-1.23/src"
	RepoRoot   = "/repo" // always the pinned tree, also when VERIF_REPO points elsewhere: inputs stay the same
)

var (
	corpusOnce  sync.Once
	corpusFiles []string
)

// CorpusFiles returns every *.go file below StdlibRoot and RepoRoot, sorted by path
// (deterministic). Directories named testdata, vendor and .git are skipped: testdata
// holds deliberately broken or generated inputs.
func CorpusFiles() []string {
	corpusOnce.Do(func() {
		for _, root := range []string{StdlibRoot, RepoRoot} {
			filepath.WalkDir(root, func(path string, d fs.DirEntry, err error) error {
				if err != nil {
					return nil
				}
				if d.IsDir() {
					switch d.Name() {
					case "testdata", "vendor", ".git":
						return filepath.SkipDir
					}
					return nil
				}
				if strings.HasSuffix(path, ".go") {
					corpusFiles = append(corpusFiles, path)
				}
				return nil
			})
		}
		sort.Strings(corpusFiles)
	})
	return append([]string(nil), corpusFiles...)
}

// Sample returns the files f with hash(f, seed) % oneIn == 0, in the order given:
// a deterministic subset of about len(files)/oneIn elements that changes with the
// seed. oneIn <= 1 returns all files. Split the result between shards with
// rec.Mine(index).
func Sample(files []string, seed int64, oneIn int) []string {
	if oneIn <= 1 {
		return append([]string(nil), files...)
	}
	var out []string
	for _, f := range files {
		h := fnv.New64a()
		fmt.Fprintf(h, "%d|%s", seed, f)
		if h.Sum64()%uint64(oneIn) == 0 {
			out = append(out, f)
		}
	}
	return out
}

// ParseStd parses src with the standard go/parser (comments dropped, object
// resolution on: the default mode, as DESIGN.md C24 prescribes).
func ParseStd(fset *token.FileSet, filename string, src []byte) (*ast.File, error) {
	return stdparser.ParseFile(fset, filename, src, 0)
}

// ParseStdComments is ParseStd with comments kept (needed by printer checks).
func ParseStdComments(fset *token.FileSet, filename string, src []byte) (*ast.File, error) {
	return stdparser.ParseFile(fset, filename, src, stdparser.ParseComments)
}

// ParseFork parses src with gomacro's forked parser exactly as the interpreter does
// (base.Globals.ParseBytes: mode 0 or ParseComments, macro character '~') and returns
// the top-level nodes. The first node of a file is the `package` GenDecl
// (Tok == token.PACKAGE). A panic of the parser is returned as an error whose text
// starts with "panic:".
func ParseFork(fset *etoken.FileSet, filename string, src []byte, comments bool) (nodes []ast.Node, err error) {
	defer func() {
		if p := recover(); p != nil {
			nodes, err = nil, fmt.Errorf("panic: %v", p)
		}
	}()
	var p parser.Parser
	mode := parser.Mode(0)
	if comments {
		mode = parser.ParseComments
	}
	p.Configure(mode, '~')
	p.Init(fset, filename, 0, src)
	return p.Parse()
}

// IsGeneric reports whether the file (parsed by the standard parser) uses Go 1.18
// generics syntax, which gomacro's fork predates: type parameters, instantiation with
// several arguments, type-set interfaces (`~T`, unions, non-method embedded elements
// that are not plain type names).
func IsGeneric(f *ast.File) bool {
	generic := false
	ast.Inspect(f, func(n ast.Node) bool {
		if generic {
			return false
		}
		switch n := n.(type) {
		case *ast.FuncType:
			generic = n.TypeParams != nil
		case *ast.TypeSpec:
			generic = n.TypeParams != nil
		case *ast.IndexListExpr:
			generic = true
		case *ast.UnaryExpr:
			generic = n.Op == token.TILDE
		case *ast.InterfaceType:
			if n.Methods != nil {
				for _, m := range n.Methods.List {
					if len(m.Names) == 0 {
						switch stripParens(m.Type).(type) {
						case *ast.Ident, *ast.SelectorExpr:
						default:
							generic = true
						}
					}
				}
			}
		}
		return !generic
	})
	return generic
}

// HasExtensionText reports whether src contains text that gomacro's scanner/parser
// treat differently from Go: the macro character '~', '#', or the words macro /
// template as identifiers (DESIGN.md 3.5). Cheap and conservative (also true when
// they only occur in comments or strings).
func HasExtensionText(src []byte) bool {
	if bytes.IndexByte(src, '~') >= 0 || bytes.IndexByte(src, '#') >= 0 {
		return true
	}
	for _, w := range [][]byte{[]byte("macro"), []byte("template")} {
		for i := 0; ; {
			k := bytes.Index(src[i:], w)
			if k < 0 {
				break
			}
			k += i
			before := k == 0 || !isIdentByte(src[k-1])
			after := k+len(w) == len(src) || !isIdentByte(src[k+len(w)])
			if before && after {
				return true
			}
			i = k + len(w)
		}
	}
	return false
}

func isIdentByte(c byte) bool {
	return c == '_' || c >= 0x80 || (c >= '0' && c <= '9') || (c >= 'a' && c <= 'z') || (c >= 'A' && c <= 'Z')
}

// ReadFile is os.ReadFile; corpus files that vanish are reported, not ignored.
func ReadFile(path string) ([]byte, error) { return os.ReadFile(path) }

// HasControlByteLiteral reports whether src (scanned with the standard scanner) holds a
// rune literal or an interpreted string literal containing a raw control byte (< 0x20
// or 0x7f, e.g. an actual TAB), or a backquoted string containing a control byte other
// than TAB and newline: literals whose text a formatter is most likely to damage.
func HasControlByteLiteral(src []byte) bool {
	var s scanner.Scanner
	fset := token.NewFileSet()
	s.Init(fset.AddFile("x.go", -1, len(src)), src, func(token.Position, string) {}, 0)
	for {
		_, tok, lit := s.Scan()
		if tok == token.EOF {
			return false
		}
		if tok != token.CHAR && tok != token.STRING {
			continue
		}
		raw := lit[0] == '`'
		for i := 0; i < len(lit); i++ {
			c := lit[i]
			if (c < 0x20 || c == 0x7f) && !(raw && (c == '\n' || c == '\t')) {
				return true
			}
		}
	}
}

var (
	ctlOnce  sync.Once
	ctlFiles []string
)

// ControlByteLiteralFiles returns, sorted, the corpus files for which
// HasControlByteLiteral holds (found by scanning the whole corpus once per process, about
// 2 s; 10 files in Go 1.23.5 + gomacro). Checks about printing add them to every sample.
func ControlByteLiteralFiles() []string {
	ctlOnce.Do(func() {
		for _, path := range CorpusFiles() {
			src, err := os.ReadFile(path)
			if err == nil && HasControlByteLiteral(src) {
				ctlFiles = append(ctlFiles, path)
			}
		}
	})
	return append([]string(nil), ctlFiles...)
}

// Union merges sorted-or-not path lists into one sorted list without duplicates.
func Union(lists ...[]string) []string {
	seen := map[string]bool{}
	var out []string
	for _, l := range lists {
		for _, f := range l {
			if !seen[f] {
				seen[f] = true
				out = append(out, f)
			}
		}
	}
	sort.Strings(out)
	return out
}
