package astx

import (
	"go/ast"
	"go/token"
	"sort"

	"github.com/cosmos72/gomacro/go/etoken"
	"pgregory.net/rapid"
)

// Config steers the tree generator.
type Config struct {
	// MaxDepth bounds the nesting of generated nodes (0 means 4).
	MaxDepth int
	// Syntactic: only shapes that the Go grammar produces (mandatory children present,
	// operators valid for the node, parentheses where precedence requires them), so
	// that printing the tree with the standard go/printer nearly always yields text that
	// parses. Off: "structurally valid" trees for wrapper checks (C22): any child of the
	// right interface class, nil optional children, nil and empty lists, Bad* nodes,
	// arbitrary tokens.
	Syntactic bool
	// Extensions: include gomacro's encodings of its syntax extensions, built as the
	// forked parser builds them (DESIGN.md 3.4): quote family and block expressions as
	// UnaryExpr{Op, X: FuncLit}, macro declarations (FuncDecl with empty non-nil Recv),
	// `package` as GenDecl{Tok: PACKAGE}, generic declarations (second receiver /
	// CompositeLit in TypeSpec.Type), Foo#[T] as IndexExpr{Index: CompositeLit},
	// case clauses, imports and function declarations in statement lists.
	Extensions bool
}

// validPos is what the generator stores in position fields that act as flags.
const validPos = token.Pos(1)

// G is a generator bound to one rapid test case.
type G struct {
	t   *rapid.T
	cfg Config
	n   int
}

// NewG binds a generator to the running rapid case.
func NewG(t *rapid.T, cfg Config) *G {
	if cfg.MaxDepth <= 0 {
		cfg.MaxDepth = 4
	}
	return &G{t: t, cfg: cfg}
}

// Kinds of top-level node Node can be asked for.
const (
	AnyNode = iota
	ExprNode
	StmtNode
	DeclNode
)

// Node draws one tree. kind: AnyNode (any class, including Field, FieldList, specs,
// clauses and File), ExprNode, StmtNode or DeclNode.
func (g *G) Node(kind int) ast.Node {
	d := g.cfg.MaxDepth
	switch kind {
	case ExprNode:
		return g.Expr(d)
	case StmtNode:
		return g.Stmt(d)
	case DeclNode:
		return g.Decl(d)
	}
	switch g.pick("class", 12) {
	case 0, 1, 2:
		return g.Expr(d)
	case 3, 4, 5:
		return g.Stmt(d)
	case 6, 7:
		return g.Decl(d)
	case 8:
		return g.Type(d)
	case 9:
		return g.File(d)
	case 10:
		switch g.pick("misc", 4) {
		case 0:
			return g.Field(d, true)
		case 1:
			return g.FieldList(d, true)
		case 2:
			return g.CaseClause(d, false)
		default:
			return g.CommClause(d)
		}
	default:
		switch g.pick("spec", 3) {
		case 0:
			return g.ImportSpec()
		case 1:
			return g.ValueSpec(d)
		default:
			return g.TypeSpec(d)
		}
	}
}

// Decls draws a list of n declarations forming the body of a file (Syntactic mode:
// printable after `package p`).
func (g *G) Decls(n int) []ast.Decl {
	out := make([]ast.Decl, n)
	for i := range out {
		out[i] = g.Decl(g.cfg.MaxDepth)
	}
	if g.cfg.Syntactic { // imports must come first in a file
		sort.SliceStable(out, func(i, j int) bool { return isImport(out[i]) && !isImport(out[j]) })
	}
	return out
}

func isImport(d ast.Decl) bool {
	gd, ok := d.(*ast.GenDecl)
	return ok && gd.Tok == token.IMPORT
}

func (g *G) pick(label string, n int) int {
	g.n++
	return rapid.IntRange(0, n-1).Draw(g.t, label)
}

func (g *G) flip(label string) bool { return rapid.Bool().Draw(g.t, label) }

// opt is true when an optional child is to be present.
func (g *G) opt(label string) bool { return g.pick(label, 3) != 0 }

var identPool = []string{"a", "b", "c", "x", "y", "f", "g", "T", "U", "s", "m", "ch", "err", "_", "nil", "int", "string", "Ünï"}
var typeNames = []string{"int", "string", "T", "U", "bool", "error", "byte", "float64"}

func (g *G) Ident() *ast.Ident {
	return &ast.Ident{Name: rapid.SampledFrom(identPool).Draw(g.t, "ident")}
}

func (g *G) name() *ast.Ident { // identifier that is never a keyword-like predeclared name
	return &ast.Ident{Name: rapid.SampledFrom([]string{"a", "b", "c", "x", "y", "f", "g", "s", "m", "ch", "err"}).Draw(g.t, "name")}
}

func (g *G) typeName() *ast.Ident {
	return &ast.Ident{Name: rapid.SampledFrom(typeNames).Draw(g.t, "tname")}
}

type lit struct {
	kind token.Token
	text string
}

var litPool = []lit{
	{token.INT, "0"}, {token.INT, "1"}, {token.INT, "42"}, {token.INT, "0x7f"}, {token.INT, "0b101"}, {token.INT, "1_000"}, {token.INT, "0o17"},
	{token.FLOAT, "1.5"}, {token.FLOAT, "1e9"}, {token.FLOAT, "0x1p-2"}, {token.FLOAT, ".5"},
	{token.IMAG, "2i"}, {token.IMAG, "1.5i"},
	{token.CHAR, "'a'"}, {token.CHAR, `'\n'`}, {token.CHAR, `'\''`}, {token.CHAR, `'\u00e9'`},
	{token.STRING, `"s"`}, {token.STRING, `""`}, {token.STRING, "`raw\\n`"}, {token.STRING, `"a\"b\x00"`}, {token.STRING, "`two\nlines`"},
}

func (g *G) BasicLit() *ast.BasicLit {
	pool := litPool
	if g.pick("lit-hostile", 3) == 0 {
		pool = hostileLits
	}
	l := rapid.SampledFrom(pool).Draw(g.t, "lit")
	return &ast.BasicLit{Kind: l.kind, Value: l.text}
}

func (g *G) stringLit() *ast.BasicLit {
	return &ast.BasicLit{Kind: token.STRING, Value: rapid.SampledFrom(stringLitPool).Draw(g.t, "strlit")}
}

var binaryOps = []token.Token{
	token.ADD, token.SUB, token.MUL, token.QUO, token.REM, token.AND, token.OR, token.XOR, token.SHL, token.SHR, token.AND_NOT,
	token.LAND, token.LOR, token.EQL, token.NEQ, token.LSS, token.LEQ, token.GTR, token.GEQ,
}
var unaryOps = []token.Token{token.ADD, token.SUB, token.NOT, token.XOR, token.AND, token.ARROW}
var assignOps = []token.Token{
	token.ASSIGN, token.DEFINE, token.ADD_ASSIGN, token.SUB_ASSIGN, token.MUL_ASSIGN, token.QUO_ASSIGN, token.REM_ASSIGN,
	token.AND_ASSIGN, token.OR_ASSIGN, token.XOR_ASSIGN, token.SHL_ASSIGN, token.SHR_ASSIGN, token.AND_NOT_ASSIGN,
}
var quoteOps = []token.Token{etoken.QUOTE, etoken.QUASIQUOTE, etoken.UNQUOTE, etoken.UNQUOTE_SPLICE}

// anyTokens: used in non-syntactic mode to make sure New() copies the token rather
// than assuming one.
var anyTokens = []token.Token{token.ILLEGAL, token.ADD, token.ARROW, token.DEFINE, token.VAR, token.CONST, token.IMPORT, token.TYPE, token.GOTO, token.INC, etoken.QUOTE, etoken.MACRO}

func (g *G) tok(label string, valid []token.Token) token.Token {
	if !g.cfg.Syntactic && g.pick(label+"-any", 8) == 0 {
		return rapid.SampledFrom(anyTokens).Draw(g.t, label)
	}
	return rapid.SampledFrom(valid).Draw(g.t, label)
}

// ---------------------------------------------------------------- expressions

func (g *G) exprs(d int, label string, min, max int) []ast.Expr {
	n := rapid.IntRange(min, max).Draw(g.t, label)
	if n == 0 {
		if g.cfg.Syntactic || g.flip(label+"-nil") {
			return nil
		}
		return []ast.Expr{}
	}
	out := make([]ast.Expr, n)
	for i := range out {
		out[i] = g.Expr(d)
	}
	return out
}

// optExpr: optional child; absent is a nil interface.
func (g *G) optExpr(d int, label string) ast.Expr {
	if g.opt(label) {
		return g.Expr(d)
	}
	return nil
}

func (g *G) leafExpr() ast.Expr {
	if g.flip("leaf-lit") {
		return g.BasicLit()
	}
	return g.Ident()
}

// Expr draws an expression of nesting depth <= d.
func (g *G) Expr(d int) ast.Expr {
	if d <= 0 {
		return g.leafExpr()
	}
	d--
	n := 17
	if g.cfg.Extensions {
		n = 20
	}
	if !g.cfg.Syntactic {
		n += 3
	}
	switch k := g.pick("expr", n); k {
	case 0:
		return g.leafExpr()
	case 1:
		return g.binary(d)
	case 2:
		op := g.tok("unop", unaryOps)
		x := g.Expr(d)
		if g.cfg.Syntactic {
			x = g.parenUnlessPrimary(x)
		}
		return &ast.UnaryExpr{Op: op, X: x}
	case 3:
		return &ast.ParenExpr{X: g.Expr(d)}
	case 4:
		return &ast.SelectorExpr{X: g.operand(d), Sel: g.name()}
	case 5:
		return &ast.IndexExpr{X: g.operand(d), Index: g.Expr(d)}
	case 6:
		s := &ast.SliceExpr{X: g.operand(d), Low: g.optExpr(d, "lo"), High: g.optExpr(d, "hi")}
		if g.pick("slice3", 3) == 0 {
			s.Slice3 = true
			s.Max = g.Expr(d)
			if g.cfg.Syntactic && s.High == nil {
				s.High = g.Expr(d)
			}
		}
		return s
	case 7:
		ta := &ast.TypeAssertExpr{X: g.operand(d)}
		if g.cfg.Syntactic || g.opt("assert-type") {
			ta.Type = g.Type(d) // nil Type is x.(type), generated in TypeSwitchStmt
		}
		return ta
	case 8, 9:
		return g.Call(d)
	case 10:
		x := g.Expr(d)
		if g.cfg.Syntactic {
			x = g.parenUnlessPrimary(x)
		}
		return &ast.StarExpr{X: x}
	case 11, 12:
		return g.CompositeLit(d, true)
	case 13:
		return g.FuncLit(d)
	case 14:
		// conversion with a type that needs parentheses, or a method expression
		switch g.pick("conv", 3) {
		case 0:
			return &ast.CallExpr{Fun: &ast.ParenExpr{X: &ast.StarExpr{X: g.typeName()}}, Args: []ast.Expr{g.Expr(d)}}
		case 1:
			return &ast.SelectorExpr{X: &ast.ParenExpr{X: &ast.StarExpr{X: g.typeName()}}, Sel: g.name()}
		default:
			fun := g.Type(d)
			if g.cfg.Syntactic && endsInFuncType(fun) {
				// `[]func()(x)` reads (x) as the result list: valid Go writes ([]func())(x)
				fun = &ast.ParenExpr{X: fun}
			}
			return &ast.CallExpr{Fun: fun, Args: []ast.Expr{g.Expr(d)}}
		}
	case 15:
		if g.cfg.Syntactic {
			return g.binary(d)
		}
		return g.Type(d)
	case 16:
		if g.cfg.Syntactic {
			return g.leafExpr()
		}
		return &ast.KeyValueExpr{Key: g.Expr(d), Value: g.Expr(d)}
	default:
		k -= 17
		if g.cfg.Extensions {
			switch k {
			case 0:
				return g.Quote(d)
			case 1: // block inside an expression: MACRO func() { block }
				return &ast.UnaryExpr{Op: etoken.MACRO, X: &ast.FuncLit{Type: &ast.FuncType{Params: &ast.FieldList{}}, Body: g.Block(d, 0, 3)}}
			case 2: // Foo#[T1, T2]
				return &ast.IndexExpr{X: g.operand(d), Index: g.genericParams(d, false)}
			}
			k -= 3
		}
		switch k { // non-syntactic only
		case 0:
			return &ast.BadExpr{}
		case 1:
			return &ast.Ellipsis{Elt: g.optExpr(d, "ellipsis-elt")}
		default:
			return &ast.KeyValueExpr{Key: g.Expr(d), Value: g.Expr(d)}
		}
	}
}

// endsInFuncType: a type literal whose rightmost component is a function type (so that a
// following "(" would be read as part of its signature).
func endsInFuncType(x ast.Expr) bool {
	switch t := x.(type) {
	case *ast.FuncType:
		return true
	case *ast.ArrayType:
		return endsInFuncType(t.Elt)
	case *ast.MapType:
		return endsInFuncType(t.Value)
	case *ast.StarExpr:
		return endsInFuncType(t.X)
	case *ast.ChanType:
		return true // `chan T(x)`, `<-chan T(x)` need the parentheses as well
	}
	return false
}

func precedence(e ast.Expr) int {
	if b, ok := e.(*ast.BinaryExpr); ok {
		return b.Op.Precedence()
	}
	return token.HighestPrec
}

func (g *G) binary(d int) ast.Expr {
	op := g.tok("binop", binaryOps)
	x, y := g.Expr(d), g.Expr(d)
	if g.cfg.Syntactic {
		p := op.Precedence()
		if precedence(x) < p {
			x = &ast.ParenExpr{X: x}
		}
		if precedence(y) <= p {
			y = &ast.ParenExpr{X: y}
		}
		x, y = g.parenType(x), g.parenType(y)
	}
	return &ast.BinaryExpr{X: x, Op: op, Y: y}
}

// parenUnlessPrimary wraps what cannot follow a unary operator without changing the parse.
func (g *G) parenUnlessPrimary(x ast.Expr) ast.Expr {
	switch x.(type) {
	case *ast.BinaryExpr, *ast.KeyValueExpr:
		return &ast.ParenExpr{X: x}
	}
	return g.parenType(x)
}

// parenType parenthesises type literals used as operands (`*T`, `chan T`, `func()`).
func (g *G) parenType(x ast.Expr) ast.Expr {
	switch x.(type) {
	case *ast.ChanType, *ast.FuncType, *ast.ArrayType, *ast.MapType, *ast.StructType, *ast.InterfaceType:
		return &ast.ParenExpr{X: x}
	}
	return x
}

// operand: expression usable on the left of a selector / index / call.
func (g *G) operand(d int) ast.Expr {
	x := g.Expr(d)
	if !g.cfg.Syntactic {
		return x
	}
	switch x.(type) {
	case *ast.BinaryExpr, *ast.UnaryExpr, *ast.StarExpr, *ast.KeyValueExpr, *ast.FuncLit,
		*ast.ChanType, *ast.FuncType, *ast.ArrayType, *ast.MapType, *ast.StructType, *ast.InterfaceType:
		return &ast.ParenExpr{X: x}
	}
	return x
}

func (g *G) Call(d int) *ast.CallExpr {
	c := &ast.CallExpr{Fun: g.operand(d), Args: g.exprs(d, "nargs", 0, 3)}
	if (len(c.Args) > 0 || !g.cfg.Syntactic) && g.pick("variadic", 4) == 0 {
		c.Ellipsis = validPos
		if g.cfg.Syntactic {
			// the spread argument of valid Go is a slice-valued expression, never a literal
			switch g.pick("spread", 3) {
			case 0:
				c.Args[len(c.Args)-1] = g.name()
			case 1:
				c.Args[len(c.Args)-1] = &ast.SliceExpr{X: g.name(), Low: g.BasicLit()}
			default:
				c.Args[len(c.Args)-1] = &ast.CompositeLit{Type: &ast.ArrayType{Elt: g.typeName()}, Elts: g.exprs(d, "spread-elts", 0, 2)}
			}
		}
	}
	return c
}

func (g *G) CompositeLit(d int, typed bool) *ast.CompositeLit {
	c := &ast.CompositeLit{}
	if typed || g.flip("complit-typed") {
		switch g.pick("complit-type", 5) {
		case 0:
			c.Type = g.typeName()
		case 1:
			c.Type = &ast.ArrayType{Elt: g.Type(d)}
		case 2:
			c.Type = &ast.ArrayType{Len: &ast.Ellipsis{}, Elt: g.typeName()}
		case 3:
			c.Type = &ast.MapType{Key: g.typeName(), Value: g.Type(d)}
		default:
			c.Type = &ast.SelectorExpr{X: g.name(), Sel: g.typeName()}
		}
	}
	n := rapid.IntRange(0, 3).Draw(g.t, "nelts")
	keyed := g.flip("keyed")
	for i := 0; i < n; i++ {
		var e ast.Expr
		if d > 0 && g.pick("elt-lit", 4) == 0 {
			e = g.CompositeLit(d-1, false)
		} else {
			e = g.Expr(d)
		}
		if keyed {
			e = &ast.KeyValueExpr{Key: g.leafExpr(), Value: e}
		}
		c.Elts = append(c.Elts, e)
	}
	if n == 0 && !g.cfg.Syntactic && g.flip("elts-empty") {
		c.Elts = []ast.Expr{}
	}
	if !g.cfg.Syntactic && g.pick("incomplete", 6) == 0 {
		c.Incomplete = true
	}
	return c
}

func (g *G) FuncLit(d int) *ast.FuncLit {
	return &ast.FuncLit{Type: g.FuncType(d), Body: g.Block(d, 0, 3)}
}

// Quote builds op{...} exactly as parser.MakeQuote does.
func (g *G) Quote(d int) *ast.UnaryExpr {
	op := rapid.SampledFrom(quoteOps).Draw(g.t, "quote-op")
	var body *ast.BlockStmt
	switch g.pick("quote-body", 4) {
	case 0: // quote of one expression: block holding one ExprStmt
		body = &ast.BlockStmt{List: []ast.Stmt{&ast.ExprStmt{X: g.Expr(d)}}}
	case 1: // empty: non-nil empty list, as MakeQuote makes it
		body = &ast.BlockStmt{List: make([]ast.Stmt, 0)}
	default:
		body = g.quotedBlock(d)
	}
	return &ast.UnaryExpr{Op: op, X: &ast.FuncLit{Type: &ast.FuncType{Params: &ast.FieldList{}}, Body: body}}
}

// quotedBlock: a block as parseBlockStmtQuoted accepts it: case clauses and `package`
// may appear directly in the statement list.
func (g *G) quotedBlock(d int) *ast.BlockStmt {
	b := g.Block(d, 0, 3)
	switch g.pick("quoted-extra", 4) {
	case 0:
		b.List = append(b.List, g.CaseClause(d, false))
	case 1:
		b.List = append(b.List, &ast.DeclStmt{Decl: g.packageDecl()})
	}
	return b
}

// ---------------------------------------------------------------- types

// Type draws a type expression.
func (g *G) Type(d int) ast.Expr {
	if d <= 0 {
		return g.typeName()
	}
	d--
	switch g.pick("type", 11) {
	case 0, 1:
		return g.typeName()
	case 2:
		return &ast.SelectorExpr{X: g.name(), Sel: g.typeName()}
	case 3:
		return &ast.StarExpr{X: g.Type(d)}
	case 4:
		a := &ast.ArrayType{Elt: g.Type(d)}
		if g.flip("array-len") {
			a.Len = g.leafExpr()
		}
		return a
	case 5:
		return &ast.MapType{Key: g.Type(d), Value: g.Type(d)}
	case 6:
		c := &ast.ChanType{Dir: rapid.SampledFrom([]ast.ChanDir{ast.SEND, ast.RECV, ast.SEND | ast.RECV}).Draw(g.t, "chandir"), Value: g.Type(d)}
		if !g.cfg.Syntactic && g.pick("chandir0", 8) == 0 {
			c.Dir = 0
		}
		if g.cfg.Syntactic {
			// `chan (<-chan T)`: the printer must keep the element apart from the arrow
			if v, ok := c.Value.(*ast.ChanType); ok && v.Dir == ast.RECV && c.Dir != ast.RECV {
				c.Value = &ast.ParenExpr{X: v}
			}
		}
		return c
	case 7:
		return g.FuncType(d)
	case 8:
		return g.StructType(d)
	case 9:
		return g.InterfaceType(d)
	default:
		return &ast.ParenExpr{X: g.Type(d)}
	}
}

func (g *G) FuncType(d int) *ast.FuncType {
	ft := &ast.FuncType{Params: g.FieldList(d, false)}
	if g.cfg.Syntactic {
		ft.Func = validPos // a FuncType without `func` position is printed as a signature only
	}
	if ft.Params == nil && g.cfg.Syntactic {
		ft.Params = &ast.FieldList{}
	}
	if g.opt("results") {
		ft.Results = g.FieldList(d, false)
	}
	if !g.cfg.Syntactic && g.pick("params-nil", 6) == 0 {
		ft.Params = nil
	}
	return ft
}

// Field draws a field / parameter. any: names, type and tag all optional.
func (g *G) Field(d int, tagged bool) *ast.Field {
	f := &ast.Field{Type: g.Type(d)}
	for i, n := 0, rapid.IntRange(0, 2).Draw(g.t, "nnames"); i < n; i++ {
		f.Names = append(f.Names, g.name())
	}
	if tagged && g.pick("tag", 3) == 0 {
		f.Tag = g.stringLit()
	}
	if !g.cfg.Syntactic {
		switch g.pick("field-odd", 8) {
		case 0:
			f.Type = nil
		case 1:
			f.Names = []*ast.Ident{}
		}
	}
	return f
}

// FieldList draws a parameter / field list. In Syntactic mode either all fields are
// named or none is (Go requires it for parameters).
func (g *G) FieldList(d int, tagged bool) *ast.FieldList {
	fl := &ast.FieldList{}
	n := rapid.IntRange(0, 3).Draw(g.t, "nfields")
	named := g.flip("named")
	for i := 0; i < n; i++ {
		f := g.Field(d, tagged)
		if g.cfg.Syntactic {
			if named && len(f.Names) == 0 {
				f.Names = []*ast.Ident{g.name()}
			} else if !named {
				f.Names = nil
			}
		}
		fl.List = append(fl.List, f)
	}
	if !g.cfg.Syntactic && n == 0 && g.flip("fields-empty") {
		fl.List = []*ast.Field{}
	}
	if n > 0 || g.flip("fieldlist-parens") {
		fl.Opening, fl.Closing = validPos, validPos
	}
	return fl
}

func (g *G) StructType(d int) *ast.StructType {
	st := &ast.StructType{Fields: &ast.FieldList{}}
	for i, n := 0, rapid.IntRange(0, 3).Draw(g.t, "nsfields"); i < n; i++ {
		f := g.Field(d, true)
		if g.cfg.Syntactic && len(f.Names) == 0 {
			// embedded field: type name or pointer to type name only
			if g.flip("embed-ptr") {
				f.Type = &ast.StarExpr{X: g.typeName()}
			} else {
				f.Type = g.typeName()
			}
		}
		st.Fields.List = append(st.Fields.List, f)
	}
	if !g.cfg.Syntactic {
		switch g.pick("struct-odd", 8) {
		case 0:
			st.Fields = nil
		case 1:
			st.Incomplete = true
		}
	}
	return st
}

func (g *G) InterfaceType(d int) *ast.InterfaceType {
	it := &ast.InterfaceType{Methods: &ast.FieldList{}}
	for i, n := 0, rapid.IntRange(0, 3).Draw(g.t, "nmethods"); i < n; i++ {
		if g.flip("embedded-iface") {
			it.Methods.List = append(it.Methods.List, &ast.Field{Type: g.typeName()})
		} else {
			ft := g.FuncType(d)
			ft.Func = token.NoPos
			if ft.Params == nil {
				ft.Params = &ast.FieldList{}
			}
			it.Methods.List = append(it.Methods.List, &ast.Field{Names: []*ast.Ident{g.name()}, Type: ft})
		}
	}
	if !g.cfg.Syntactic {
		switch g.pick("iface-odd", 8) {
		case 0:
			it.Methods = nil
		case 1:
			it.Incomplete = true
		}
	}
	return it
}

// genericParams: [T1, T2] stored in a CompositeLit, as parseGenericParams does;
// withFor adds the `for [...]` specialisation (BadExpr marker + nested CompositeLit).
func (g *G) genericParams(d int, withFor bool) *ast.CompositeLit {
	c := &ast.CompositeLit{}
	for i, n := 0, rapid.IntRange(0, 3).Draw(g.t, "ntparams"); i < n; i++ {
		var e ast.Expr = g.Type(d)
		if g.pick("cti", 4) == 0 {
			e = &ast.KeyValueExpr{Key: g.typeName(), Value: g.Type(d)}
		}
		c.Elts = append(c.Elts, e)
	}
	if withFor && g.pick("specialize", 3) == 0 {
		c.Elts = append(c.Elts, &ast.BadExpr{}, &ast.CompositeLit{Elts: []ast.Expr{g.Type(d)}})
	}
	return c
}

// ---------------------------------------------------------------- statements

func (g *G) stmts(d int, min, max int) []ast.Stmt {
	n := rapid.IntRange(min, max).Draw(g.t, "nstmts")
	if n == 0 {
		if g.cfg.Syntactic || g.flip("stmts-nil") {
			return nil
		}
		return []ast.Stmt{}
	}
	out := make([]ast.Stmt, n)
	for i := range out {
		out[i] = g.Stmt(d)
	}
	return out
}

// Block draws a block with min..max statements.
func (g *G) Block(d int, min, max int) *ast.BlockStmt {
	if d < 0 {
		d = 0
	}
	return &ast.BlockStmt{List: g.stmts(d, min, max)}
}

// simpleStmt: what may appear as Init / Post of if, for, switch.
func (g *G) simpleStmt(d int) ast.Stmt {
	switch g.pick("simple", 5) {
	case 0:
		return &ast.ExprStmt{X: g.Call(d)}
	case 1:
		return &ast.IncDecStmt{X: g.name(), Tok: g.tok("incdec", []token.Token{token.INC, token.DEC})}
	case 2:
		return &ast.SendStmt{Chan: g.name(), Value: g.headerExpr(d)}
	default:
		return g.Assign(d, true)
	}
}

func (g *G) Assign(d int, header bool) *ast.AssignStmt {
	op := g.tok("assignop", assignOps)
	n := 1
	if op == token.ASSIGN || op == token.DEFINE || !g.cfg.Syntactic {
		n = rapid.IntRange(1, 2).Draw(g.t, "nlhs")
	}
	a := &ast.AssignStmt{Tok: op}
	for i := 0; i < n; i++ {
		if op == token.DEFINE && g.cfg.Syntactic {
			a.Lhs = append(a.Lhs, g.name())
		} else {
			a.Lhs = append(a.Lhs, g.operand(d))
		}
		if header {
			a.Rhs = append(a.Rhs, g.headerExpr(d))
		} else {
			a.Rhs = append(a.Rhs, g.Expr(d))
		}
	}
	if n == 2 && g.flip("rhs-one") {
		a.Rhs = a.Rhs[:1]
	}
	return a
}

// headerExpr: an expression for an if/for/switch header. In Syntactic mode a composite
// literal whose type is a plain name must be parenthesised there.
func (g *G) headerExpr(d int) ast.Expr {
	x := g.Expr(d)
	if g.cfg.Syntactic && hasBareCompositeLit(x) {
		return &ast.ParenExpr{X: x}
	}
	return x
}

// hasBareCompositeLit: a composite literal outside parentheses / brackets / braces
// reachable along the expression spine (what confuses the parser before `{`).
func hasBareCompositeLit(x ast.Expr) bool {
	switch x := x.(type) {
	case *ast.CompositeLit:
		return true
	case *ast.BinaryExpr:
		return hasBareCompositeLit(x.X) || hasBareCompositeLit(x.Y)
	case *ast.UnaryExpr:
		return hasBareCompositeLit(x.X)
	case *ast.StarExpr:
		return hasBareCompositeLit(x.X)
	case *ast.SelectorExpr:
		return hasBareCompositeLit(x.X)
	case *ast.IndexExpr:
		return hasBareCompositeLit(x.X)
	case *ast.SliceExpr:
		return hasBareCompositeLit(x.X)
	case *ast.TypeAssertExpr:
		return hasBareCompositeLit(x.X)
	case *ast.CallExpr:
		return hasBareCompositeLit(x.Fun)
	case *ast.KeyValueExpr:
		return hasBareCompositeLit(x.Key) || hasBareCompositeLit(x.Value)
	case *ast.FuncLit, *ast.ParenExpr:
		return false
	case *ast.ArrayType, *ast.MapType, *ast.ChanType, *ast.FuncType, *ast.StructType, *ast.InterfaceType:
		return true // a type literal before `{` is read as a composite literal
	}
	return false
}

func (g *G) optSimple(d int, label string) ast.Stmt {
	if g.pick(label, 3) == 0 {
		return g.simpleStmt(d)
	}
	return nil
}

// Stmt draws a statement of nesting depth <= d.
func (g *G) Stmt(d int) ast.Stmt {
	if d <= 0 {
		if g.flip("leaf-stmt") {
			return &ast.ExprStmt{X: g.Call(0)}
		}
		return g.Assign(0, false)
	}
	d--
	n := 21
	if g.cfg.Extensions {
		n = 24
	}
	if !g.cfg.Syntactic {
		n += 2
	}
	switch k := g.pick("stmt", n); k {
	case 0:
		return &ast.ExprStmt{X: g.Call(d)}
	case 1:
		if g.cfg.Syntactic {
			// only calls, receives and parenthesised expressions are expression statements
			return &ast.ExprStmt{X: &ast.UnaryExpr{Op: token.ARROW, X: g.name()}}
		}
		return &ast.ExprStmt{X: g.Expr(d)}
	case 2, 3:
		return g.Assign(d, false)
	case 4:
		return &ast.IncDecStmt{X: g.operand(d), Tok: g.tok("incdec", []token.Token{token.INC, token.DEC})}
	case 5:
		return &ast.SendStmt{Chan: g.operand(d), Value: g.Expr(d)}
	case 6:
		return &ast.GoStmt{Call: g.Call(d)}
	case 7:
		return &ast.DeferStmt{Call: g.Call(d)}
	case 8:
		return &ast.ReturnStmt{Results: g.exprs(d, "nresults", 0, 2)}
	case 9:
		b := &ast.BranchStmt{Tok: g.tok("branch", []token.Token{token.BREAK, token.CONTINUE, token.GOTO, token.FALLTHROUGH})}
		if b.Tok == token.GOTO || (b.Tok != token.FALLTHROUGH && g.flip("branch-label")) {
			b.Label = g.name()
		}
		return b
	case 10:
		return g.Block(d, 0, 3)
	case 11, 12:
		return g.If(d)
	case 13:
		f := &ast.ForStmt{Init: g.optSimple(d, "for-init"), Post: g.optSimple(d, "for-post"), Body: g.Block(d, 0, 3)}
		if g.opt("for-cond") {
			f.Cond = g.headerExpr(d)
		}
		if g.cfg.Syntactic {
			if a, ok := f.Post.(*ast.AssignStmt); ok && a.Tok == token.DEFINE {
				a.Tok = token.ASSIGN
			}
		}
		return f
	case 14:
		r := &ast.RangeStmt{X: g.headerExpr(d), Body: g.Block(d, 0, 3)}
		switch g.pick("range-vars", 3) {
		case 1:
			r.Key = g.name()
		case 2:
			r.Key, r.Value = g.name(), g.name()
		}
		if r.Key != nil {
			r.Tok = g.tok("range-tok", []token.Token{token.ASSIGN, token.DEFINE})
		} else if !g.cfg.Syntactic {
			r.Tok = g.tok("range-tok0", []token.Token{token.ILLEGAL, token.DEFINE})
		}
		return r
	case 15:
		s := &ast.SwitchStmt{Init: g.optSimple(d, "switch-init"), Body: &ast.BlockStmt{}}
		if g.opt("switch-tag") {
			s.Tag = g.headerExpr(d)
		}
		for i, n := 0, rapid.IntRange(0, 3).Draw(g.t, "ncases"); i < n; i++ {
			s.Body.List = append(s.Body.List, g.CaseClause(d, false))
		}
		return s
	case 16:
		ts := &ast.TypeSwitchStmt{Init: g.optSimple(d, "tswitch-init"), Body: &ast.BlockStmt{}}
		guard := &ast.TypeAssertExpr{X: g.operand(d)}
		if g.cfg.Syntactic {
			if hasBareCompositeLit(guard.X) {
				guard.X = &ast.ParenExpr{X: guard.X}
			}
		}
		if g.flip("tswitch-bind") {
			ts.Assign = &ast.AssignStmt{Lhs: []ast.Expr{g.name()}, Tok: token.DEFINE, Rhs: []ast.Expr{guard}}
		} else {
			ts.Assign = &ast.ExprStmt{X: guard}
		}
		for i, n := 0, rapid.IntRange(0, 3).Draw(g.t, "ntcases"); i < n; i++ {
			ts.Body.List = append(ts.Body.List, g.CaseClause(d, true))
		}
		return ts
	case 17:
		s := &ast.SelectStmt{Body: &ast.BlockStmt{}}
		for i, n := 0, rapid.IntRange(0, 3).Draw(g.t, "ncomm"); i < n; i++ {
			s.Body.List = append(s.Body.List, g.CommClause(d))
		}
		return s
	case 18:
		return &ast.LabeledStmt{Label: g.name(), Stmt: g.Stmt(d)}
	case 19:
		return &ast.DeclStmt{Decl: g.GenDecl(d, false)}
	case 20:
		if g.cfg.Syntactic {
			return g.If(d)
		}
		return &ast.EmptyStmt{Implicit: g.flip("implicit")}
	default:
		k -= 21
		if g.cfg.Extensions {
			switch k {
			case 0:
				return &ast.ExprStmt{X: g.Quote(d)}
			case 1: // ~func declaration / import inside a statement list
				if g.flip("stmt-import") {
					return &ast.DeclStmt{Decl: &ast.GenDecl{Tok: token.IMPORT, Specs: []ast.Spec{g.ImportSpec()}}}
				}
				return &ast.DeclStmt{Decl: g.FuncDecl(d)}
			case 2: // macro call: identifier followed by its arguments as statements
				return &ast.ExprStmt{X: g.name()}
			}
			k -= 3
		}
		if k == 0 {
			return &ast.BadStmt{}
		}
		return &ast.EmptyStmt{Implicit: g.flip("implicit")}
	}
}

func (g *G) If(d int) *ast.IfStmt {
	s := &ast.IfStmt{Init: g.optSimple(d, "if-init"), Cond: g.headerExpr(d), Body: g.Block(d, 0, 3)}
	switch g.pick("else", 4) {
	case 0:
		s.Else = g.Block(d, 0, 2)
	case 1:
		if d > 0 {
			s.Else = g.If(d - 1)
		}
	case 2:
		if !g.cfg.Syntactic {
			s.Else = g.Stmt(d) // `else stmt`: what the macro-expansion walk leaves behind
		}
	}
	return s
}

func (g *G) CaseClause(d int, types bool) *ast.CaseClause {
	c := &ast.CaseClause{Body: g.stmts(d, 0, 2)}
	for i, n := 0, rapid.IntRange(0, 2).Draw(g.t, "ncasevals"); i < n; i++ {
		if types {
			c.List = append(c.List, g.Type(d))
		} else {
			c.List = append(c.List, g.Expr(d))
		}
	}
	return c
}

func (g *G) CommClause(d int) *ast.CommClause {
	c := &ast.CommClause{Body: g.stmts(d, 0, 2)}
	switch g.pick("comm", 4) {
	case 0:
		c.Comm = &ast.SendStmt{Chan: g.name(), Value: g.Expr(d)}
	case 1:
		c.Comm = &ast.ExprStmt{X: &ast.UnaryExpr{Op: token.ARROW, X: g.name()}}
	case 2:
		lhs := []ast.Expr{g.name()}
		if g.flip("comm-ok") {
			lhs = append(lhs, g.name())
		}
		c.Comm = &ast.AssignStmt{Lhs: lhs, Tok: g.tok("comm-tok", []token.Token{token.ASSIGN, token.DEFINE}), Rhs: []ast.Expr{&ast.UnaryExpr{Op: token.ARROW, X: g.name()}}}
	}
	return c
}

// ---------------------------------------------------------------- declarations

func (g *G) ImportSpec() *ast.ImportSpec {
	s := &ast.ImportSpec{Path: &ast.BasicLit{Kind: token.STRING, Value: rapid.SampledFrom(importPathPool).Draw(g.t, "import-path")}}
	switch g.pick("import-name", 4) {
	case 0:
		s.Name = &ast.Ident{Name: "."}
	case 1:
		s.Name = g.name()
	}
	return s
}

func (g *G) ValueSpec(d int) *ast.ValueSpec {
	s := &ast.ValueSpec{}
	n := rapid.IntRange(1, 2).Draw(g.t, "nvnames")
	for i := 0; i < n; i++ {
		s.Names = append(s.Names, g.name())
	}
	if g.opt("vtype") {
		s.Type = g.Type(d)
	}
	if s.Type == nil || g.opt("vvalues") {
		for i := 0; i < n; i++ {
			s.Values = append(s.Values, g.Expr(d))
		}
	}
	return s
}

func (g *G) TypeSpec(d int) *ast.TypeSpec {
	s := &ast.TypeSpec{Name: g.typeName(), Type: g.Type(d)}
	if g.pick("alias", 3) == 0 {
		s.Assign = validPos
	}
	if g.cfg.Extensions && g.pick("template-type", 5) == 0 {
		c := g.genericParams(d, true)
		c.Type = s.Type
		s.Type = c
	}
	return s
}

func (g *G) packageDecl() *ast.GenDecl {
	spec := &ast.ValueSpec{Names: []*ast.Ident{g.name()}}
	if g.flip("package-string") {
		spec.Names = []*ast.Ident{{Name: ""}}
		spec.Values = []ast.Expr{g.stringLit()}
	}
	return &ast.GenDecl{Tok: token.PACKAGE, Specs: []ast.Spec{spec}}
}

// GenDecl draws an import (top only) / const / var / type declaration.
func (g *G) GenDecl(d int, top bool) *ast.GenDecl {
	toks := []token.Token{token.CONST, token.VAR, token.TYPE}
	if top {
		toks = append(toks, token.IMPORT)
	}
	gd := &ast.GenDecl{Tok: rapid.SampledFrom(toks).Draw(g.t, "gendecl-tok")}
	n := rapid.IntRange(0, 3).Draw(g.t, "nspecs")
	for i := 0; i < n; i++ {
		switch gd.Tok {
		case token.IMPORT:
			gd.Specs = append(gd.Specs, g.ImportSpec())
		case token.TYPE:
			gd.Specs = append(gd.Specs, g.TypeSpec(d))
		default:
			vs := g.ValueSpec(d)
			if gd.Tok == token.CONST && i > 0 && g.flip("const-iota") {
				vs.Type, vs.Values = nil, nil
			} else if gd.Tok == token.CONST && vs.Values == nil {
				vs.Values = []ast.Expr{g.Expr(d)}
				vs.Names = vs.Names[:1]
			}
			gd.Specs = append(gd.Specs, vs)
		}
	}
	if n != 1 || g.flip("gendecl-paren") {
		gd.Lparen, gd.Rparen = validPos, validPos
	}
	if !g.cfg.Syntactic && n == 0 && g.flip("specs-empty") {
		gd.Specs = []ast.Spec{}
	}
	return gd
}

func (g *G) FuncDecl(d int) *ast.FuncDecl {
	fd := &ast.FuncDecl{Name: g.name(), Type: g.FuncType(d)}
	if g.pick("method", 3) == 0 {
		var rt ast.Expr = g.typeName()
		if g.flip("ptr-recv") {
			rt = &ast.StarExpr{X: rt}
		}
		f := &ast.Field{Type: rt}
		if g.flip("recv-name") {
			f.Names = []*ast.Ident{g.name()}
		}
		fd.Recv = &ast.FieldList{Opening: validPos, List: []*ast.Field{f}, Closing: validPos}
	}
	if g.pick("extern", 5) != 0 {
		fd.Body = g.Block(d, 0, 4)
	}
	if g.cfg.Extensions {
		switch g.pick("funcdecl-ext", 5) {
		case 0: // macro declaration: empty non-nil receiver list
			fd.Recv = &ast.FieldList{List: []*ast.Field{}}
		case 1: // generic function / method: type parameters as second receiver, first may be nil
			var first *ast.Field
			if fd.Recv != nil && len(fd.Recv.List) > 0 {
				first = fd.Recv.List[0]
			}
			fd.Recv = &ast.FieldList{List: []*ast.Field{first, {Type: g.genericParams(d, true)}}}
		}
	}
	return fd
}

// Decl draws a top-level declaration.
func (g *G) Decl(d int) ast.Decl {
	n := 5
	if g.cfg.Extensions {
		n++
	}
	if !g.cfg.Syntactic {
		n++
	}
	switch k := g.pick("decl", n); k {
	case 0, 1:
		return g.FuncDecl(d)
	case 2, 3, 4:
		return g.GenDecl(d, true)
	default:
		if g.cfg.Extensions && k == 5 {
			return g.packageDecl()
		}
		return &ast.BadDecl{}
	}
}

// File draws a whole *ast.File (Name + declarations).
func (g *G) File(d int) *ast.File {
	f := &ast.File{Name: g.name()}
	for i, n := 0, rapid.IntRange(0, 3).Draw(g.t, "ndecls"); i < n; i++ {
		f.Decls = append(f.Decls, g.Decl(d))
	}
	return f
}

// Tree is a rapid generator of one tree of the given kind (see Node).
func Tree(cfg Config, kind int) *rapid.Generator[ast.Node] {
	return rapid.Custom(func(t *rapid.T) ast.Node { return NewG(t, cfg).Node(kind) })
}
