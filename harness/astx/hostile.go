package astx

import "go/token"

// hostileLits: valid literals of every kind whose text a printer must pass through
// byte for byte although it contains what is layout to a formatter: a raw TAB, other
// control bytes the grammar allows inside rune and string literals, backquoted strings
// with tabs and newlines, comment look-alikes, escapes, numbers in every base with
// separators and exponents, imaginary literals. The Go strings below ARE the literal
// text: "'\t'" is a rune literal holding an actual TAB byte, "'\\t'" is the escape.
var hostileLits = []lit{
	// rune literals
	{token.CHAR, "'\\t'"}, {token.CHAR, "'\t'"}, {token.CHAR, "'\\x01'"}, {token.CHAR, "'\x01'"}, {token.CHAR, "'\x7f'"},
	{token.CHAR, "'\v'"}, {token.CHAR, "'\f'"}, {token.CHAR, "'\x1b'"}, {token.CHAR, "' '"}, {token.CHAR, "'\\\\'"}, {token.CHAR, "'\"'"},
	{token.CHAR, "'\\377'"}, {token.CHAR, "'\\xff'"}, {token.CHAR, "'\\U0010FFFF'"}, {token.CHAR, "'世'"}, {token.CHAR, "'`'"}, {token.CHAR, "'/'"},
	// interpreted strings
	{token.STRING, "\"a\\tb\""}, {token.STRING, "\"a\tb\""}, {token.STRING, "\"\t\""}, {token.STRING, "\"\t\tx\t\""}, {token.STRING, "\"\x01\x02\x7f\""},
	{token.STRING, "\"a\v\fb\x1b\""}, {token.STRING, "\"  two  spaces  \""}, {token.STRING, "\"// not a comment\""}, {token.STRING, "\"/* nor this */\""},
	{token.STRING, "\"`\""}, {token.STRING, "\"\\n\\t\\x00\\u00e9\\U0001F600\\377\\\"\\\\\""}, {token.STRING, "\"世界\""},
	// raw strings
	{token.STRING, "`a\tb`"}, {token.STRING, "`\t`"}, {token.STRING, "`\t\tx\n\t\ty\n`"}, {token.STRING, "`\n`"}, {token.STRING, "`line1\n\tline2\t\tcol\n  line3`"},
	{token.STRING, "`\x01\x7f`"}, {token.STRING, "`\\n\"'`"}, {token.STRING, "`// x`"}, {token.STRING, "`/*`"}, {token.STRING, "``"},
	// integers
	{token.INT, "0"}, {token.INT, "007"}, {token.INT, "0o7_7"}, {token.INT, "0O17"}, {token.INT, "0b1_0"}, {token.INT, "0B11"}, {token.INT, "0x_FF"},
	{token.INT, "0XdeadBEEF"}, {token.INT, "1_000_000"}, {token.INT, "18446744073709551615"},
	// floats
	{token.FLOAT, "0."}, {token.FLOAT, "1."}, {token.FLOAT, ".0"}, {token.FLOAT, "1e+9"}, {token.FLOAT, "1E-9"}, {token.FLOAT, "1_0.2_5e1_0"},
	{token.FLOAT, "0x1.8p3"}, {token.FLOAT, "0X1P+2"}, {token.FLOAT, "0x.8p-1"}, {token.FLOAT, "00.5"}, {token.FLOAT, "09e1"},
	// imaginary
	{token.IMAG, "0i"}, {token.IMAG, "08i"}, {token.IMAG, ".5i"}, {token.IMAG, "1e3i"}, {token.IMAG, "0x1p-2i"}, {token.IMAG, "0b101i"},
	{token.IMAG, "0o17i"}, {token.IMAG, "1_0i"}, {token.IMAG, "0xFFi"},
}

var importPathPool = []string{`"fmt"`, `"os"`, `"a/b"`, "`unsafe`", `"golang.org/x/tools"`}

// stringLitPool: struct tags and `package "path"` strings.
var stringLitPool = []string{
	`"fmt"`, "`json:\"x\"`", `"k:\"v\""`,
	"`k:\"a\tb\"\t\tj:\"c\"`", "\"k:\\\"\t\\\"\"",
}

// HostileLiterals returns kinds and texts of the hostile literal pool, for checks that
// assemble source text directly.
func HostileLiterals() (kinds []token.Token, texts []string) {
	for _, l := range hostileLits {
		kinds, texts = append(kinds, l.kind), append(texts, l.text)
	}
	return
}
