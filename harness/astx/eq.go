// Package astx is the syntax-tree toolbox shared by the checks C20, C21, C22, C24, C25:
// structural equality of go/ast trees (Equal), deep copy (Clone), the normal form of
// DESIGN.md C20 (Norm), deterministic iteration over the offline corpora
// (corpus.go) and a rapid generator of random go/ast trees including gomacro's
// extension encodings (gen.go). See README.md for the API in one page.
//
// Equal, Clone and Norm are written with reflection over the go/ast structs on
// purpose: a hand-written type switch can forget a field, which is exactly the class
// of defect the callers look for. Every field of every node is compared unless it is
// listed in ignoredFields below.
package astx

import (
	"fmt"
	"go/ast"
	"go/token"
	"reflect"
)

// Mode selects what Equal compares besides structure.
type Mode struct {
	// Pos: also compare every token.Pos field. With PosA/PosB nil the raw values
	// are compared; otherwise PosA maps positions of the first tree and PosB those of
	// the second tree to comparable integers (file offsets), so that trees from two
	// different file sets can be compared.
	Pos        bool
	PosA, PosB func(token.Pos) int
	// Paren: when false (default) `var (x int)` and `var x int` (GenDecl.Lparen
	// valid or not) are equal; when true they differ. Always compared when Pos is set.
	Paren bool
}

// Structural is the default mode: positions ignored; flags derived from positions
// (CallExpr.Ellipsis.IsValid, TypeSpec.Assign.IsValid) are compared.
var Structural = Mode{}

// WithPos compares raw position values too.
var WithPos = Mode{Pos: true}

// fields never compared and never copied: resolution results, comments, derived data.
var ignoredFields = map[string]bool{
	"Obj": true, "Scope": true, "Unresolved": true,
	"Doc": true, "Comment": true, "Comments": true,
	"Imports":   true, // ast.File.Imports / ast.Package.Imports: derived from Decls
	"GoVersion": true, "FileStart": true, "FileEnd": true,
}

// position fields whose validity is syntax, not layout: compared as booleans in every mode.
var flagPos = map[string]bool{
	"CallExpr.Ellipsis": true, // f(a...)
	"TypeSpec.Assign":   true, // type A = B
}

var (
	posType  = reflect.TypeOf(token.NoPos)
	exprType = reflect.TypeOf((*ast.Expr)(nil)).Elem()
	stmtType = reflect.TypeOf((*ast.Stmt)(nil)).Elem()
	bodyType = reflect.TypeOf((*ast.BlockStmt)(nil))
	tokType  = reflect.TypeOf(token.ILLEGAL)
)

// Equal returns nil when a and b are structurally equal under mode m, otherwise an
// error naming the path of the first difference. Compared: dynamic node types, all
// tokens (Tok, Op, Kind, Dir), literal text, identifier names, flags (Slice3,
// Incomplete, Implicit, Ellipsis/Assign validity), children in order, list lengths.
// A nil interface, a nil pointer inside an interface and a nil pointer are all "absent"
// and equal to each other; a nil slice equals an empty slice. Not compared: Obj, Scope,
// Unresolved, comments, File.Imports, and (unless m.Pos) positions.
func Equal(a, b ast.Node, m Mode) error {
	if err := eqValue(reflect.ValueOf(&a).Elem(), reflect.ValueOf(&b).Elem(), &m); err != nil {
		return err
	}
	return nil
}

// Eq is Equal(a, b, m) == nil.
func Eq(a, b ast.Node, m Mode) bool { return Equal(a, b, m) == nil }

// EqualNodes compares two lists of top-level nodes element by element.
func EqualNodes(a, b []ast.Node, m Mode) error {
	if len(a) != len(b) {
		return fmt.Errorf("node lists differ in length: %d vs %d", len(a), len(b))
	}
	for i := range a {
		if err := Equal(a[i], b[i], m); err != nil {
			return fmt.Errorf("[%d]%v", i, err)
		}
	}
	return nil
}

func isAbsent(v reflect.Value) bool {
	for {
		switch v.Kind() {
		case reflect.Invalid:
			return true
		case reflect.Interface:
			if v.IsNil() {
				return true
			}
			v = v.Elem()
		case reflect.Ptr:
			return v.IsNil()
		default:
			return false
		}
	}
}

type diffError struct {
	path string
	msg  string
}

func (e *diffError) Error() string { return e.path + ": " + e.msg }

func diff(format string, args ...interface{}) *diffError {
	return &diffError{msg: fmt.Sprintf(format, args...)}
}

func (e *diffError) in(segment string) *diffError {
	if e != nil {
		e.path = segment + e.path
	}
	return e
}

func describe(v reflect.Value) string {
	if isAbsent(v) {
		return "nil"
	}
	for v.Kind() == reflect.Interface {
		v = v.Elem()
	}
	return v.Type().String()
}

// eqValue builds the path of a difference only while unwinding (the common case,
// equal trees, allocates nothing).
func eqValue(a, b reflect.Value, m *Mode) *diffError {
	switch a.Kind() {
	case reflect.Interface, reflect.Ptr:
		an, bn := isAbsent(a), isAbsent(b)
		if an || bn {
			if an != bn {
				return diff("%s vs %s", describe(a), describe(b))
			}
			return nil
		}
		for a.Kind() == reflect.Interface {
			a = a.Elem()
		}
		for b.Kind() == reflect.Interface {
			b = b.Elem()
		}
		if a.Type() != b.Type() {
			return diff("node type %s vs %s", a.Type(), b.Type())
		}
		if a.Kind() == reflect.Ptr {
			if a.Pointer() == b.Pointer() {
				return nil
			}
			return eqValue(a.Elem(), b.Elem(), m).in("(" + a.Type().Elem().Name() + ")")
		}
		return eqValue(a, b, m)
	case reflect.Struct:
		t := a.Type()
		for i := 0; i < t.NumField(); i++ {
			f := t.Field(i)
			if ignoredFields[f.Name] {
				continue
			}
			fa, fb := a.Field(i), b.Field(i)
			if f.Type == posType {
				pa, pb := token.Pos(fa.Int()), token.Pos(fb.Int())
				if pa.IsValid() != pb.IsValid() {
					key := t.Name() + "." + f.Name
					if flagPos[key] || ((m.Paren || m.Pos) && key == "GenDecl.Lparen") {
						return diff("flag %v vs %v", pa.IsValid(), pb.IsValid()).in("." + f.Name)
					}
				}
				if m.Pos {
					ia, ib := int(pa), int(pb)
					if m.PosA != nil && pa.IsValid() {
						ia = m.PosA(pa)
					}
					if m.PosB != nil && pb.IsValid() {
						ib = m.PosB(pb)
					}
					if pa.IsValid() != pb.IsValid() || (pa.IsValid() && ia != ib) {
						return diff("position %d vs %d", ia, ib).in("." + f.Name)
					}
				}
				continue
			}
			if err := eqValue(fa, fb, m); err != nil {
				return err.in("." + f.Name)
			}
		}
		return nil
	case reflect.Slice:
		if a.Len() != b.Len() {
			return diff("list length %d vs %d", a.Len(), b.Len())
		}
		for i := 0; i < a.Len(); i++ {
			if err := eqValue(a.Index(i), b.Index(i), m); err != nil {
				return err.in(fmt.Sprintf("[%d]", i))
			}
		}
		return nil
	case reflect.String:
		if a.String() != b.String() {
			return diff("%q vs %q", a.String(), b.String())
		}
		return nil
	case reflect.Bool:
		if a.Bool() != b.Bool() {
			return diff("%v vs %v", a.Bool(), b.Bool())
		}
		return nil
	case reflect.Int, reflect.Int8, reflect.Int16, reflect.Int32, reflect.Int64:
		if a.Int() != b.Int() {
			if a.Type() == tokType {
				return diff("token %s vs %s", token.Token(a.Int()), token.Token(b.Int()))
			}
			return diff("%d vs %d", a.Int(), b.Int())
		}
		return nil
	case reflect.Map:
		// only ast.Package.Files / Scope maps: not part of any tree the checks compare
		if a.Len() != b.Len() {
			return diff("map size %d vs %d", a.Len(), b.Len())
		}
		return nil
	case reflect.Invalid:
		if b.Kind() != reflect.Invalid {
			return diff("nil vs %s", describe(b))
		}
		return nil
	}
	return diff("astx.Equal: unsupported kind %s", a.Kind())
}

// Clone returns a deep copy of n: every node is a fresh allocation, positions are
// kept, Obj/Scope/Unresolved/comments are dropped (left nil). Clone(nil) is nil.
func Clone(n ast.Node) ast.Node {
	if isAbsent(reflect.ValueOf(&n).Elem()) {
		return nil
	}
	out := cloneValue(reflect.ValueOf(&n).Elem(), nil)
	return out.Interface().(ast.Node)
}

// slotRewriter is consulted for every struct field / slice element whose static type
// is ast.Expr, ast.Stmt or *ast.BlockStmt before it is copied.
type slotRewriter func(static reflect.Type, v reflect.Value) reflect.Value

func cloneValue(v reflect.Value, rw slotRewriter) reflect.Value {
	if rw != nil {
		switch v.Type() {
		case exprType, stmtType, bodyType:
			v = rw(v.Type(), v)
		}
	}
	switch v.Kind() {
	case reflect.Interface:
		out := reflect.New(v.Type()).Elem()
		if isAbsent(v) {
			return out // typed nil pointers inside interfaces become plain nil
		}
		out.Set(cloneValue(v.Elem(), rw))
		return out
	case reflect.Ptr:
		if v.IsNil() {
			return reflect.Zero(v.Type())
		}
		out := reflect.New(v.Type().Elem())
		out.Elem().Set(cloneValue(v.Elem(), rw))
		return out
	case reflect.Struct:
		t := v.Type()
		out := reflect.New(t).Elem()
		for i := 0; i < t.NumField(); i++ {
			f := t.Field(i)
			if ignoredFields[f.Name] || !f.IsExported() {
				continue
			}
			out.Field(i).Set(cloneValue(v.Field(i), rw))
		}
		return out
	case reflect.Slice:
		if v.IsNil() {
			return reflect.Zero(v.Type())
		}
		out := reflect.MakeSlice(v.Type(), v.Len(), v.Len())
		for i := 0; i < v.Len(); i++ {
			out.Index(i).Set(cloneValue(v.Index(i), rw))
		}
		return out
	case reflect.Map:
		return reflect.Zero(v.Type())
	}
	return v
}

// declares reports whether s, as the only statement of a block, keeps the block
// (the rule of base.unwrapTrivialAst2, restated): a declaration or a `:=`.
func declares(s ast.Stmt) bool {
	switch s := s.(type) {
	case *ast.DeclStmt:
		return true
	case *ast.AssignStmt:
		return s.Tok == token.DEFINE
	}
	return false
}

func stripParens(e ast.Expr) ast.Expr {
	for {
		p, ok := e.(*ast.ParenExpr)
		if !ok || p == nil {
			return e
		}
		e = p.X
	}
}

// unwrapStmt removes single-statement blocks that hold neither a declaration nor `:=`.
func unwrapStmt(s ast.Stmt) ast.Stmt {
	for {
		b, ok := s.(*ast.BlockStmt)
		if !ok || b == nil || len(b.List) != 1 || declares(b.List[0]) {
			return s
		}
		s = b.List[0]
	}
}

func normRewriter(static reflect.Type, v reflect.Value) reflect.Value {
	if isAbsent(v) {
		return v
	}
	switch static {
	case exprType:
		e := stripParens(v.Interface().(ast.Expr))
		out := reflect.New(exprType).Elem()
		out.Set(reflect.ValueOf(e))
		return out
	case stmtType:
		s := unwrapStmt(v.Interface().(ast.Stmt))
		out := reflect.New(stmtType).Elem()
		out.Set(reflect.ValueOf(s))
		return out
	case bodyType:
		// a body slot must stay a block: unwrap as a statement, re-wrap if needed
		// (`for { { f() } }` -> `for { f() }`), as ast2.ToBlockStmt does
		b := v.Interface().(*ast.BlockStmt)
		s := unwrapStmt(b)
		if nb, ok := s.(*ast.BlockStmt); ok {
			return reflect.ValueOf(nb)
		}
		return reflect.ValueOf(&ast.BlockStmt{Lbrace: b.Lbrace, List: []ast.Stmt{s}, Rbrace: b.Rbrace})
	}
	return v
}

// Norm returns a normalised deep copy of n: the form that DESIGN.md C20 allows macro
// expansion to produce from macro-free code. Removed, everywhere in the tree:
// ParenExpr nodes; blocks `{ s }` with exactly one statement s that is neither a
// declaration nor a `:=` where a statement is expected (which includes
// `else { s }` -> `else s`); in body positions (func/if/for/range/switch/select bodies)
// nested trivial blocks are flattened but the body stays a block. At the top level
// additionally the ExprStmt / DeclStmt wrapper is removed, so Norm of a statement
// `(x)` is the expression `x`. Norm is idempotent; it never modifies its argument.
// The result has no Obj/Scope/comments (see Clone).
func Norm(n ast.Node) ast.Node {
	if isAbsent(reflect.ValueOf(&n).Elem()) {
		return nil
	}
	// top level: same loop as base.UnwrapTrivialAst
	for {
		switch x := n.(type) {
		case *ast.ParenExpr:
			n = x.X
			continue
		case *ast.ExprStmt:
			n = x.X
			continue
		case *ast.DeclStmt:
			n = x.Decl
			continue
		case *ast.BlockStmt:
			if len(x.List) == 1 && !declares(x.List[0]) {
				n = x.List[0]
				continue
			}
		}
		break
	}
	out := cloneValue(reflect.ValueOf(&n).Elem(), normRewriter)
	return out.Interface().(ast.Node)
}

// NormParens returns a deep copy of n without any ParenExpr and nothing else changed
// (blocks and statement wrappers stay): the weaker normal form for comparing a parsed
// tree with the reparse of its printed text (printers may drop redundant parentheses).
func NormParens(n ast.Node) ast.Node {
	if isAbsent(reflect.ValueOf(&n).Elem()) {
		return nil
	}
	for {
		p, ok := n.(*ast.ParenExpr)
		if !ok {
			break
		}
		n = p.X
	}
	out := cloneValue(reflect.ValueOf(&n).Elem(), func(static reflect.Type, v reflect.Value) reflect.Value {
		if static == exprType && !isAbsent(v) {
			out := reflect.New(exprType).Elem()
			out.Set(reflect.ValueOf(stripParens(v.Interface().(ast.Expr))))
			return out
		}
		return v
	})
	return out.Interface().(ast.Node)
}

// NormNodes applies Norm to every element.
func NormNodes(l []ast.Node) []ast.Node {
	out := make([]ast.Node, len(l))
	for i, n := range l {
		out[i] = Norm(n)
	}
	return out
}

// HasTrivialWrapper reports whether n contains something that Norm removes: a
// ParenExpr, or a single-statement block without declaration / `:=` in a statement
// position (statement lists, else branch, labeled statement), or a block whose only
// statement is a block. The non-trivial rule of C20(a).
func HasTrivialWrapper(n ast.Node) bool {
	found := false
	trivial := func(s ast.Stmt) bool {
		b, ok := s.(*ast.BlockStmt)
		return ok && b != nil && len(b.List) == 1 && !declares(b.List[0])
	}
	Walk(n, func(c ast.Node) {
		switch c := c.(type) {
		case *ast.ParenExpr:
			found = true
		case *ast.BlockStmt: // also in body position: `{ { a; b } }` is flattened
			if len(c.List) == 1 {
				if _, ok := c.List[0].(*ast.BlockStmt); ok {
					found = true
				}
			}
		case *ast.IfStmt:
			found = found || trivial(c.Else)
		case *ast.CommClause:
			found = found || trivial(c.Comm)
		case *ast.LabeledStmt:
			found = found || trivial(c.Stmt)
		}
		for _, s := range stmtList(c) {
			found = found || trivial(s)
		}
	})
	return found
}

func stmtList(n ast.Node) []ast.Stmt {
	switch n := n.(type) {
	case *ast.BlockStmt:
		return n.List
	case *ast.CaseClause:
		return n.Body
	case *ast.CommClause:
		return n.Body
	}
	return nil
}

// Walk calls f for every non-nil node of the tree in depth-first pre-order,
// including *ast.Field, *ast.FieldList, specs and clauses, but never comments.
// Unlike ast.Inspect it tolerates nil elements in lists (gomacro stores a nil
// *ast.Field in the receiver list of generic functions) and nil mandatory children.
func Walk(n ast.Node, f func(ast.Node)) {
	walkValue(reflect.ValueOf(&n).Elem(), f)
}

var nodeType = reflect.TypeOf((*ast.Node)(nil)).Elem()

func walkValue(v reflect.Value, f func(ast.Node)) {
	switch v.Kind() {
	case reflect.Interface:
		if !isAbsent(v) {
			walkValue(v.Elem(), f)
		}
	case reflect.Ptr:
		if v.IsNil() {
			return
		}
		if v.Type().Implements(nodeType) {
			f(v.Interface().(ast.Node))
		}
		walkValue(v.Elem(), f)
	case reflect.Struct:
		t := v.Type()
		for i := 0; i < t.NumField(); i++ {
			if ignoredFields[t.Field(i).Name] || !t.Field(i).IsExported() {
				continue
			}
			switch t.Field(i).Type.Kind() {
			case reflect.Interface, reflect.Ptr, reflect.Slice:
				walkValue(v.Field(i), f)
			}
		}
	case reflect.Slice:
		for i := 0; i < v.Len(); i++ {
			walkValue(v.Index(i), f)
		}
	}
}
