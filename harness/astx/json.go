package astx

import (
	"encoding/json"
	"fmt"
	"go/ast"
	"reflect"
)

// Marshal / Unmarshal: a plain, self-contained text form of any go/ast tree (also of
// trees that are not valid syntax), used for replay files. A node is a JSON object
// {"_": "<go/ast type name>", "<Field>": value, ...}; zero fields are omitted; lists
// are arrays (a nil list is omitted, an empty list is []); absent children are omitted
// (null inside lists); tokens and positions are integers. Obj, Scope, comments are
// not stored (same set as Equal ignores).

var nodeTypes = map[string]reflect.Type{}

func init() {
	for _, p := range []interface{}{
		(*ast.ArrayType)(nil), (*ast.AssignStmt)(nil), (*ast.BadDecl)(nil), (*ast.BadExpr)(nil), (*ast.BadStmt)(nil),
		(*ast.BasicLit)(nil), (*ast.BinaryExpr)(nil), (*ast.BlockStmt)(nil), (*ast.BranchStmt)(nil), (*ast.CallExpr)(nil),
		(*ast.CaseClause)(nil), (*ast.ChanType)(nil), (*ast.CommClause)(nil), (*ast.CompositeLit)(nil), (*ast.DeclStmt)(nil),
		(*ast.DeferStmt)(nil), (*ast.Ellipsis)(nil), (*ast.EmptyStmt)(nil), (*ast.ExprStmt)(nil), (*ast.Field)(nil),
		(*ast.FieldList)(nil), (*ast.File)(nil), (*ast.ForStmt)(nil), (*ast.FuncDecl)(nil), (*ast.FuncLit)(nil),
		(*ast.FuncType)(nil), (*ast.GenDecl)(nil), (*ast.GoStmt)(nil), (*ast.Ident)(nil), (*ast.IfStmt)(nil),
		(*ast.ImportSpec)(nil), (*ast.IncDecStmt)(nil), (*ast.IndexExpr)(nil), (*ast.IndexListExpr)(nil), (*ast.InterfaceType)(nil),
		(*ast.KeyValueExpr)(nil), (*ast.LabeledStmt)(nil), (*ast.MapType)(nil), (*ast.ParenExpr)(nil), (*ast.RangeStmt)(nil),
		(*ast.ReturnStmt)(nil), (*ast.SelectStmt)(nil), (*ast.SelectorExpr)(nil), (*ast.SendStmt)(nil), (*ast.SliceExpr)(nil),
		(*ast.StarExpr)(nil), (*ast.StructType)(nil), (*ast.SwitchStmt)(nil), (*ast.TypeAssertExpr)(nil), (*ast.TypeSpec)(nil),
		(*ast.TypeSwitchStmt)(nil), (*ast.UnaryExpr)(nil), (*ast.ValueSpec)(nil), (*ast.Package)(nil),
	} {
		t := reflect.TypeOf(p).Elem()
		nodeTypes[t.Name()] = t
	}
}

// Marshal encodes the tree (indented JSON, deterministic).
func Marshal(n ast.Node) []byte {
	v := encodeValue(reflect.ValueOf(&n).Elem())
	data, err := json.MarshalIndent(v, "", " ")
	if err != nil {
		panic(err)
	}
	return data
}

func encodeValue(v reflect.Value) interface{} {
	switch v.Kind() {
	case reflect.Interface, reflect.Ptr:
		if isAbsent(v) {
			return nil
		}
		for v.Kind() == reflect.Interface {
			v = v.Elem()
		}
		if v.Kind() == reflect.Ptr {
			v = v.Elem()
		}
		return encodeValue(v)
	case reflect.Struct:
		t := v.Type()
		m := map[string]interface{}{"_": t.Name()}
		for i := 0; i < t.NumField(); i++ {
			f := t.Field(i)
			if ignoredFields[f.Name] || !f.IsExported() || f.Type.Kind() == reflect.Map {
				continue
			}
			fv := v.Field(i)
			if fv.IsZero() {
				continue
			}
			m[f.Name] = encodeValue(fv)
		}
		return m
	case reflect.Slice:
		out := make([]interface{}, v.Len())
		for i := range out {
			out[i] = encodeValue(v.Index(i))
		}
		return out
	case reflect.String:
		return v.String()
	case reflect.Bool:
		return v.Bool()
	case reflect.Int, reflect.Int8, reflect.Int16, reflect.Int32, reflect.Int64:
		return v.Int()
	}
	return nil
}

// Unmarshal decodes what Marshal wrote.
func Unmarshal(data []byte) (n ast.Node, err error) {
	var raw interface{}
	if err := json.Unmarshal(data, &raw); err != nil {
		return nil, err
	}
	defer func() {
		if p := recover(); p != nil {
			n, err = nil, fmt.Errorf("astx.Unmarshal: %v", p)
		}
	}()
	if raw == nil {
		return nil, nil
	}
	v := decodeNode(raw)
	return v.Interface().(ast.Node), nil
}

func decodeNode(raw interface{}) reflect.Value {
	m, ok := raw.(map[string]interface{})
	if !ok {
		panic(fmt.Sprintf("expected a node object, found %T", raw))
	}
	name, _ := m["_"].(string)
	t, ok := nodeTypes[name]
	if !ok {
		panic(fmt.Sprintf("unknown node type %q", name))
	}
	p := reflect.New(t)
	for key, val := range m {
		if key == "_" {
			continue
		}
		f := p.Elem().FieldByName(key)
		if !f.IsValid() {
			panic(fmt.Sprintf("%s has no field %s", name, key))
		}
		decodeInto(f, val)
	}
	return p
}

func decodeInto(dst reflect.Value, raw interface{}) {
	if raw == nil {
		return
	}
	switch dst.Kind() {
	case reflect.Interface, reflect.Ptr:
		p := decodeNode(raw)
		if !p.Type().AssignableTo(dst.Type()) {
			panic(fmt.Sprintf("%s is not assignable to %s", p.Type(), dst.Type()))
		}
		dst.Set(p)
	case reflect.Slice:
		l, ok := raw.([]interface{})
		if !ok {
			panic("expected a list")
		}
		s := reflect.MakeSlice(dst.Type(), len(l), len(l))
		for i := range l {
			decodeInto(s.Index(i), l[i])
		}
		dst.Set(s)
	case reflect.String:
		dst.SetString(raw.(string))
	case reflect.Bool:
		dst.SetBool(raw.(bool))
	case reflect.Int, reflect.Int8, reflect.Int16, reflect.Int32, reflect.Int64:
		dst.SetInt(int64(raw.(float64)))
	default:
		panic(fmt.Sprintf("cannot decode into %s", dst.Type()))
	}
}
