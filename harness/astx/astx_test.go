package astx

import (
	"bytes"
	"go/ast"
	"go/printer"
	"go/token"
	"testing"

	"pgregory.net/rapid"
)

// Self-tests of the toolbox (plain `go test ./astx`, not a property check).

func TestCloneEqualNorm(t *testing.T) {
	rapid.Check(t, func(t *rapid.T) {
		cfg := Config{Syntactic: rapid.Bool().Draw(t, "syn"), Extensions: rapid.Bool().Draw(t, "ext")}
		n := NewG(t, cfg).Node(AnyNode)
		c := Clone(n)
		if err := Equal(n, c, WithPos); err != nil {
			t.Fatalf("clone differs: %v", err)
		}
		seen := map[ast.Node]bool{}
		Walk(n, func(x ast.Node) { seen[x] = true })
		Walk(c, func(x ast.Node) {
			if seen[x] {
				t.Fatalf("clone shares node %T", x)
			}
		})
		back, err := Unmarshal(Marshal(n))
		if err != nil {
			t.Fatalf("Unmarshal: %v", err)
		}
		if err := Equal(n, back, WithPos); err != nil {
			t.Fatalf("Marshal/Unmarshal differs: %v", err)
		}
		nn := Norm(n)
		if err := Equal(nn, Norm(nn), Structural); err != nil {
			t.Fatalf("Norm not idempotent: %v", err)
		}
		Walk(nn, func(x ast.Node) {
			if _, ok := x.(*ast.ParenExpr); ok {
				t.Fatalf("Norm left a ParenExpr")
			}
		})
		if !HasTrivialWrapper(n) {
			// nothing to remove below the top: Norm changes at most the top-level wrapper
			switch n.(type) {
			case *ast.ExprStmt, *ast.DeclStmt, *ast.BlockStmt:
			default:
				if err := Equal(n, nn, Structural); err != nil {
					t.Fatalf("HasTrivialWrapper false but Norm changed the tree: %v", err)
				}
			}
		}
	})
}

// every single-field perturbation that Equal promises to see is seen
func TestEqualSeesDifferences(t *testing.T) {
	a := &ast.CallExpr{Fun: &ast.Ident{Name: "f"}, Args: []ast.Expr{&ast.BasicLit{Kind: token.INT, Value: "1"}}}
	muts := map[string]func(c *ast.CallExpr){
		"ellipsis": func(c *ast.CallExpr) { c.Ellipsis = 7 },
		"name":     func(c *ast.CallExpr) { c.Fun.(*ast.Ident).Name = "g" },
		"kind":     func(c *ast.CallExpr) { c.Args[0].(*ast.BasicLit).Kind = token.FLOAT },
		"value":    func(c *ast.CallExpr) { c.Args[0].(*ast.BasicLit).Value = "2" },
		"len":      func(c *ast.CallExpr) { c.Args = nil },
		"type":     func(c *ast.CallExpr) { c.Args[0] = &ast.Ident{Name: "1"} },
		"nil":      func(c *ast.CallExpr) { c.Fun = nil },
	}
	for name, m := range muts {
		b := Clone(a).(*ast.CallExpr)
		m(b)
		if Equal(a, b, Structural) == nil {
			t.Errorf("mutation %s not seen", name)
		}
	}
	b := Clone(a).(*ast.CallExpr)
	b.Lparen = 9
	if Equal(a, b, Structural) != nil || Equal(a, b, WithPos) == nil {
		t.Errorf("position handling wrong")
	}
	var typedNil *ast.BlockStmt
	if err := Equal(&ast.IfStmt{Else: typedNil}, &ast.IfStmt{}, Structural); err != nil {
		t.Errorf("typed nil vs nil: %v", err)
	}
	if Equal(&ast.SliceExpr{Slice3: true}, &ast.SliceExpr{}, Structural) == nil ||
		Equal(&ast.ChanType{Dir: ast.SEND}, &ast.ChanType{Dir: ast.RECV}, Structural) == nil ||
		Equal(&ast.TypeSpec{Assign: 3}, &ast.TypeSpec{}, Structural) == nil ||
		Equal(&ast.EmptyStmt{Implicit: true}, &ast.EmptyStmt{}, Structural) == nil ||
		Equal(&ast.InterfaceType{Incomplete: true}, &ast.InterfaceType{}, Structural) == nil {
		t.Errorf("a flag difference was not seen")
	}
}

// how often a Syntactic tree printed by the standard printer parses (yield of the
// "parses back" construction); fails only if the yield is poor
func TestSyntacticYield(t *testing.T) {
	ok, total := 0, 0
	rapid.Check(t, func(t *rapid.T) {
		g := NewG(t, Config{Syntactic: true, MaxDepth: 4})
		f := &ast.File{Name: ast.NewIdent("p"), Decls: g.Decls(3)}
		var buf bytes.Buffer
		total++
		if err := printer.Fprint(&buf, token.NewFileSet(), f); err != nil {
			return
		}
		if _, err := ParseStd(token.NewFileSet(), "x.go", buf.Bytes()); err != nil {
			if testing.Verbose() {
				println("does not parse:", err.Error(), "\n"+buf.String())
			}
			return
		}
		ok++
	})
	t.Logf("syntactic yield %d/%d", ok, total)
	if ok*10 < total*8 {
		t.Errorf("yield too low: %d/%d", ok, total)
	}
}
