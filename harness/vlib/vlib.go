// Package vlib is the small runtime shared by every property check:
// tier/seed/shard plumbing, evidence counters, known findings, replays,
// violation recording. The python driver (/verif/tools/vcheck.py) starts the
// compiled test binary of one property package once per shard with the
// VERIF_* environment, and merges the fragment each shard writes.
package vlib

import (
	"encoding/json"
	"flag"
	"fmt"
	"hash/fnv"
	"os"
	"path/filepath"
	"sort"
	"strconv"
	"strings"
	"sync"
	"testing"

	"pgregory.net/rapid"
)

const VerifDir = "/verif"

// KnownFinding is one entry of /verif/known_findings.json
type KnownFinding struct {
	Property    string `json:"property"`
	ID          string `json:"id"`
	Status      string `json:"status"` // "known" or "fixed"
	Commit      string `json:"commit,omitempty"`
	Replay      string `json:"replay"` // path relative to /verif
	Description string `json:"description"`
}

type violation struct {
	Key    string `json:"key"`
	Replay string `json:"replay"`
	Msg    string `json:"msg"`
}

// Rec collects what one shard of one property check did.
type Rec struct {
	mu sync.Mutex

	Property string
	tier     string
	seed     int64
	shard    int
	nshards  int
	outDir   string
	replay   string

	evaluations int64
	nt          map[uint64]struct{}
	labels      map[string]int64
	samples     []interface{}
	sampleSeen  int64
	excluded    map[string]int64
	knownHits   map[string]string
	violations  map[string]violation
	notes       []string
	rule        string
	assumptions []string
	exhaustive  *bool
	known       map[string]KnownFinding
	extra       map[string]interface{}
}

func envInt(name string, def int64) int64 {
	s := os.Getenv(name)
	if s == "" {
		return def
	}
	n, err := strconv.ParseInt(s, 10, 64)
	if err != nil {
		return def
	}
	return n
}

// Open creates the recorder for a property. Call once per test binary (TestMain or a
// package-level sync.Once) and Close at the end.
func Open(property string) *Rec {
	r := &Rec{
		Property:   property,
		tier:       os.Getenv("VERIF_TIER"),
		seed:       envInt("VERIF_SEED", 1),
		shard:      int(envInt("VERIF_SHARD", 0)),
		nshards:    int(envInt("VERIF_NSHARDS", 1)),
		outDir:     os.Getenv("VERIF_OUT"),
		replay:     os.Getenv("VERIF_REPLAY"),
		nt:         map[uint64]struct{}{},
		labels:     map[string]int64{},
		excluded:   map[string]int64{},
		knownHits:  map[string]string{},
		violations: map[string]violation{},
		known:      map[string]KnownFinding{},
		extra:      map[string]interface{}{},
	}
	if r.tier != "thorough" {
		r.tier = "quick"
	}
	if r.nshards < 1 {
		r.nshards = 1
	}
	if r.outDir == "" {
		r.outDir = os.TempDir()
	}
	data, err := os.ReadFile(filepath.Join(VerifDir, "known_findings.json"))
	if err == nil {
		var all []KnownFinding
		if err := json.Unmarshal(data, &all); err != nil {
			panic("known_findings.json: " + err.Error())
		}
		for _, k := range all {
			if k.Property == property {
				r.known[k.ID] = k
			}
		}
	}
	return r
}

func (r *Rec) Tier() string     { return r.tier }
func (r *Rec) Thorough() bool   { return r.tier == "thorough" }
func (r *Rec) Seed() int64      { return r.seed }
func (r *Rec) Shard() int       { return r.shard }
func (r *Rec) NShards() int     { return r.nshards }
func (r *Rec) OutDir() string   { return r.outDir }
func (r *Rec) ReplayOnly() bool { return r.replay != "" }

// Scale picks a count by tier. Counts are per shard.
func (r *Rec) Scale(quick, thorough int) int {
	if r.Thorough() {
		return thorough
	}
	return quick
}

// Mine partitions an enumeration between shards.
func (r *Rec) Mine(idx int) bool { return idx%r.nshards == r.shard }

// ShardSeed is the rapid seed of this shard (never 0).
func (r *Rec) ShardSeed() uint64 {
	return uint64(1 + (r.seed*1000003+int64(r.shard))%(1<<31-2))
}

// Rule states, in words, how cases are generated and which count as non-trivial.
func (r *Rec) Rule(s string) { r.mu.Lock(); r.rule = s; r.mu.Unlock() }

// Assume records an assumption / trusted-base item for the evidence file.
func (r *Rec) Assume(s string) { r.mu.Lock(); r.assumptions = append(r.assumptions, s); r.mu.Unlock() }

// Exhaustive marks that a finite space was enumerated completely by this run.
func (r *Rec) Exhaustive(b bool) { r.mu.Lock(); r.exhaustive = &b; r.mu.Unlock() }

// Extra stores an additional key in coverage (summed across shards if numeric).
func (r *Rec) Extra(key string, v interface{}) { r.mu.Lock(); r.extra[key] = v; r.mu.Unlock() }

// Eval counts n executed cases.
func (r *Rec) Eval(n int) { r.mu.Lock(); r.evaluations += int64(n); r.mu.Unlock() }

func hash64(s string) uint64 {
	h := fnv.New64a()
	h.Write([]byte(s))
	return h.Sum64()
}

// NT marks a case (identified by key) as non-trivial; distinct keys are counted.
func (r *Rec) NT(key string) {
	h := hash64(key)
	r.mu.Lock()
	r.nt[h] = struct{}{}
	r.mu.Unlock()
}

// Label increments a histogram cell.
func (r *Rec) Label(name string) { r.LabelN(name, 1) }
func (r *Rec) LabelN(name string, n int) {
	r.mu.Lock()
	r.labels[name] += int64(n)
	r.mu.Unlock()
}

// Sample keeps a few cases verbatim (deterministic thinning: 1st, 2nd, 4th, 8th...
// seen, at most 10).
func (r *Rec) Sample(v interface{}) {
	r.mu.Lock()
	defer r.mu.Unlock()
	r.sampleSeen++
	n := r.sampleSeen
	if n&(n-1) == 0 && len(r.samples) < 10 {
		r.samples = append(r.samples, v)
	}
}

// Known reports whether finding id is listed with status "known"; a check uses it to
// switch on the exclusion-by-construction of that finding. "fixed" entries or
// missing entries return false, so they suppress nothing.
func (r *Rec) Known(id string) bool {
	k, ok := r.known[id]
	return ok && k.Status == "known"
}

// Excluded counts a generated case that was skipped because it matches known finding id.
func (r *Rec) Excluded(id string) { r.mu.Lock(); r.excluded[id]++; r.mu.Unlock() }

// Note adds a free-text remark to the evidence.
func (r *Rec) Note(format string, args ...interface{}) {
	r.mu.Lock()
	if len(r.notes) < 50 {
		r.notes = append(r.notes, fmt.Sprintf(format, args...))
	}
	r.mu.Unlock()
}

// Violation records a property violation. key identifies the failing test (later
// calls with the same key overwrite earlier ones, so after rapid shrinking the
// minimal case is what remains); replay is the plain-form input, re-checkable with
// ./check <id> --replay <file>.
func (r *Rec) Violation(key string, replay []byte, ext string, format string, args ...interface{}) {
	msg := fmt.Sprintf(format, args...)
	if len(msg) > 4000 {
		msg = msg[:4000] + "..."
	}
	r.mu.Lock()
	defer r.mu.Unlock()
	name := fmt.Sprintf("viol-%d-%016x.%s", r.shard, hash64(key), ext)
	path := filepath.Join(r.outDir, name)
	if err := os.WriteFile(path, replay, 0o644); err != nil {
		fmt.Fprintln(os.Stderr, "vlib: cannot write replay:", err)
	}
	r.violations[key] = violation{Key: key, Replay: path, Msg: msg}
	r.flushLocked()
}

// Failf records a violation and fails the rapid case (so that rapid shrinks it).
func (r *Rec) Failf(t *rapid.T, key string, replay []byte, ext string, format string, args ...interface{}) {
	r.Violation(key, replay, ext, format, args...)
	t.Fatalf(format, args...)
}

// Check runs a rapid property n times (n per shard) under the shard seed. Every
// invocation is counted as an evaluation (including the ones rapid makes while
// shrinking a failure, which only happen on a failing tree).
func (r *Rec) Check(t *testing.T, n int, prop func(*rapid.T)) {
	t.Helper()
	if r.ReplayOnly() {
		return
	}
	_ = flag.Set("rapid.checks", strconv.Itoa(n))
	_ = flag.Set("rapid.seed", strconv.FormatUint(r.ShardSeed(), 10))
	_ = flag.Set("rapid.nofailfile", "true")
	ran := 0
	rapid.Check(t, func(rt *rapid.T) {
		r.Eval(1)
		ran++
		prop(rt)
	})
	r.mu.Lock()
	r.flushLocked()
	r.mu.Unlock()
	// rapid stops early, still reporting success, when the test deadline comes close
	// (5x the average iteration time): that is a shortfall, never a pass.
	if ran < n && !t.Failed() {
		t.Fatalf("INCONCLUSIVE: rapid ran only %d of the %d requested cases (test deadline too close)", ran, n)
	}
}

// InconclusiveError is returned by a Replayer when the input could not be decided for
// an infrastructure reason (oracle build failed ...): never a violation.
type InconclusiveError struct{ Msg string }

func (e InconclusiveError) Error() string { return "INCONCLUSIVE: " + e.Msg }

// Inconclusive builds an InconclusiveError.
func Inconclusive(msg string) error { return InconclusiveError{msg} }

// Replayer re-checks one plain-form input and returns a non-nil error when the
// property is violated on it.
type Replayer func(content []byte) error

// RunReplays re-executes (a) the file named by --replay, if any, and nothing else;
// otherwise (b) the replay of every known/fixed finding of this property and (c) every
// file under /verif/regress/<id>/. Only shard 0 does this.
func (r *Rec) RunReplays(t *testing.T, f Replayer) {
	t.Helper()
	run := func(path string) error {
		data, err := os.ReadFile(path)
		if err != nil {
			t.Fatalf("replay file: %v", err)
		}
		var res error
		func() {
			defer func() {
				if p := recover(); p != nil {
					res = fmt.Errorf("panic during replay: %v", p)
				}
			}()
			res = f(data)
		}()
		if ie, ok := res.(InconclusiveError); ok {
			t.Fatalf("%s: %v", path, ie)
		}
		return res
	}
	if r.replay != "" {
		r.Eval(1)
		if err := run(r.replay); err != nil {
			data, _ := os.ReadFile(r.replay)
			r.Violation("replay:"+r.replay, data, extOf(r.replay), "%v", err)
			t.Errorf("replay %s: %v", r.replay, err)
		} else {
			fmt.Printf("replay %s: property holds on this input\n", r.replay)
		}
		return
	}
	if r.shard != 0 {
		return
	}
	ids := make([]string, 0, len(r.known))
	for id := range r.known {
		ids = append(ids, id)
	}
	sort.Strings(ids)
	for _, id := range ids {
		k := r.known[id]
		if k.Replay == "" {
			continue
		}
		path := filepath.Join(VerifDir, k.Replay)
		r.Eval(1)
		err := run(path)
		switch {
		case k.Status == "known" && err != nil:
			r.mu.Lock()
			r.knownHits[id] = k.Description
			r.mu.Unlock()
		case k.Status == "known":
			fmt.Fprintf(os.Stderr, "note: known finding %s no longer reproduces\n", id)
			r.Note("known finding %s no longer reproduces", id)
		case err != nil: // fixed entry fails again
			data, _ := os.ReadFile(path)
			r.Violation("fixed:"+id, data, extOf(path), "fixed finding %s is back: %v", id, err)
			t.Errorf("fixed finding %s is back: %v", id, err)
		}
	}
	files, _ := filepath.Glob(filepath.Join(VerifDir, "regress", r.Property, "*"))
	sort.Strings(files)
	for _, path := range files {
		r.Eval(1)
		r.LabelN("regress-replayed", 1)
		if err := run(path); err != nil {
			data, _ := os.ReadFile(path)
			r.Violation("regress:"+path, data, extOf(path), "regression input %s: %v", path, err)
			t.Errorf("regression input %s: %v", path, err)
		}
	}
	r.mu.Lock()
	r.flushLocked()
	r.mu.Unlock()
}

func extOf(path string) string {
	e := strings.TrimPrefix(filepath.Ext(path), ".")
	if e == "" {
		return "txt"
	}
	return e
}

type fragment struct {
	Property    string                 `json:"property"`
	Tier        string                 `json:"tier"`
	Seed        int64                  `json:"seed"`
	Shard       int                    `json:"shard"`
	Evaluations int64                  `json:"evaluations"`
	NT          []uint64               `json:"nt"`
	Labels      map[string]int64       `json:"labels"`
	Samples     []interface{}          `json:"samples"`
	Excluded    map[string]int64       `json:"excluded"`
	KnownHits   map[string]string      `json:"known_hits"`
	Violations  []violation            `json:"violations"`
	Notes       []string               `json:"notes"`
	Rule        string                 `json:"rule"`
	Assumptions []string               `json:"assumptions"`
	Exhaustive  *bool                  `json:"exhaustive,omitempty"`
	Extra       map[string]interface{} `json:"extra"`
	Complete    bool                   `json:"complete"`
}

func (r *Rec) flushLocked() { r.write(false) }

func (r *Rec) write(complete bool) {
	fr := fragment{
		Property: r.Property, Tier: r.tier, Seed: r.seed, Shard: r.shard,
		Evaluations: r.evaluations, Labels: r.labels, Samples: r.samples,
		Excluded: r.excluded, KnownHits: r.knownHits, Notes: r.notes, Rule: r.rule,
		Assumptions: r.assumptions, Exhaustive: r.exhaustive, Extra: r.extra,
		Complete: complete,
	}
	fr.NT = make([]uint64, 0, len(r.nt))
	for h := range r.nt {
		fr.NT = append(fr.NT, h)
	}
	sort.Slice(fr.NT, func(i, j int) bool { return fr.NT[i] < fr.NT[j] })
	keys := make([]string, 0, len(r.violations))
	for k := range r.violations {
		keys = append(keys, k)
	}
	sort.Strings(keys)
	for _, k := range keys {
		fr.Violations = append(fr.Violations, r.violations[k])
	}
	data, err := json.Marshal(fr)
	if err != nil {
		fmt.Fprintln(os.Stderr, "vlib: cannot marshal fragment:", err)
		return
	}
	path := filepath.Join(r.outDir, fmt.Sprintf("frag-%d.json", r.shard))
	tmp := path + ".tmp"
	if err := os.WriteFile(tmp, data, 0o644); err == nil {
		os.Rename(tmp, path)
	}
}

// Close writes the final fragment. Call from TestMain after m.Run().
func (r *Rec) Close() {
	r.mu.Lock()
	defer r.mu.Unlock()
	r.write(true)
}

// Main is the usual TestMain body: rec := vlib.Open(id); os.Exit(vlib.Main(m, rec)).
func Main(m *testing.M, r *Rec) int {
	code := m.Run()
	r.Close()
	return code
}

// Try runs f and returns the recovered panic value (nil if none).
func Try(f func()) (p interface{}) {
	defer func() { p = recover() }()
	f()
	return nil
}
