// C05: statement control flow is executed exactly as in Go.
// Oracle: the Go toolchain (batch build of all generated programs, go 1.18 level).
package c05

import (
	"os"
	"strings"
	"testing"

	"verif/harness/gobatch"
	"verif/harness/vlib"
)

var rec *vlib.Rec

func TestMain(m *testing.M) {
	rec = vlib.Open("C05")
	rec.Rule("cases = generated Go programs (<=40 statements, nesting <=5) over if/else chains with init, the three for forms, range over array/slice/string/pointer-to-array/map/channel, " +
		"expression switches (int/string constant cases incl. >=5 cases, tagless, non-constant, init, default anywhere, fallthrough), type switches, select with ready/default cases, " +
		"labeled and unlabeled break/continue, backward goto from nested blocks, early return, blocks declaring (captured) locals, closures capturing loop variables; every basic block records a numbered trace event; " +
		"a case is non-trivial when its executed trace contains the event placed immediately before a break/continue/goto that crosses >=1 enclosing construct; distinct = distinct program texts")
	rec.Assume("oracle: gc toolchain, generated module with `go 1.18` (per-loop loop variables), trace formatted by the same compiled recorder on both sides")
	rec.Assume("forward goto is a documented limitation of gomacro and is not generated")
	os.Exit(vlib.Main(m, rec))
}

func ntFunc(p gobatch.Program, res gobatch.Result) string {
	evs := strings.Split(p.Meta["jump-events"], ",")
	for _, line := range res.Trace {
		first := line
		if i := strings.IndexByte(line, ' '); i >= 0 {
			first = line[:i]
		}
		for _, e := range evs {
			if e != "" && e == first {
				return "taken-jump-crossing-construct"
			}
		}
	}
	return ""
}

func known(p gobatch.Program, got, want gobatch.Result) string { return "" }

func TestControlFlow(t *testing.T) {
	gobatch.Run(t, gobatch.Config{
		Rec: rec, Name: "c05", N: rec.Scale(300, 3000),
		Gen: Generate, NTFunc: ntFunc, Known: known,
	})
}

func TestReplays(t *testing.T) {
	rec.RunReplays(t, gobatch.Replayer(known))
}
