package c05

import (
	"fmt"
	"strings"

	"pgregory.net/rapid"

	"verif/harness/gobatch"
	"verif/harness/progen"
)

// loopCtx describes an enclosing breakable construct while generating its body.
type loopCtx struct {
	label     string
	isLoop    bool // for / range (continue allowed); false: switch / select
	labelUsed bool
	depth     int // scope depth at the construct, to count environments crossed
}

type gotoCtx struct {
	label   string
	counter string
	depth   int
}

type gen struct {
	*progen.G
	loops   []*loopCtx
	gotos   []*gotoCtx
	inFunc  bool // inside a helper function with an int result (return allowed)
	nesting int
	jumps   int // number of generated jumps crossing >= 1 construct
	jumpEvs []string // event numbers recorded immediately before such a jump
	funcs   []string
}

const maxNest = 5

func (g *gen) stmts(n int) string {
	var b strings.Builder
	for i := 0; i < n && g.Budget > 0; i++ {
		b.WriteString(g.stmt())
	}
	return b.String()
}

func (g *gen) block(n int) string {
	g.Push()
	defer g.Pop()
	s := ""
	// most blocks declare a local, so that jumps out of them have environments to skip
	if g.Chance(2, 3, "block-local") {
		s += g.declLocal()
	}
	s += g.stmts(n)
	return "{\n" + progen.Indent(s) + "}"
}

// expr: a value for a declaration or an assignment. A string value mentions at most one
// variable: concatenations of two variables assigned back inside nested loops double the
// string at every execution and reached half a gigabyte (thorough tier), which the time
// budget then reported as a program that does not terminate.
func (g *gen) expr(typ string) string {
	if typ == "string" {
		return "(" + g.StrExpr(0) + " + " + g.OneOf("str-suffix", `"a"`, `"ab"`, `""`, `"é"`) + ")"
	}
	return g.Expr(typ, 2)
}

func (g *gen) declLocal() string {
	name := g.Local("v")
	typ := "int"
	if g.Chance(1, 6, "local-type") {
		typ = g.OneOf("local-typ", "bool", "string")
	}
	e := g.expr(typ)
	g.Declare(progen.Var{Name: name, Type: typ})
	s := ""
	if g.Bool("decl-form") {
		s = fmt.Sprintf("%s := %s\n", name, e)
	} else {
		s = fmt.Sprintf("var %s %s = %s\n", name, typ, e)
	}
	if g.Chance(1, 4, "capture-local") {
		// a closure capturing the local: the variable must live in a shared frame
		g.Tag("captured-local")
		s += fmt.Sprintf("func() { rec.E(%d, %s) }()\n", g.Ev(), name)
	} else {
		s += fmt.Sprintf("_ = %s\n", name)
	}
	return s
}

func (g *gen) assign() string {
	vars := g.Vars("", true)
	if len(vars) == 0 {
		return g.Record() + "\n"
	}
	v := vars[g.Pick(len(vars), "assign-var")]
	switch v.Type {
	case "int":
		switch g.Pick(4, "assign-form") {
		case 0:
			return fmt.Sprintf("%s = %s\n", v.Name, g.IntExpr(2))
		case 1:
			return fmt.Sprintf("%s %s= %s\n", v.Name, g.OneOf("aop", "+", "-", "*", "^", "|"), g.IntExpr(1))
		case 2:
			return v.Name + "++\n"
		default:
			return v.Name + "--\n"
		}
	case "bool", "string":
		return fmt.Sprintf("%s = %s\n", v.Name, g.expr(v.Type))
	}
	return g.Record() + "\n"
}

func (g *gen) stmt() string {
	g.Budget--
	if g.nesting >= maxNest || g.Budget <= 0 {
		if g.Bool("leaf") {
			return g.Record() + "\n"
		}
		return g.assign()
	}
	g.nesting++
	defer func() { g.nesting-- }()
	k := g.Pick(20, "stmt")
	switch {
	case k <= 2:
		return g.Record() + "\n"
	case k <= 4:
		return g.assign()
	case k == 5:
		return g.declLocal()
	case k == 6:
		return g.ifStmt()
	case k == 7:
		return g.forStmt()
	case k == 8:
		return g.rangeStmt()
	case k == 9:
		return g.switchStmt()
	case k == 10:
		return g.typeSwitchStmt()
	case k == 11:
		return g.selectStmt()
	case k <= 14:
		return g.jumpStmt()
	case k == 15:
		return g.gotoLoop()
	case k == 16:
		return g.block(g.Int(1, 3, "blk-n")) + "\n"
	case k == 17:
		return g.closureLoopVar()
	case k == 18 && g.inFunc:
		g.Tag("return-nested")
		return fmt.Sprintf("if %s {\n\trec.E(%d)\n\treturn %s\n}\n", g.BoolExpr(1), g.Ev(), g.IntExpr(1))
	default:
		return g.ifStmt()
	}
}

func (g *gen) ifStmt() string {
	g.Tag("if")
	var b strings.Builder
	g.Push() // scope of the header variable covers the whole if/else chain
	defer g.Pop()
	if g.Chance(1, 3, "if-init") {
		g.Tag("if-init")
		name := g.Local("h")
		fmt.Fprintf(&b, "if %s := %s; %s ", name, g.IntExpr(2), cmpWith(g, name))
		g.Declare(progen.Var{Name: name, Type: "int"})
	} else {
		fmt.Fprintf(&b, "if %s ", g.BoolExpr(2))
	}
	b.WriteString(g.block(g.Int(1, 3, "then-n")))
	switch g.Pick(3, "else") {
	case 0:
		b.WriteString("\n")
	case 1:
		b.WriteString(" else " + g.block(g.Int(1, 3, "else-n")) + "\n")
	default:
		g.Tag("else-if")
		b.WriteString(" else " + strings.TrimRight(g.ifStmt(), "\n") + "\n")
	}
	return b.String()
}

func cmpWith(g *gen, name string) string {
	return fmt.Sprintf("%s %s %s", name, g.OneOf("cmp", "<", ">", "==", "!=", "<=", ">="), g.IntExpr(1))
}

// withLoop generates body under a new breakable context and returns it with the label
// to put in front of the construct ("" if no statement inside used the label).
func (g *gen) withLoop(isLoop bool, body func() string) (string, string) {
	ctx := &loopCtx{label: g.Local("L"), isLoop: isLoop, depth: g.Depth()}
	g.loops = append(g.loops, ctx)
	s := body()
	g.loops = g.loops[:len(g.loops)-1]
	if ctx.labelUsed {
		return s, ctx.label + ":\n"
	}
	return s, ""
}

func (g *gen) forStmt() string {
	n := g.Int(0, 4, "for-n")
	switch g.Pick(3, "for-form") {
	case 0: // three-clause
		g.Tag("for-3clause")
		i := g.Local("i")
		g.Push()
		defer g.Pop()
		g.Declare(progen.Var{Name: i, Type: "int", ReadOnly: true})
		body, label := g.withLoop(true, func() string { return g.block(g.Int(1, 4, "for-body")) })
		return fmt.Sprintf("%sfor %s := 0; %s < %d; %s++ %s\n", label, i, i, n, i, body)
	case 1: // condition only, guard incremented first thing in the body
		g.Tag("for-cond")
		c := g.Local("c")
		g.Push()
		defer g.Pop()
		g.Declare(progen.Var{Name: c, Type: "int", ReadOnly: true})
		body, label := g.withLoop(true, func() string {
			g.Push()
			defer g.Pop()
			return "{\n" + progen.Indent(c+"++\n"+g.stmts(g.Int(1, 4, "for-body"))) + "}"
		})
		return fmt.Sprintf("%s := 0\n%sfor %s < %d %s\n", c, label, c, n, body)
	default: // infinite with guard
		g.Tag("for-infinite")
		c := g.Local("c")
		g.Push()
		defer g.Pop()
		g.Declare(progen.Var{Name: c, Type: "int", ReadOnly: true})
		body, label := g.withLoop(true, func() string {
			g.Push()
			defer g.Pop()
			return "{\n" + progen.Indent(fmt.Sprintf("%s++\nif %s > %d {\n\tbreak\n}\n", c, c, n)+g.stmts(g.Int(1, 4, "for-body"))) + "}"
		})
		return fmt.Sprintf("%s := 0\n%sfor %s\n", c, label, body)
	}
}

func (g *gen) rangeStmt() string {
	g.Push()
	defer g.Pop()
	k, v := g.Local("k"), g.Local("e")
	var pre, head, post string
	vt := "int"
	orderFree := false
	switch g.Pick(7, "range-kind") {
	case 0:
		g.Tag("range-array")
		head = fmt.Sprintf("for %s, %s := range [3]int{%s, %s, 7}", k, v, g.IntExpr(1), g.IntExpr(1))
	case 1:
		g.Tag("range-slice")
		head = fmt.Sprintf("for %s, %s := range []int{%s, 5, %s, 1}[:%d]", k, v, g.IntExpr(1), g.IntExpr(1), g.Int(0, 4, "slice-len"))
	case 2:
		g.Tag("range-string")
		head = fmt.Sprintf("for %s, %s := range %s", k, v, g.OneOf("range-str", `"aé😀z"`, `""`, `"ab"`, `"\xffx"`))
		vt = "rune"
	case 3:
		g.Tag("range-ptr-array")
		a := g.Local("a")
		pre = fmt.Sprintf("%s := [4]int{3, %s, 1, 4}\n", a, g.IntExpr(1))
		head = fmt.Sprintf("for %s, %s := range &%s", k, v, a)
	case 4:
		g.Tag("range-chan")
		ch := g.Local("ch")
		n := g.Int(0, 3, "chan-n")
		pre = fmt.Sprintf("%s := make(chan int, 4)\n", ch)
		for i := 0; i < n; i++ {
			pre += fmt.Sprintf("%s <- %s\n", ch, g.IntExpr(1))
		}
		pre += fmt.Sprintf("close(%s)\n", ch)
		head = fmt.Sprintf("for %s := range %s", v, ch)
		k = ""
	case 5:
		g.Tag("range-map")
		// order-insensitive: only a commutative accumulation happens in the body
		acc := g.Local("acc")
		pre = fmt.Sprintf("%s := 0\n", acc)
		head = fmt.Sprintf("for %s, %s := range map[int]int{1: %s, 2: 5, 7: %s}", k, v, g.IntExpr(1), g.IntExpr(1))
		post = fmt.Sprintf("rec.E(%d, %s)\n", g.Ev(), acc)
		orderFree = true
		body := fmt.Sprintf("{\n\t%s += %s*3 + %s\n}", acc, k, v)
		return pre + head + " " + body + "\n" + post
	default:
		g.Tag("range-key-only")
		head = fmt.Sprintf("for %s := range []string{\"a\", \"b\", \"c\"}", k)
		v = ""
	}
	_ = orderFree
	// the body may assign to key and value: Go iterates on a hidden counter
	if k != "" {
		g.Declare(progen.Var{Name: k, Type: "int"})
	}
	if v != "" {
		g.Declare(progen.Var{Name: v, Type: vt, ReadOnly: vt != "int"})
	}
	body, label := g.withLoop(true, func() string {
		g.Push()
		defer g.Pop()
		use := ""
		if k != "" {
			use += fmt.Sprintf("rec.E(%d, %s)\n", g.Ev(), k)
		}
		if v != "" {
			use += fmt.Sprintf("rec.E(%d, %s)\n", g.Ev(), v)
		}
		return "{\n" + progen.Indent(use+g.stmts(g.Int(0, 3, "range-body"))) + "}"
	})
	return pre + label + head + " " + body + "\n" + post
}

func (g *gen) caseBody(last bool, allowFallthrough bool) string {
	g.Push()
	defer g.Pop()
	s := g.Record() + "\n" + g.stmts(g.Int(0, 2, "case-n"))
	if allowFallthrough && !last && g.Chance(1, 4, "fallthrough") {
		g.Tag("fallthrough")
		s += "fallthrough\n"
	}
	return progen.Indent(s)
}

func (g *gen) switchStmt() string {
	g.Push()
	defer g.Pop()
	var head string
	kind := g.Pick(4, "switch-kind")
	ncase := g.Int(1, 4, "ncase")
	if g.Chance(1, 3, "many-cases") {
		ncase = g.Int(5, 8, "ncase-many") // >= 5 constant cases of one kind select the table dispatch
		g.Tag("switch-many-cases")
	}
	defPos := -1
	if g.Chance(2, 3, "has-default") {
		defPos = g.Pick(ncase+1, "default-pos")
		if defPos < ncase {
			g.Tag("default-not-last")
		}
	}
	init, initVar := "", ""
	if g.Chance(1, 4, "switch-init") {
		g.Tag("switch-init")
		name := g.Local("w")
		init = fmt.Sprintf("%s := %s; ", name, g.IntExpr(1))
		initVar = name
		g.Declare(progen.Var{Name: name, Type: "int"})
	}
	var cases []string
	switch kind {
	case 0: // int tag, constant cases
		g.Tag("switch-int-const")
		head = "switch " + init + g.IntExpr(2)
		perm := rapid.Permutation([]int{-2, -1, 0, 1, 2, 3, 4, 5, 6, 7, 10, 100}).Draw(g.T, "case-consts")
		pi := 0
		for i := 0; i < ncase; i++ {
			n := 1
			if g.Chance(1, 4, "multi-const") {
				n = 2
			}
			var l []string
			for j := 0; j < n && pi < len(perm); j++ {
				l = append(l, fmt.Sprint(perm[pi]))
				pi++
			}
			if len(l) == 0 {
				break // constants exhausted
			}
			cases = append(cases, "case "+strings.Join(l, ", ")+":")
		}
	case 1: // string tag
		g.Tag("switch-string-const")
		head = "switch " + init + g.StrExpr(1)
		perm := rapid.Permutation([]string{`""`, `"a"`, `"ab"`, `"b"`, `"héé"`, `"aa"`, `"r"`, `"x"`, `"abab"`}).Draw(g.T, "case-strs")
		for i := 0; i < ncase && i < len(perm); i++ {
			cases = append(cases, "case "+perm[i]+":")
		}
	case 2: // no tag, boolean cases
		g.Tag("switch-notag")
		head = "switch " + init
		if init != "" {
			head = "switch " + strings.TrimSuffix(init, " ")
		}
		for i := 0; i < ncase; i++ {
			cases = append(cases, "case "+g.BoolExpr(1)+":")
		}
	default: // int tag, non-constant cases
		g.Tag("switch-nonconst")
		head = "switch " + init + g.IntExpr(1)
		for i := 0; i < ncase; i++ {
			cases = append(cases, "case "+g.IntExpr(1)+" + "+fmt.Sprint(1000*(i+1))+", "+g.IntExpr(1)+" - "+fmt.Sprint(1000*(i+1))+":")
		}
	}
	if defPos > len(cases) {
		defPos = len(cases) // fewer cases than drawn (constants exhausted): default goes last
	}
	body, label := g.withLoop(false, func() string {
		var b strings.Builder
		total := len(cases)
		if defPos >= 0 {
			total++
		}
		ci := 0
		for i := 0; i < total; i++ {
			last := i == total-1
			if i == defPos {
				b.WriteString("default:\n")
			} else {
				b.WriteString(cases[ci] + "\n")
				ci++
			}
			if i == 0 && initVar != "" {
				b.WriteString("\t_ = " + initVar + "\n") // the header variable must be used
			}
			b.WriteString(g.caseBody(last, true))
		}
		return b.String()
	})
	return label + strings.TrimRight(head, " ") + " {\n" + body + "}\n"
}

func (g *gen) typeSwitchStmt() string {
	g.Tag("typeswitch")
	g.Push()
	defer g.Pop()
	x := g.Local("x")
	val := g.OneOf("ts-val", g.IntExpr(1), `"s"`, "2.5", "true", "nil", "[]int{1, 2}", "uint8(7)", "error(nil)")
	pre := fmt.Sprintf("var %s interface{} = %s\n", x, val)
	bind := ""
	b := g.Local("y")
	if g.Bool("ts-bind") {
		g.Tag("typeswitch-bind")
		bind = b + " := "
	}
	types := rapid.Permutation([]string{"int", "string", "float64", "bool", "nil", "[]int", "uint8"}).Draw(g.T, "ts-types")
	n := g.Int(1, 4, "ts-ncase")
	defPos := -1
	if g.Bool("ts-default") {
		defPos = g.Pick(n+1, "ts-default-pos")
	}
	body, label := g.withLoop(false, func() string {
		var sb strings.Builder
		total := n
		if defPos >= 0 {
			total++
		}
		ti := 0
		for i := 0; i < total; i++ {
			if i == defPos {
				sb.WriteString("default:\n")
				if bind != "" {
					sb.WriteString("\t_ = " + b + "\n")
				}
				sb.WriteString(g.caseBody(true, false))
				continue
			}
			typ := types[ti]
			ti++
			two := g.Chance(1, 5, "ts-two") && ti < len(types)
			if two {
				sb.WriteString("case " + typ + ", " + types[ti] + ":\n")
				ti++
			} else {
				sb.WriteString("case " + typ + ":\n")
			}
			if bind != "" {
				if !two && (typ == "int" || typ == "string" || typ == "bool") {
					g.Push()
					g.Declare(progen.Var{Name: b, Type: typ, ReadOnly: true})
					sb.WriteString(fmt.Sprintf("\trec.E(%d, %s)\n", g.Ev(), b))
					sb.WriteString(g.caseBody(true, false))
					g.Pop()
					continue
				}
				sb.WriteString(fmt.Sprintf("\trec.E(%d, %s)\n", g.Ev(), b))
			}
			sb.WriteString(g.caseBody(true, false))
		}
		return sb.String()
	})
	return pre + label + "switch " + bind + x + ".(type) {\n" + body + "}\n"
}

func (g *gen) selectStmt() string {
	g.Tag("select")
	g.Push()
	defer g.Pop()
	ch := g.Local("ch")
	pre := fmt.Sprintf("%s := make(chan int, 2)\n", ch)
	form := g.Pick(4, "select-form")
	body, label := g.withLoop(false, func() string {
		var sb strings.Builder
		switch form {
		case 0: // one ready receive + default
			pre += fmt.Sprintf("%s <- %s\n", ch, g.IntExpr(1))
			v := g.Local("r")
			sb.WriteString(fmt.Sprintf("case %s := <-%s:\n\trec.E(%d, %s)\n", v, ch, g.Ev(), v))
			sb.WriteString(g.caseBody(true, false))
			sb.WriteString("default:\n" + g.caseBody(true, false))
		case 1: // nothing ready: default
			g.Tag("select-default-taken")
			sb.WriteString(fmt.Sprintf("case <-%s:\n", ch) + g.caseBody(true, false))
			sb.WriteString("default:\n" + g.caseBody(true, false))
		case 2: // send possible, receive on another empty channel
			ch2 := g.Local("ch")
			pre += fmt.Sprintf("%s := make(chan int)\n", ch2)
			sb.WriteString(fmt.Sprintf("case %s <- %s:\n", ch, g.IntExpr(1)) + g.caseBody(true, false))
			sb.WriteString(fmt.Sprintf("case <-%s:\n", ch2) + g.caseBody(true, false))
		default: // receive with ok from closed channel
			pre += fmt.Sprintf("close(%s)\n", ch)
			v, ok := g.Local("r"), g.Local("ok")
			sb.WriteString(fmt.Sprintf("case %s, %s := <-%s:\n\trec.E(%d, %s, %s)\n", v, ok, ch, g.Ev(), v, ok))
			sb.WriteString(g.caseBody(true, false))
		}
		return sb.String()
	})
	return pre + label + "select {\n" + body + "}\n"
}

// jumpStmt emits a guarded break/continue (labeled or not) targeting an enclosing
// construct; falls back to a record when there is none.
func (g *gen) jumpStmt() string {
	if len(g.loops) == 0 {
		return g.Record() + "\n"
	}
	ti := g.Pick(len(g.loops), "jump-target")
	target := g.loops[ti]
	innermost := ti == len(g.loops)-1
	kind := "break"
	if target.isLoop && g.Bool("jump-kind") {
		kind = "continue"
	}
	stmt := kind
	// an unlabeled continue refers to the innermost LOOP, an unlabeled break to the
	// innermost loop/switch/select
	unlabeledOK := false
	if kind == "break" {
		unlabeledOK = innermost
	} else {
		unlabeledOK = true
		for j := ti + 1; j < len(g.loops); j++ {
			if g.loops[j].isLoop {
				unlabeledOK = false
			}
		}
	}
	if !unlabeledOK || g.Chance(1, 3, "use-label") {
		stmt += " " + target.label
		target.labelUsed = true
		g.Tag("labeled-" + kind)
	}
	crossed := len(g.loops) - 1 - ti
	envs := g.Depth() - target.depth
	g.Tag(fmt.Sprintf("jump:%s-crossing-%d-constructs", kind, min(crossed, 3)))
	g.Tag(fmt.Sprintf("jump-envs-crossed-%d", min(envs, 4)))
	ev := g.Ev()
	if crossed >= 1 {
		g.jumps++
		g.jumpEvs = append(g.jumpEvs, fmt.Sprint(ev))
	}
	if kind == "continue" && !innermost {
		for j := ti + 1; j < len(g.loops); j++ {
			if !g.loops[j].isLoop {
				g.Tag("labeled-continue-through-switch-or-select")
			}
		}
	}
	return fmt.Sprintf("if %s {\n\trec.E(%d)\n\t%s\n}\n", g.BoolExpr(1), ev, stmt)
}

// gotoLoop emits `c := 0; L: stmt; ...; if c < n { c++; goto L }` with the goto
// possibly inside nested blocks (backward goto only; forward goto is a documented
// limitation of gomacro).
func (g *gen) gotoLoop() string {
	g.Tag("goto-backward")
	c, l := g.Local("g"), g.Local("G")
	g.Declare(progen.Var{Name: c, Type: "int", ReadOnly: true})
	n := g.Int(1, 3, "goto-n")
	s := fmt.Sprintf("%s := 0\n%s:\n\trec.E(%d, %s)\n", c, l, g.Ev(), c)
	// statements between label and goto must not declare variables in THIS block,
	// otherwise `goto` would jump over... (backward jumps are fine, but keep it simple
	// and legal: nested blocks only)
	depth := g.Int(0, 3, "goto-depth")
	gev := g.Ev()
	inner := fmt.Sprintf("if %s < %d {\n\t%s++\n\trec.E(%d)\n\tgoto %s\n}\n", c, n, c, gev, l)
	for i := 0; i < depth; i++ {
		g.Tag(fmt.Sprintf("goto-from-nested-block-%d", i+1))
		if i == 0 {
			g.jumps++
			g.jumpEvs = append(g.jumpEvs, fmt.Sprint(gev))
		}
		switch g.Pick(3, "goto-wrap") {
		case 0:
			inner = "{\n" + progen.Indent(fmt.Sprintf("t%d := %s\n_ = t%d\n", i, c, i)+inner) + "}\n"
		case 1:
			inner = fmt.Sprintf("if %s >= 0 {\n", c) + progen.Indent(inner) + "}\n"
		default:
			inner = "switch {\ndefault:\n" + progen.Indent(inner) + "}\n"
		}
	}
	if !g.inFunc || g.nesting > 1 {
		g.Tag("goto-label-nested")
	} else {
		g.Tag("goto-label-at-func-top")
	}
	mid := ""
	if g.Bool("goto-mid") {
		g.Push()
		mid = "{\n" + progen.Indent(g.stmts(g.Int(1, 2, "goto-mid-n"))) + "}\n"
		g.Pop()
	}
	return s + mid + inner
}

// closureLoopVar: closures capturing the loop variable (per-loop semantics before Go 1.22).
func (g *gen) closureLoopVar() string {
	g.Tag("closure-captures-loop-var")
	fs, i := g.Local("fs"), g.Local("i")
	n := g.Int(1, 4, "clv-n")
	form := g.Pick(2, "clv-form")
	s := fmt.Sprintf("var %s []func() int\n", fs)
	if form == 0 {
		s += fmt.Sprintf("for %s := 0; %s < %d; %s++ {\n\t%s = append(%s, func() int { return %s * 10 })\n}\n", i, i, n, i, fs, fs, i)
	} else {
		s += fmt.Sprintf("for %s := range make([]int, %d) {\n\t%s = append(%s, func() int { return %s * 10 })\n}\n", i, n, fs, fs, i)
	}
	f := g.Local("f")
	s += fmt.Sprintf("for _, %s := range %s {\n\trec.E(%d, %s())\n}\n", f, fs, g.Ev(), f)
	return s
}

func min(a, b int) int {
	if a < b {
		return a
	}
	return b
}

// helperFunc declares a package-level function with control flow and early returns.
func (g *gen) helperFunc() string {
	name := g.Top("f")
	saved := g.SaveScopes()
	savedLoops, savedGotos, savedNest := g.loops, g.gotos, g.nesting
	g.loops, g.gotos, g.nesting = nil, nil, 0
	g.inFunc = true
	g.Declare(progen.Var{Name: "a", Type: "int"})
	g.Declare(progen.Var{Name: "b", Type: "int"})
	body := g.stmts(g.Int(2, 6, "func-n"))
	ret := fmt.Sprintf("rec.E(%d, a, b)\nreturn %s\n", g.Ev(), g.IntExpr(2))
	g.inFunc = false
	g.loops, g.gotos, g.nesting = savedLoops, savedGotos, savedNest
	g.RestoreScopes(saved)
	g.Decls = append(g.Decls, fmt.Sprintf("func %s(a int, b int) int {\n%s}", name, progen.Indent(body+ret)))
	g.funcs = append(g.funcs, name)
	return name
}

// Generate builds one C05 program.
func Generate(t *rapid.T, px string) gobatch.Program {
	g := &gen{G: progen.New(t, px, 40)}
	nf := g.Int(0, 2, "nfuncs")
	for i := 0; i < nf; i++ {
		g.helperFunc()
	}
	entry := g.Top("main")
	g.Declare(progen.Var{Name: "x", Type: "int"})
	g.Declare(progen.Var{Name: "s", Type: "string"})
	body := fmt.Sprintf("x := %d\ns := %s\n_, _ = x, s\n", g.Int(-2, 9, "x0"), g.OneOf("s0", `"a"`, `""`, `"ab"`))
	body += g.stmts(g.Int(2, 8, "main-n"))
	for _, f := range g.funcs {
		for k := 0; k < 2; k++ {
			body += fmt.Sprintf("rec.E(%d, %s(%s, %d))\n", g.Ev(), f, g.IntExpr(1), g.Int(-1, 5, "arg"))
		}
	}
	body += fmt.Sprintf("rec.E(%d, x, s)\n", g.Ev())
	g.Decls = append(g.Decls, fmt.Sprintf("func %s() {\n%s}", entry, progen.Indent(body)))
	p := gobatch.Program{Decls: g.Decls, Entry: entry, Tags: g.TagList()}
	p.Meta = map[string]string{"jump-events": strings.Join(g.jumpEvs, ",")}
	return p
}
