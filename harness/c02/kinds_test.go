// Oracle O3 (copied from the C01 package, which is a test package and cannot be imported): Go's own operators applied by the harness (compiled by gc on every
// run), written once with type parameters. A value of any basic kind travels through
// the harness as a `val`; a `kindT` knows how to apply the native operators of one kind.
package c02

import (
	"fmt"
	"go/constant"
	"go/token"
	"math"
	"math/big"
	"reflect"
	"strconv"
	"strings"
)

type class int

const (
	cBool class = iota
	cInt
	cUint
	cFloat
	cComplex
	cString
)

// val holds one value of a basic kind; which field is meaningful depends on the class.
type val struct {
	i int64      // cInt
	u uint64     // cUint
	f float64    // cFloat (float32 values are exactly representable)
	c complex128 // cComplex
	s string     // cString
	b bool       // cBool
}

const (
	pNone     = ""
	pDiv0     = "div0"
	pNegShift = "negshift"
)

type kindT interface {
	Name() string
	Class() class
	Bits() int // integer width; mantissa-bearing size for floats (32/64); 64/128 for complex
	ToReflect(v val) reflect.Value
	FromReflect(rv reflect.Value) (val, error)
	FromConst(cv constant.Value) (val, error)
	// Bin applies an arithmetic / bitwise / string / logical operator whose result has the kind of its operands.
	Bin(op token.Token, a, b val) (val, string)
	Cmp(op token.Token, a, b val) bool
	Un(op token.Token, a val) val
	Shift(op token.Token, a val, n uint64) val
	// Conv converts a run-time value of kind from to this kind with Go's conversion; ok=false if the harness does not use that conversion.
	Conv(from kindT, v val) (val, bool)
	Canon(v val) string
	Lit(v val) (string, bool) // source text of an untyped constant with this value, if one exists
	Boundary() []val
	Random(r *rng) val
	Simple(v val) bool // value inside {0,1} (false,true / "" for the other classes)
}

// ------------------------------------------------------------------ integers

type integer interface {
	~int | ~int8 | ~int16 | ~int32 | ~int64 | ~uint | ~uint8 | ~uint16 | ~uint32 | ~uint64 | ~uintptr
}

type intKind[T integer] struct {
	name   string
	signed bool
	bits   int
}

func (k intKind[T]) Name() string { return k.name }
func (k intKind[T]) Class() class {
	if k.signed {
		return cInt
	}
	return cUint
}
func (k intKind[T]) Bits() int { return k.bits }
func (k intKind[T]) get(v val) T {
	if k.signed {
		return T(v.i)
	}
	return T(v.u)
}
func (k intKind[T]) mk(x T) val {
	if k.signed {
		return val{i: int64(x)}
	}
	return val{u: uint64(x)}
}
func (k intKind[T]) ToReflect(v val) reflect.Value { return reflect.ValueOf(k.get(v)) }
func (k intKind[T]) FromReflect(rv reflect.Value) (val, error) {
	var z T
	if !rv.IsValid() || rv.Kind() != reflect.TypeOf(z).Kind() {
		return val{}, fmt.Errorf("value has kind %v, want %v", kindOf(rv), reflect.TypeOf(z).Kind())
	}
	if k.signed {
		return val{i: rv.Int()}, nil
	}
	return val{u: rv.Uint()}, nil
}
func (k intKind[T]) FromConst(cv constant.Value) (val, error) {
	cv = constant.ToInt(cv)
	if cv.Kind() != constant.Int {
		return val{}, fmt.Errorf("constant %v is not an integer", cv)
	}
	if k.signed {
		n, ok := constant.Int64Val(cv)
		if !ok || int64(T(n)) != n {
			return val{}, fmt.Errorf("constant %v does not fit %s", cv, k.name)
		}
		return val{i: n}, nil
	}
	n, ok := constant.Uint64Val(cv)
	if !ok || uint64(T(n)) != n {
		return val{}, fmt.Errorf("constant %v does not fit %s", cv, k.name)
	}
	return val{u: n}, nil
}

// binInt is THE oracle for integer arithmetic: Go's operators on two variables of type T.
func binInt[T integer](op token.Token, x, y T) (T, string) {
	switch op {
	case token.ADD:
		return x + y, pNone
	case token.SUB:
		return x - y, pNone
	case token.MUL:
		return x * y, pNone
	case token.QUO:
		if y == 0 {
			return 0, pDiv0
		}
		return x / y, pNone
	case token.REM:
		if y == 0 {
			return 0, pDiv0
		}
		return x % y, pNone
	case token.AND:
		return x & y, pNone
	case token.OR:
		return x | y, pNone
	case token.XOR:
		return x ^ y, pNone
	case token.AND_NOT:
		return x &^ y, pNone
	}
	panic("binInt: bad operator " + op.String())
}

type ordered interface {
	integer | ~float32 | ~float64 | ~string
}

func cmpOrd[T ordered](op token.Token, x, y T) bool {
	switch op {
	case token.EQL:
		return x == y
	case token.NEQ:
		return x != y
	case token.LSS:
		return x < y
	case token.LEQ:
		return x <= y
	case token.GTR:
		return x > y
	case token.GEQ:
		return x >= y
	}
	panic("cmpOrd: bad operator " + op.String())
}

func cmpEq[T comparable](op token.Token, x, y T) bool {
	switch op {
	case token.EQL:
		return x == y
	case token.NEQ:
		return x != y
	}
	panic("cmpEq: bad operator " + op.String())
}

func shiftInt[T integer](op token.Token, x T, n uint64) T {
	if op == token.SHL {
		return x << n
	}
	return x >> n
}

func (k intKind[T]) Bin(op token.Token, a, b val) (val, string) {
	r, p := binInt(op, k.get(a), k.get(b))
	return k.mk(r), p
}
func (k intKind[T]) Cmp(op token.Token, a, b val) bool { return cmpOrd(op, k.get(a), k.get(b)) }
func (k intKind[T]) Un(op token.Token, a val) val {
	x := k.get(a)
	switch op {
	case token.ADD:
		return k.mk(+x)
	case token.SUB:
		return k.mk(-x)
	case token.XOR:
		return k.mk(^x)
	}
	panic("intKind.Un: bad operator " + op.String())
}
func (k intKind[T]) Shift(op token.Token, a val, n uint64) val {
	return k.mk(shiftInt(op, k.get(a), n))
}
func (k intKind[T]) Conv(from kindT, v val) (val, bool) {
	switch from.Class() {
	case cInt:
		return k.mk(T(v.i)), true
	case cUint:
		return k.mk(T(v.u)), true
	}
	return val{}, false
}
func (k intKind[T]) Canon(v val) string {
	if k.signed {
		return k.name + "(" + strconv.FormatInt(v.i, 10) + ")"
	}
	return k.name + "(" + strconv.FormatUint(v.u, 10) + ")"
}
func (k intKind[T]) Lit(v val) (string, bool) {
	if k.signed {
		return strconv.FormatInt(v.i, 10), true
	}
	return strconv.FormatUint(v.u, 10), true
}
func (k intKind[T]) Simple(v val) bool {
	if k.signed {
		return v.i == 0 || v.i == 1
	}
	return v.u <= 1
}
func (k intKind[T]) Boundary() []val {
	var out []val
	seen := map[val]bool{}
	add := func(x T) {
		v := k.mk(x)
		if !seen[v] {
			seen[v] = true
			out = append(out, v)
		}
	}
	var zero T
	max := ^zero
	min := zero
	if k.signed {
		max = T(uint64(1)<<(k.bits-1) - 1)
		min = -max - 1
	}
	for _, x := range []T{0, 1, 2, 3, 7, 10, min, min + 1, max, max - 1, max / 2, max/2 + 1} {
		add(x)
	}
	if k.signed {
		m1 := zero - 1
		add(m1)
		add(m1 - 1)
		add(m1 - 2)
		add(zero - 7)
		add(zero - 10)
	}
	for s := 1; s < k.bits; s++ {
		p := T(1) << s
		add(p)
		add(p - 1)
		add(p + 1)
		if k.signed {
			add(-p)
			add(-p - 1)
			add(-p + 1)
		}
	}
	return out
}
func (k intKind[T]) Random(r *rng) val {
	x := r.next()
	// half of the draws keep all bits, the others are small magnitudes
	switch r.next() % 4 {
	case 0:
		x >>= r.next() % 64
	case 1:
		x = uint64(int64(x) >> (r.next() % 64))
	}
	return k.mk(T(x))
}

// ------------------------------------------------------------------ floats

type float interface{ ~float32 | ~float64 }

type floatKind[T float] struct {
	name string
	bits int
}

func (k floatKind[T]) Name() string     { return k.name }
func (k floatKind[T]) Class() class     { return cFloat }
func (k floatKind[T]) Bits() int        { return k.bits }
func (k floatKind[T]) get(v val) T      { return T(v.f) }
func (k floatKind[T]) mk(x T) val       { return val{f: float64(x)} }
func (k floatKind[T]) ToReflect(v val) reflect.Value { return reflect.ValueOf(k.get(v)) }
func (k floatKind[T]) FromReflect(rv reflect.Value) (val, error) {
	var z T
	if !rv.IsValid() || rv.Kind() != reflect.TypeOf(z).Kind() {
		return val{}, fmt.Errorf("value has kind %v, want %v", kindOf(rv), reflect.TypeOf(z).Kind())
	}
	return val{f: rv.Float()}, nil
}
func (k floatKind[T]) FromConst(cv constant.Value) (val, error) {
	cv = constant.ToFloat(cv)
	if cv.Kind() != constant.Float {
		return val{}, fmt.Errorf("constant %v is not a float", cv)
	}
	if k.bits == 32 {
		f, _ := constant.Float32Val(cv)
		return val{f: float64(f)}, nil
	}
	f, _ := constant.Float64Val(cv)
	return val{f: f}, nil
}
func binFloat[T float](op token.Token, x, y T) T {
	switch op {
	case token.ADD:
		return x + y
	case token.SUB:
		return x - y
	case token.MUL:
		return x * y
	case token.QUO:
		return x / y
	}
	panic("binFloat: bad operator " + op.String())
}
func (k floatKind[T]) Bin(op token.Token, a, b val) (val, string) {
	return k.mk(binFloat(op, k.get(a), k.get(b))), pNone
}
func (k floatKind[T]) Cmp(op token.Token, a, b val) bool { return cmpOrd(op, k.get(a), k.get(b)) }
func (k floatKind[T]) Un(op token.Token, a val) val {
	x := k.get(a)
	switch op {
	case token.ADD:
		return k.mk(+x)
	case token.SUB:
		return k.mk(-x)
	}
	panic("floatKind.Un: bad operator " + op.String())
}
func (k floatKind[T]) Shift(op token.Token, a val, n uint64) val { panic("shift of float") }
func (k floatKind[T]) Conv(from kindT, v val) (val, bool) {
	switch from.Class() {
	case cInt:
		return k.mk(T(v.i)), true
	case cUint:
		return k.mk(T(v.u)), true
	case cFloat:
		return k.mk(T(v.f)), true
	}
	return val{}, false
}
func canonFloat(bits int, f float64) string {
	if f != f {
		return "NaN"
	}
	if bits == 32 {
		return fmt.Sprintf("%#08x[%v]", math.Float32bits(float32(f)), float32(f))
	}
	return fmt.Sprintf("%#016x[%v]", math.Float64bits(f), f)
}
func (k floatKind[T]) Canon(v val) string { return k.name + "(" + canonFloat(k.bits, v.f) + ")" }
func litFloat(bits int, f float64) (string, bool) {
	if f != f || math.IsInf(f, 0) || (f == 0 && math.Signbit(f)) {
		return "", false
	}
	s := strconv.FormatFloat(f, 'g', -1, bits)
	if !strings.ContainsAny(s, ".e") {
		s += ".0"
	}
	return s, true
}
func (k floatKind[T]) Lit(v val) (string, bool) { return litFloat(k.bits, v.f) }
func (k floatKind[T]) Simple(v val) bool        { return v.f == 0 && !math.Signbit(v.f) || v.f == 1 }
func floatBoundary(bits int) []float64 {
	var l []float64
	if bits == 32 {
		l = []float64{math.MaxFloat32, -math.MaxFloat32, math.SmallestNonzeroFloat32, -math.SmallestNonzeroFloat32,
			float64(math.Float32frombits(0x00800000)), float64(math.Float32frombits(0x007fffff)), float64(float32(0.1)), float64(float32(math.Pi)),
			1 << 23, 1 << 24, 1<<24 + 2, float64(float32(1e10)), float64(float32(1e-10)), float64(math.Float32frombits(0x7f7ffffe))}
	} else {
		l = []float64{math.MaxFloat64, -math.MaxFloat64, math.SmallestNonzeroFloat64, -math.SmallestNonzeroFloat64,
			math.Float64frombits(0x0010000000000000), math.Float64frombits(0x000fffffffffffff), 0.1, math.Pi,
			1 << 52, 1 << 53, 1<<53 + 2, 1e10, 1e-10, 1e300, 1e-300, math.Float64frombits(0x7feffffffffffffe)}
	}
	l = append(l, 0, math.Copysign(0, -1), 1, -1, 2, -2, 3, 0.5, -0.5, 0.25, 1.5, 7, 10, 255, 256, 65536, 1<<31, 1<<32, 1<<63, 1<<64,
		math.Inf(1), math.Inf(-1), math.NaN())
	return l
}
func (k floatKind[T]) Boundary() []val {
	var out []val
	for _, f := range floatBoundary(k.bits) {
		out = append(out, k.mk(T(f)))
	}
	return out
}
func randFloat(bits int, r *rng) float64 {
	switch r.next() % 4 {
	case 0: // any bit pattern
		if bits == 32 {
			return float64(math.Float32frombits(uint32(r.next())))
		}
		return math.Float64frombits(r.next())
	case 1: // small integers
		return float64(int64(r.next()%2001) - 1000)
	case 2: // moderate magnitudes with fraction
		f := float64(int64(r.next()>>11)) / (1 << 40)
		if r.next()%2 == 0 {
			f = -f
		}
		if bits == 32 {
			return float64(float32(f))
		}
		return f
	default: // neighbours of powers of two
		e := int(r.next()%40) - 20
		f := math.Ldexp(1, e)
		if bits == 32 {
			g := float32(f)
			if r.next()%2 == 0 {
				g = math.Nextafter32(g, 0)
			} else {
				g = math.Nextafter32(g, 4*g)
			}
			return float64(g)
		}
		if r.next()%2 == 0 {
			return math.Nextafter(f, 0)
		}
		return math.Nextafter(f, 4*f)
	}
}
func (k floatKind[T]) Random(r *rng) val { return k.mk(T(randFloat(k.bits, r))) }

// ------------------------------------------------------------------ complex

type cplx interface{ ~complex64 | ~complex128 }

type complexKind[T cplx] struct {
	name string
	bits int // 64 or 128
}

func (k complexKind[T]) Name() string     { return k.name }
func (k complexKind[T]) Class() class     { return cComplex }
func (k complexKind[T]) Bits() int        { return k.bits }
func (k complexKind[T]) get(v val) T      { return T(v.c) }
func (k complexKind[T]) mk(x T) val       { return val{c: complex128(x)} }
func (k complexKind[T]) ToReflect(v val) reflect.Value { return reflect.ValueOf(k.get(v)) }
func (k complexKind[T]) FromReflect(rv reflect.Value) (val, error) {
	var z T
	if !rv.IsValid() || rv.Kind() != reflect.TypeOf(z).Kind() {
		return val{}, fmt.Errorf("value has kind %v, want %v", kindOf(rv), reflect.TypeOf(z).Kind())
	}
	return val{c: rv.Complex()}, nil
}
func (k complexKind[T]) FromConst(cv constant.Value) (val, error) {
	cv = constant.ToComplex(cv)
	if cv.Kind() != constant.Complex {
		return val{}, fmt.Errorf("constant %v is not complex", cv)
	}
	if k.bits == 64 {
		re, _ := constant.Float32Val(constant.Real(cv))
		im, _ := constant.Float32Val(constant.Imag(cv))
		return val{c: complex(float64(re), float64(im))}, nil
	}
	re, _ := constant.Float64Val(constant.Real(cv))
	im, _ := constant.Float64Val(constant.Imag(cv))
	return val{c: complex(re, im)}, nil
}
func binComplex[T cplx](op token.Token, x, y T) T {
	switch op {
	case token.ADD:
		return x + y
	case token.SUB:
		return x - y
	case token.MUL:
		return x * y
	case token.QUO:
		return x / y
	}
	panic("binComplex: bad operator " + op.String())
}
func (k complexKind[T]) Bin(op token.Token, a, b val) (val, string) {
	return k.mk(binComplex(op, k.get(a), k.get(b))), pNone
}
func (k complexKind[T]) Cmp(op token.Token, a, b val) bool { return cmpEq(op, k.get(a), k.get(b)) }
func (k complexKind[T]) Un(op token.Token, a val) val {
	x := k.get(a)
	switch op {
	case token.ADD:
		return k.mk(+x)
	case token.SUB:
		return k.mk(-x)
	}
	panic("complexKind.Un: bad operator " + op.String())
}
func (k complexKind[T]) Shift(op token.Token, a val, n uint64) val { panic("shift of complex") }
func (k complexKind[T]) Conv(from kindT, v val) (val, bool) {
	if from.Class() == cComplex {
		return k.mk(T(v.c)), true
	}
	return val{}, false
}
func (k complexKind[T]) Canon(v val) string {
	return k.name + "(" + canonFloat(k.bits/2, real(v.c)) + "," + canonFloat(k.bits/2, imag(v.c)) + ")"
}
func (k complexKind[T]) Lit(v val) (string, bool) {
	re, ok1 := litFloat(k.bits/2, real(v.c))
	im, ok2 := litFloat(k.bits/2, imag(v.c))
	if !ok1 || !ok2 {
		return "", false
	}
	return "(" + re + " + " + im + "i)", true
}
func (k complexKind[T]) Simple(v val) bool { return v.c == 0 || v.c == 1 }
func (k complexKind[T]) Boundary() []val {
	fs := []float64{0, math.Copysign(0, -1), 1, -1, 2, 0.5, 3, 0.1, 1e10, math.Inf(1), math.Inf(-1), math.NaN()}
	if k.bits == 64 {
		fs = append(fs, math.MaxFloat32, math.SmallestNonzeroFloat32, float64(float32(1e-20)))
	} else {
		fs = append(fs, math.MaxFloat64, math.SmallestNonzeroFloat64, 1e-200, 1e200)
	}
	var out []val
	for _, re := range fs {
		for _, im := range fs {
			out = append(out, k.mk(T(complex(re, im))))
		}
	}
	return out
}
func (k complexKind[T]) Random(r *rng) val {
	return k.mk(T(complex(randFloat(k.bits/2, r), randFloat(k.bits/2, r))))
}

// ------------------------------------------------------------------ bool

type boolKind struct{}

func (boolKind) Name() string                    { return "bool" }
func (boolKind) Class() class                    { return cBool }
func (boolKind) Bits() int                       { return 1 }
func (boolKind) ToReflect(v val) reflect.Value   { return reflect.ValueOf(v.b) }
func (boolKind) FromReflect(rv reflect.Value) (val, error) {
	if !rv.IsValid() || rv.Kind() != reflect.Bool {
		return val{}, fmt.Errorf("value has kind %v, want bool", kindOf(rv))
	}
	return val{b: rv.Bool()}, nil
}
func (boolKind) FromConst(cv constant.Value) (val, error) {
	if cv.Kind() != constant.Bool {
		return val{}, fmt.Errorf("constant %v is not a bool", cv)
	}
	return val{b: constant.BoolVal(cv)}, nil
}
func (boolKind) Bin(op token.Token, a, b val) (val, string) {
	x, y := a.b, b.b
	switch op {
	case token.LAND:
		return val{b: x && y}, pNone
	case token.LOR:
		return val{b: x || y}, pNone
	}
	panic("boolKind.Bin: bad operator " + op.String())
}
func (boolKind) Cmp(op token.Token, a, b val) bool { return cmpEq(op, a.b, b.b) }
func (boolKind) Un(op token.Token, a val) val {
	if op != token.NOT {
		panic("boolKind.Un: bad operator " + op.String())
	}
	x := a.b
	return val{b: !x}
}
func (boolKind) Shift(op token.Token, a val, n uint64) val { panic("shift of bool") }
func (boolKind) Conv(from kindT, v val) (val, bool) {
	if from.Class() == cBool {
		return v, true
	}
	return val{}, false
}
func (boolKind) Canon(v val) string       { return "bool(" + strconv.FormatBool(v.b) + ")" }
func (boolKind) Lit(v val) (string, bool) { return strconv.FormatBool(v.b), true }
func (boolKind) Simple(v val) bool        { return true }
func (boolKind) Boundary() []val          { return []val{{b: false}, {b: true}} }
func (boolKind) Random(r *rng) val        { return val{b: r.next()%2 == 0} }

// ------------------------------------------------------------------ string

type stringKind struct{}

func (stringKind) Name() string                  { return "string" }
func (stringKind) Class() class                  { return cString }
func (stringKind) Bits() int                     { return 0 }
func (stringKind) ToReflect(v val) reflect.Value { return reflect.ValueOf(v.s) }
func (stringKind) FromReflect(rv reflect.Value) (val, error) {
	if !rv.IsValid() || rv.Kind() != reflect.String {
		return val{}, fmt.Errorf("value has kind %v, want string", kindOf(rv))
	}
	return val{s: rv.String()}, nil
}
func (stringKind) FromConst(cv constant.Value) (val, error) {
	if cv.Kind() != constant.String {
		return val{}, fmt.Errorf("constant %v is not a string", cv)
	}
	return val{s: constant.StringVal(cv)}, nil
}
func (stringKind) Bin(op token.Token, a, b val) (val, string) {
	if op != token.ADD {
		panic("stringKind.Bin: bad operator " + op.String())
	}
	x, y := a.s, b.s
	return val{s: x + y}, pNone
}
func (stringKind) Cmp(op token.Token, a, b val) bool          { return cmpOrd(op, a.s, b.s) }
func (stringKind) Un(op token.Token, a val) val               { panic("unary operator on string") }
func (stringKind) Shift(op token.Token, a val, n uint64) val  { panic("shift of string") }
func (stringKind) Conv(from kindT, v val) (val, bool) {
	if from.Class() == cString {
		return v, true
	}
	return val{}, false
}
func (stringKind) Canon(v val) string       { return "string(" + strconv.Quote(v.s) + ")" }
func (stringKind) Lit(v val) (string, bool) { return strconv.Quote(v.s), true }
func (stringKind) Simple(v val) bool        { return v.s == "" }
func (stringKind) Boundary() []val {
	var out []val
	for _, s := range []string{"", "a", "ab", "b", "aa", "A", "\x00", "a\x00", "é", "é", "日本語", "ÿ", "z", "ab ", strings.Repeat("a", 40), strings.Repeat("a", 39) + "b"} {
		out = append(out, val{s: s})
	}
	return out
}
func (stringKind) Random(r *rng) val {
	alpha := []string{"a", "b", "c", "z", "A", " ", "0", "é", "日", "\x00", "\\", "\"", "\n"}
	n := int(r.next() % 6)
	var sb strings.Builder
	for i := 0; i < n; i++ {
		sb.WriteString(alpha[r.next()%uint64(len(alpha))])
	}
	return val{s: sb.String()}
}

// ------------------------------------------------------------------ registry

var allKinds = []kindT{
	boolKind{},
	intKind[int]{"int", true, strconv.IntSize},
	intKind[int8]{"int8", true, 8},
	intKind[int16]{"int16", true, 16},
	intKind[int32]{"int32", true, 32},
	intKind[int64]{"int64", true, 64},
	intKind[uint]{"uint", false, strconv.IntSize},
	intKind[uint8]{"uint8", false, 8},
	intKind[uint16]{"uint16", false, 16},
	intKind[uint32]{"uint32", false, 32},
	intKind[uint64]{"uint64", false, 64},
	intKind[uintptr]{"uintptr", false, strconv.IntSize},
	floatKind[float32]{"float32", 32},
	floatKind[float64]{"float64", 64},
	complexKind[complex64]{"complex64", 64},
	complexKind[complex128]{"complex128", 128},
	stringKind{},
}

var kindByName = func() map[string]kindT {
	m := map[string]kindT{}
	for _, k := range allKinds {
		m[k.Name()] = k
	}
	return m
}()

func isIntClass(k kindT) bool { return k.Class() == cInt || k.Class() == cUint }

func kindOf(rv reflect.Value) string {
	if !rv.IsValid() {
		return "invalid"
	}
	return rv.Kind().String()
}

// sameVal compares two values of kind k bit-exactly with every NaN canonical.
func sameVal(k kindT, a, b val) bool { return k.Canon(a) == k.Canon(b) }

// encodeVal / decodeVal: plain text form of a value for replay files.
func encodeVal(k kindT, v val) string {
	switch k.Class() {
	case cBool:
		return strconv.FormatBool(v.b)
	case cInt:
		return strconv.FormatInt(v.i, 10)
	case cUint:
		return strconv.FormatUint(v.u, 10)
	case cFloat:
		return encFloat(k.Bits(), v.f)
	case cComplex:
		return encFloat(k.Bits()/2, real(v.c)) + " " + encFloat(k.Bits()/2, imag(v.c))
	}
	return v.s
}
func encFloat(bits int, f float64) string {
	if f != f {
		return "NaN"
	}
	return strconv.FormatFloat(f, 'g', -1, bits)
}
func decFloat(bits int, s string) (float64, error) {
	f, err := strconv.ParseFloat(s, bits)
	if err != nil && !math.IsInf(f, 0) {
		return 0, err
	}
	return f, nil
}
func decodeVal(k kindT, s string) (val, error) {
	switch k.Class() {
	case cBool:
		b, err := strconv.ParseBool(s)
		return val{b: b}, err
	case cInt:
		n, err := strconv.ParseInt(s, 10, 64)
		return val{i: n}, err
	case cUint:
		n, err := strconv.ParseUint(s, 10, 64)
		return val{u: n}, err
	case cFloat:
		f, err := decFloat(k.Bits(), s)
		return val{f: f}, err
	case cComplex:
		parts := strings.Fields(s)
		if len(parts) != 2 {
			return val{}, fmt.Errorf("bad complex %q", s)
		}
		re, err1 := decFloat(k.Bits()/2, parts[0])
		im, err2 := decFloat(k.Bits()/2, parts[1])
		if err1 != nil {
			return val{}, err1
		}
		return val{c: complex(re, im)}, err2
	}
	return val{s: s}, nil
}

// shiftCount interprets v (of integer kind k) as a shift count: negative counts panic in Go.
func shiftCount(k kindT, v val) (uint64, string) {
	if k.Class() == cInt {
		if v.i < 0 {
			return 0, pNegShift
		}
		return uint64(v.i), pNone
	}
	return v.u, pNone
}

// interesting reports whether the result shows wrapping / special values (used by the non-trivial rule).
func wrapped(k kindT, op token.Token, a, b, r val) bool {
	switch k.Class() {
	case cInt, cUint:
		// exact result with big integers differs from the machine result
		x, y := bigOf(k, a), bigOf(k, b)
		var z *big.Int
		switch op {
		case token.ADD:
			z = new(big.Int).Add(x, y)
		case token.SUB:
			z = new(big.Int).Sub(x, y)
		case token.MUL:
			z = new(big.Int).Mul(x, y)
		case token.QUO:
			if y.Sign() == 0 {
				return true
			}
			z = new(big.Int).Quo(x, y)
		default:
			return false
		}
		return z.Cmp(bigOf(k, r)) != 0
	case cFloat:
		return r.f != r.f || math.IsInf(r.f, 0)
	case cComplex:
		re, im := real(r.c), imag(r.c)
		return re != re || im != im || math.IsInf(re, 0) || math.IsInf(im, 0)
	}
	return false
}
func bigOf(k kindT, v val) *big.Int {
	if k.Class() == cInt {
		return big.NewInt(v.i)
	}
	return new(big.Int).SetUint64(v.u)
}

// rng: splitmix64, seeded from VERIF_SEED and the cell key. Deterministic, no math/rand.
type rng struct{ s uint64 }

func (r *rng) next() uint64 {
	r.s += 0x9e3779b97f4a7c15
	z := r.s
	z = (z ^ (z >> 30)) * 0xbf58476d1ce4e5b9
	z = (z ^ (z >> 27)) * 0x94d049bb133111eb
	return z ^ (z >> 31)
}
func newRng(seed int64, key string) *rng {
	h := uint64(1469598103934665603)
	for i := 0; i < len(key); i++ {
		h ^= uint64(key[i])
		h *= 1099511628211
	}
	r := &rng{s: h ^ uint64(seed)*0x9e3779b97f4a7c15}
	r.next()
	return r
}
