// Exclusions by construction of known findings. Each is active only while the entry is
// listed with status "known" in /verif/known_findings.json (rec.Known); with status
// "fixed" or no entry nothing is excluded and the shape is checked like any other.
package c02

import (
	"go/token"
	"math"
	"os"
	"strings"

	"verif/harness/gobatch"
)

func isVarFamily(sh *shape) bool {
	switch sh.family {
	case "var", "var-captured", "var-global", "var-global-boxed", "blank":
		return true
	}
	return false
}

func isFloaty(k kindT) bool { return k.Class() == cFloat || k.Class() == cComplex }

func (c *cell) isConst() bool { return c.rhs == "const" || c.rhs == "tconst" }

func isZeroVal(k kindT, v val) bool {
	switch k.Class() {
	case cInt:
		return v.i == 0
	case cUint:
		return v.u == 0
	case cFloat:
		return v.f == 0
	case cComplex:
		return v.c == 0
	}
	return false
}

func isPow2Const(k kindT, v val) bool {
	var m uint64
	switch k.Class() {
	case cInt:
		if v.i < 0 {
			m = uint64(-v.i)
		} else {
			m = uint64(v.i)
		}
	case cUint:
		m = v.u
	default:
		return false
	}
	return m >= 2 && m&(m-1) == 0
}

// special reports a component that is zero, infinite or NaN (where the identity
// shortcuts x+0, x*1, x/1 ... differ from IEEE arithmetic) or, if neg, negative.
func specialComponent(k kindT, v val, neg bool) bool {
	sp := func(f float64) bool { return f == 0 || math.IsInf(f, 0) || f != f || (neg && f < 0) }
	if k.Class() == cFloat {
		return sp(v.f)
	}
	return sp(real(v.c)) || sp(imag(v.c))
}

// knownCompile: the whole cell belongs to a known finding.
func knownCompile(c *cell) string {
	k := c.t.k
	if isKnown("F-C02-2") && c.op.text == "^=" && !isVarFamily(c.sh) {
		return "F-C02-2"
	}
	if isKnown("F-C02-3") && c.op.cls == "shift" && !isVarFamily(c.sh) {
		return "F-C02-3"
	}
	if isKnown("F-C02-8") && c.op.text == "/=" && c.isConst() && isFloaty(k) && isZeroVal(k, c.c) {
		return "F-C02-8"
	}
	if isKnown("F-C02-10") && k.Name() == "complex128" && strings.Contains(c.sh.setup, "&x") {
		return "F-C02-10"
	}
	return ""
}

// knownPair: the value pair of the cell belongs to a known finding.
func knownPair(c *cell, a, y val, ex expect) string {
	k := c.t.k
	if c.isConst() && c.op.text == "/=" && isIntClass(k) {
		if isKnown("F-C02-5") && c.sh.family == "var-global-boxed" && isPow2Const(k, c.c) {
			return "F-C02-5"
		}
		if isKnown("F-C02-6") && k.Class() == cUint && isVarFamily(c.sh) && c.c == minusOneOrMax(k) {
			return "F-C02-6"
		}
	}
	if isKnown("F-C02-7") && c.isConst() && isFloaty(k) && c.op.cls == "arith" {
		one, mone := oneOf(k), val{f: -1, c: -1}
		if k.Class() == cFloat {
			mone = val{f: -1}
		} else {
			mone = val{c: -1}
		}
		start := a
		if c.sh.zero {
			start = val{}
		}
		id := false
		neg := false
		switch c.op.tok {
		case token.ADD, token.SUB:
			id = isZeroVal(k, c.c)
		case token.MUL:
			id = isZeroVal(k, c.c) || sameVal(k, c.c, one) || sameVal(k, c.c, mone)
			neg = isZeroVal(k, c.c)
		case token.QUO:
			id = sameVal(k, c.c, one) || sameVal(k, c.c, mone)
		}
		if id && specialComponent(k, start, neg) {
			return "F-C02-7"
		}
	}
	if c.sh.family == "map-elem-absent" && c.isConst() {
		if isKnown("F-C02-4") && identityConst(c) {
			return "F-C02-4"
		}
		if isKnown("F-C02-11") && c.op.text == "/=" && isIntClass(k) && isPow2Const(k, c.c) {
			return "F-C02-11"
		}
	}
	if isKnown("F-C02-9") && readsUint64FarUp(c) {
		return "F-C02-9"
	}
	return ""
}

// identityConst: `place op= c` leaves every value unchanged, the shape for which
// setPlace/setVar compile the statement to "evaluate the place for side effects only".
func identityConst(c *cell) bool {
	k := c.t.k
	if k.Class() == cString {
		return c.op.text == "+=" && c.c.s == ""
	}
	zero := isZeroVal(k, c.c)
	one := sameVal(k, c.c, func() val {
		if k.Class() == cBool {
			return val{}
		}
		return oneOf(k)
	}())
	allOnes := isIntClass(k) && c.c == minusOneOrMax(k)
	switch c.op.text {
	case "+=", "-=", "|=", "^=", "&^=":
		return zero
	case "*=", "/=":
		return one
	case "&=":
		return allOnes
	case "<<=", ">>=":
		return isZeroVal(c.rt.k, c.c)
	}
	return false
}

// readsUint64FarUp: the statement reads a uint64-kind local variable (x for op= and
// ++/--, y for rhs var/call) from inside >= 2 nested closures.
func readsUint64FarUp(c *cell) bool {
	if c.sh.depth < 2 {
		return false
	}
	if (c.rhs == "var" || c.rhs == "call") && c.rt.k.Name() == "uint64" {
		return true
	}
	if c.t.k.Name() == "uint64" && c.op.cls != "set" && (c.sh.family == "var-captured") {
		return true
	}
	return false
}

func knownSeq(p gobatch.Program, got, want gobatch.Result) string { return "" }

// isKnown is rec.Known, except for the ids listed in C02_ASSUME_FIXED (comma separated):
// used to verify a proposed fix in a scratch worktree before the entry's status changes.
func isKnown(id string) bool {
	for _, f := range strings.Split(os.Getenv("C02_ASSUME_FIXED"), ",") {
		if f == id {
			return false
		}
	}
	return rec.Known(id)
}
