// Exclusions by construction of known findings (active only while listed as "known").
package c02

import "verif/harness/gobatch"

// knownCompile: the cell belongs to a known finding that shows when compiling it.
func knownCompile(c *cell) string { return "" }

// knownPair: the value pair of the cell belongs to a known finding.
func knownPair(c *cell, a, y val, ex expect) string { return "" }

func knownSeq(p gobatch.Program, got, want gobatch.Result) string { return "" }
