// C02: assignments and compound assignments on every kind of place behave as in Go.
//
// Layer 1 (sweep_test.go): bounded-exhaustive cell sweep place shape x type x operator x
// rhs shape, evaluated in-process; oracle = Go's native operators applied by the harness
// (kinds_test.go, type parameters) + go/types for validity of the generated text.
// Layer 2 (gen.go, seq_test.go): rapid-generated statement sequences with counting
// index/key functions and multi-assignments, through gobatch against compiled Go.
package c02

import (
	"encoding/json"
	"fmt"
	"os"
	"strings"
	"testing"
	"time"

	"verif/harness/gobatch"
	"verif/harness/vlib"
)

var rec *vlib.Rec

func TestMain(m *testing.M) {
	rec = vlib.Open("C02")
	rec.Rule("layer 1: a cell = (place shape incl. closure depth / storage class, type, operator, rhs shape, constant) compiled once as a function literal and called with boundary and seed-derived value pairs; " +
		"a cell is non-trivial when one of its pairs wraps around / panics / yields a non-finite value, or when the place contains counting index/key/pointer functions whose call count was checked (>0). " +
		"layer 2: a case = a generated program (<= 14 statements: assignments, op=, ++/--, multi-assignments incl. swaps, `i, a[i] = ...`, blanks, tuple calls, comma-ok, inside closures up to depth 3); " +
		"non-trivial when its trace contains >= 2 calls of counting functions inside one multi-assignment or op= statement (order and single evaluation observable) or a wrapped/panicking operation; distinct = distinct cell keys / program texts")
	rec.Assume("layer 1 oracle: gc-compiled native operators of the harness (type parameters), go/types for validity; harness module runs with godebug default=go1.18 as gomacro's own module")
	rec.Assume("layer 2 oracle: gc toolchain at language level go1.18, traces formatted by the same compiled recorder on both sides")
	// generated programs contain no loop and no recursion: termination holds by construction,
	// so the engine's wall-clock safety net is only ever hit by machine overload
	// (observed: a three-statement replay "hung" for 40 s at load average 1000).
	gobatch.EvalTimeout = 10 * time.Minute
	os.Exit(vlib.Main(m, rec))
}

// replay: layer-1 cells are JSON objects {"layer":"cell",...}; everything else is a gobatch program.
func replay(content []byte) error {
	if _, ok := gobatch.ParseReplay(content); ok {
		err := gobatch.Replayer(knownSeq)(content)
		if err != nil && strings.Contains(err.Error(), `gomacro error: "hang (`) {
			// loop-free program: a timeout of the safety net is infrastructure, never a verdict
			return vlib.Inconclusive("interpreter evaluation hit the wall-clock safety net (machine overload)")
		}
		return err
	}
	var rc replayCell
	if err := json.Unmarshal(content, &rc); err != nil || rc.Layer != "cell" {
		return nil
	}
	return replayCellCheck(rc)
}

func TestReplays(t *testing.T) {
	rec.RunReplays(t, replay)
}

var _ = fmt.Sprint
