// Layer 2 of C02: rapid generator of statement sequences over places, for gobatch.
package c02

import (
	"fmt"
	"math/big"
	"strings"

	"pgregory.net/rapid"

	"verif/harness/gobatch"
	"verif/harness/progen"
)

type elemType struct {
	name string
	cls  string // "int", "uint", "float", "complex", "string"
	bits int
}

var elemTypes = []elemType{
	{"int", "int", 64}, {"int8", "int", 8}, {"int16", "int", 16}, {"int32", "int", 32}, {"int64", "int", 64},
	{"uint", "uint", 64}, {"uint8", "uint", 8}, {"uint16", "uint", 16}, {"uint32", "uint", 32}, {"uint64", "uint", 64}, {"uintptr", "uint", 64},
	{"float32", "float", 32}, {"float64", "float", 64}, {"complex64", "complex", 64}, {"complex128", "complex", 128}, {"string", "string", 0},
}

type sgen struct {
	*progen.G
	T       elemType
	px      string
	tag     int  // numbering of counting-function calls
	nt      string
	maxWrap int  // maximal closure nesting of a statement
	stmtN   int
}

func (g *sgen) known(id string) bool { return isKnown(id) }

func (g *sgen) isInt() bool { return g.T.cls == "int" || g.T.cls == "uint" }

// lits: constants of type T that fit (typed context), boundary-heavy.
func (g *sgen) lits(forOp string) []string {
	T := g.T
	switch T.cls {
	case "int":
		max := new(big.Int).Sub(new(big.Int).Lsh(big.NewInt(1), uint(T.bits-1)), big.NewInt(1))
		min := new(big.Int).Neg(new(big.Int).Add(max, big.NewInt(1)))
		l := []string{"2", "3", "5", "7", "-1", "-2", "-7", "100", max.String(), new(big.Int).Sub(max, big.NewInt(1)).String(),
			min.String(), new(big.Int).Add(min, big.NewInt(1)).String(), new(big.Int).Lsh(big.NewInt(1), uint(T.bits-2)).String(), "4", "8", "-8", "16"}
		if forOp != "/" {
			l = append(l, "0", "1")
		} else {
			l = append(l, "1")
		}
		return l
	case "uint":
		max := new(big.Int).Sub(new(big.Int).Lsh(big.NewInt(1), uint(T.bits)), big.NewInt(1))
		l := []string{"2", "3", "5", "7", "100", new(big.Int).Sub(max, big.NewInt(1)).String(), new(big.Int).Lsh(big.NewInt(1), uint(T.bits-1)).String(), "4", "8", "16"}
		if !(forOp == "/" && g.known("F-C02-6")) {
			l = append(l, max.String())
		}
		if forOp != "/" {
			l = append(l, "0", "1")
		} else {
			l = append(l, "1")
		}
		return l
	case "float":
		l := []string{"0.5", "1.5", "2", "-3.25", "1e10", "100", "0.1", "-2"}
		if forOp == "" || !(g.known("F-C02-7") || g.known("F-C02-8")) {
			l = append(l, "1", "-1")
			if forOp != "/" || !g.known("F-C02-8") {
				l = append(l, "0")
			}
		}
		return l
	case "complex":
		l := []string{"(1.5+2i)", "(0.5-1i)", "2i", "(3+0.25i)", "(-2+1i)"}
		if forOp == "" {
			l = append(l, "0", "1")
		}
		return l
	}
	return []string{`""`, `"a"`, `"bc"`, `"é"`, `"x y"`}
}

func (g *sgen) lit(forOp string) string {
	l := g.lits(forOp)
	return l[g.Pick(len(l), "lit")]
}

func (g *sgen) nextTag() int { g.tag++; return g.tag }

// idx4: an int expression with value in [0,4).
func (g *sgen) idx4() string {
	switch g.Pick(7, "idx4") {
	case 0:
		return fmt.Sprint(g.Int(0, 3, "idx-lit"))
	case 1:
		return "i"
	case 2:
		return "j"
	case 3, 4:
		return fmt.Sprintf("%sk(%d, %d)", g.px, g.nextTag(), g.Int(0, 3, "idx-lit"))
	case 5:
		return fmt.Sprintf("%sk(%d, %s)", g.px, g.nextTag(), g.OneOf("idx-var", "i", "j"))
	default:
		return "(i+1)&3"
	}
}

// idx2: value in [0,2).
func (g *sgen) idx2() string {
	switch g.Pick(4, "idx2") {
	case 0:
		return fmt.Sprint(g.Int(0, 1, "idx-lit"))
	case 1:
		return "i&1"
	default:
		return fmt.Sprintf("%sk(%d, %d)", g.px, g.nextTag(), g.Int(0, 1, "idx-lit"))
	}
}

func (g *sgen) mapKey() string {
	if g.Chance(1, 4, "absent-key") {
		if g.Bool("absent-call") {
			return fmt.Sprintf("%sk(%d, %d)", g.px, g.nextTag(), g.Int(5, 9, "key"))
		}
		return fmt.Sprint(g.Int(5, 9, "key"))
	}
	return g.idx4()
}

func (g *sgen) strKey() string {
	switch g.Pick(4, "strkey") {
	case 0:
		return `"a"`
	case 1:
		return `"b"`
	case 2:
		return fmt.Sprintf(`%sks(%d, %s)`, g.px, g.nextTag(), g.OneOf("sk", `"a"`, `"b"`, `"zz"`))
	default:
		return `"zz"`
	}
}

type placeT struct {
	text  string
	isVar bool // plain identifier
	isMap bool // map element (last index is a map key)
}

// place of type T.
func (g *sgen) place() placeT {
	switch g.Pick(16, "place") {
	case 0:
		return placeT{text: "x0", isVar: true}
	case 1:
		return placeT{text: "x1", isVar: true}
	case 2:
		return placeT{text: g.px + "g1", isVar: true}
	case 3:
		if g.Bool("ptr-call") {
			return placeT{text: fmt.Sprintf("*%skp(%d, px)", g.px, g.nextTag())}
		}
		return placeT{text: "*px"}
	case 4, 5:
		return placeT{text: "arr[" + g.idx4() + "]"}
	case 6, 7:
		return placeT{text: "sl[" + g.idx4() + "]"}
	case 8, 9:
		return placeT{text: "m[" + g.mapKey() + "]", isMap: true}
	case 10:
		return placeT{text: "ms[" + g.strKey() + "]", isMap: true}
	case 11:
		return placeT{text: g.OneOf("field", "st.f", "ps.f", g.px+"gs.f", "st.in.f", "ps.in.f")}
	case 12:
		return placeT{text: "as[" + g.idx2() + "].f"}
	case 13:
		return placeT{text: "mp[" + g.idx2() + "].f"}
	case 14:
		return placeT{text: "msl[" + g.idx2() + "][" + g.idx2() + "]"}
	default:
		return placeT{text: "pa[" + g.idx4() + "]"}
	}
}

// pure: an expression of type T without calls (reads only).
func (g *sgen) pure() string {
	switch g.Pick(8, "pure") {
	case 0, 1:
		return g.lit("")
	case 2:
		return "x0"
	case 3:
		return "x1"
	case 4:
		return fmt.Sprintf("arr[%d]", g.Int(0, 3, "i"))
	case 5:
		return fmt.Sprintf("sl[%d]", g.Int(0, 3, "i"))
	case 6:
		return "st.f"
	default:
		return fmt.Sprintf("m[%d]", g.Int(0, 3, "i"))
	}
}

// rhs of type T (calls allowed).
func (g *sgen) rhs(depth int) string {
	T := g.T.name
	if depth <= 0 {
		return g.pure()
	}
	switch g.Pick(9, "rhs") {
	case 0, 1:
		return g.pure()
	case 2, 3:
		return fmt.Sprintf("%sf(%d, %s)", g.px, g.nextTag(), g.rhs(depth-1))
	case 4, 5:
		var ops []string
		switch g.T.cls {
		case "int", "uint":
			ops = []string{"+", "-", "*", "&", "|", "^", "&^"}
		case "float", "complex":
			ops = []string{"+", "-", "*"}
		default:
			ops = []string{"+"}
		}
		// operands are never constants: constant shortcuts of binary expressions are C01's business
		a, b := g.rhs(depth-1), g.rhs(depth-1)
		if isLitText(a) {
			a = "x0"
		}
		if isLitText(b) {
			b = "x1"
		}
		return "(" + a + " " + ops[g.Pick(len(ops), "binop")] + " " + b + ")"
	case 6:
		if g.T.cls == "string" || g.T.cls == "complex" {
			return g.pure()
		}
		return T + "(i + 2)"
	case 7:
		return "*px"
	default:
		return g.place().text // any place read as a value
	}
}

// typed gives a literal the type T explicitly (for blank destinations, where an untyped
// constant would take its default type).
func (g *sgen) typed(r string) string {
	if isLitText(r) {
		return g.T.name + "(" + r + ")"
	}
	return r
}

func isLitText(s string) bool {
	if s == "" {
		return false
	}
	c := s[0]
	return c == '"' || c == '-' || (c >= '0' && c <= '9') || (c == '(' && len(s) > 1 && (s[1] == '-' || (s[1] >= '0' && s[1] <= '9')))
}

func countCalls(s, px string) int {
	return strings.Count(s, px+"k(") + strings.Count(s, px+"ks(") + strings.Count(s, px+"f(") + strings.Count(s, px+"kp(") + strings.Count(s, px+"two(")
}

// opAssign: `P op= R`.
func (g *sgen) opAssign() string {
	var ops []string
	switch g.T.cls {
	case "int", "uint":
		ops = []string{"+", "-", "*", "/", "%", "&", "|", "^", "&^", "<<", ">>"}
	case "float", "complex":
		ops = []string{"+", "-", "*", "/"}
	default:
		ops = []string{"+"}
	}
	op := ops[g.Pick(len(ops), "op")]
	p := g.place()
	if !p.isVar {
		if op == "^" && g.known("F-C02-2") {
			g.Tag("avoided:F-C02-2")
			op = "|"
		}
		if (op == "<<" || op == ">>") && g.known("F-C02-3") {
			g.Tag("avoided:F-C02-3")
			op = "+"
		}
	}
	var r string
	switch {
	case op == "<<" || op == ">>":
		switch g.Pick(4, "shift-count") {
		case 0:
			r = fmt.Sprint(g.OneOf("cnt", "0", "1", "3", "7", "8", "31", "33", "63", "64", "70"))
		case 1:
			r = "uint(i)"
		case 2:
			r = "i + j"
		default:
			r = fmt.Sprintf("uint8(%sk(%d, %d))", g.px, g.nextTag(), g.Int(0, 9, "cnt"))
		}
	case g.Chance(2, 5, "const-rhs"):
		o := "+" // op= constants: float identities are avoided while F-C02-7 is known
		if op == "/" || op == "%" {
			o = "/"
		}
		r = g.lit(o)
		if p.isMap && g.isInt() {
			// identity constants / powers of two on map elements: F-C02-4, F-C02-11
			if g.known("F-C02-4") && (r == "0" || r == "1" || r == "-1" || strings.HasPrefix(r, "255") || strings.HasPrefix(r, "65535") || strings.HasPrefix(r, "4294967295") || strings.HasPrefix(r, "18446744073709551615")) {
				g.Tag("avoided:F-C02-4")
				r = "3"
			}
			if g.known("F-C02-11") && op == "/" && (r == "2" || r == "4" || r == "8" || r == "16" || strings.HasSuffix(r, "8") && len(r) > 3) {
				g.Tag("avoided:F-C02-11")
				r = "3"
			}
		}
		if p.isMap && g.T.cls == "string" && g.known("F-C02-4") && r == `""` {
			r = `"q"`
		}
	default:
		r = g.rhs(2)
		if isLitText(r) {
			// constants only come from the branch above, which knows the known findings
			r = "x1"
		}
		if (op == "/" || op == "%") && g.isInt() {
			r = "(" + r + " | 1)"
			if isLitText(strings.TrimPrefix(r, "(")) {
				r = "(x1 | 1)"
			}
		}
	}
	if p.isMap && op == "/" && g.isInt() && g.known("F-C02-11") && isLitText(r) {
		// any remaining power of two (boundary literals like 1<<(b-2), 1<<(b-1))
		n, ok := new(big.Int).SetString(r, 10)
		if ok {
			n.Abs(n)
			if n.BitLen() > 1 && new(big.Int).And(n, new(big.Int).Sub(n, big.NewInt(1))).Sign() == 0 {
				r = "3"
			}
		}
	}
	g.Tag("op=:" + op)
	return p.text + " " + op + "= " + r
}

func (g *sgen) incDec() string {
	if g.T.cls == "string" {
		return g.simple()
	}
	g.Tag("incdec")
	return g.place().text + g.OneOf("incdec", "++", "--")
}

func (g *sgen) simple() string {
	g.Tag("assign")
	return g.place().text + " = " + g.rhs(2)
}

// multi-assignments
func (g *sgen) multi() string {
	switch g.Pick(10, "multi") {
	case 0: // swap of two places
		a, b := g.place().text, g.place().text
		if g.Chance(2, 5, "swap-vars") {
			// plain variables on both sides: the two-variable fast path of Comp.assign2
			vs := []string{"x0", "x1", g.px + "g1"}
			k := g.Pick(3, "swap-var")
			a, b = vs[k], vs[(k+1+g.Pick(2, "swap-var2"))%3]
			g.Tag("multi:swap-vars")
		}
		if countCalls(a+b, g.px) > 0 {
			// a place containing a counting call would be evaluated twice in a swap text
			a, b = "x0", "arr[i]"
		}
		g.Tag("multi:swap")
		return fmt.Sprintf("%s, %s = %s, %s", a, b, b, a)
	case 1: // index variable and element indexed by it
		g.Tag("multi:i,a[i]")
		c := g.Int(0, 3, "new-i")
		arr := g.OneOf("cont", "arr", "sl", "m", "pa")
		if g.Bool("order") {
			return fmt.Sprintf("i, %s[i] = %d, %s", arr, c, g.rhs(1))
		}
		return fmt.Sprintf("%s[i], i = %s, %d", arr, g.rhs(1), c)
	case 2: // element swap
		g.Tag("multi:a[i],a[j]")
		arr := g.OneOf("cont", "arr", "sl", "m", "pa")
		return fmt.Sprintf("%s[i], %s[j] = %s[j], %s[i]", arr, arr, arr, arr)
	case 3: // three places, maybe blanks
		g.Tag("multi:3")
		l := make([]string, 3)
		r := make([]string, 3)
		for k := range l {
			if g.Chance(1, 4, "blank") {
				l[k] = "_"
				g.Tag("multi:blank")
			} else {
				l[k] = g.place().text
			}
		}
		for k := range r {
			r[k] = g.rhs(1)
			if l[k] == "_" {
				r[k] = g.typed(r[k])
			}
		}
		return strings.Join(l, ", ") + " = " + strings.Join(r, ", ")
	case 4: // tuple-returning call
		g.Tag("multi:tuple-call")
		l0, l1 := g.place().text, g.OneOf("intdst", "i", "j", "_")
		if g.Chance(1, 4, "blank") {
			l0 = "_"
			g.Tag("multi:blank")
		}
		t := g.nextTag()
		return fmt.Sprintf("%s, %s = %stwo(%d, %s, %d)", l0, l1, g.px, t, g.rhs(1), g.Int(0, 3, "new-i"))
	case 5: // comma-ok
		g.Tag("multi:comma-ok")
		l0 := g.place().text
		if g.Chance(1, 4, "blank") {
			l0 = "_"
			g.Tag("multi:blank")
		}
		if g.Bool("strmap") {
			return fmt.Sprintf("%s, ok = ms[%s]", l0, g.strKey())
		}
		return fmt.Sprintf("%s, ok = m[%s]", l0, g.mapKey())
	case 6: // two places with blank
		g.Tag("multi:blank")
		if g.Bool("side") {
			return fmt.Sprintf("_, %s = %s, %s", g.place().text, g.typed(g.rhs(1)), g.rhs(1))
		}
		return fmt.Sprintf("%s, _ = %s, %s", g.place().text, g.rhs(1), g.typed(g.rhs(1)))
	case 7: // container variable and its element: operands of the index expression are evaluated first
		g.Tag("multi:container,elem")
		switch g.Pick(4, "cont") {
		case 0:
			return fmt.Sprintf("sl, sl[%s] = sl2, %s", g.idx4(), g.rhs(1))
		case 1:
			return fmt.Sprintf("m, m[%s] = m2, %s", g.idx4(), g.rhs(1))
		case 2:
			if !(g.T.name == "complex128" && g.known("F-C02-10")) {
				return fmt.Sprintf("px, *px = &x1, %s", g.rhs(1))
			}
			fallthrough
		default:
			return fmt.Sprintf("ps, ps.f = &st, %s", g.rhs(1))
		}
	case 8: // same place twice: assignments are carried out left to right
		g.Tag("multi:same-place")
		p := g.OneOf("same", "x0", "arr[1]", "sl[i]", "m[2]", "st.f", "*px")
		return fmt.Sprintf("%s, %s = %s, %s", p, p, g.rhs(1), g.rhs(1))
	default: // two arbitrary places
		g.Tag("multi:2")
		return fmt.Sprintf("%s, %s = %s, %s", g.place().text, g.place().text, g.rhs(1), g.rhs(1))
	}
}

// panicking: a single statement that panics at run time in Go, with a right-hand side
// free of calls (when the bounds check happens relative to rhs calls is not pinned down).
func (g *sgen) panicking() string {
	g.Tag("panicking")
	var s string
	n := 6
	if g.isInt() {
		n = 9
	}
	switch g.Pick(n, "panic") {
	case 0:
		s = fmt.Sprintf("sl[big] = %s", g.pure())
	case 1:
		s = fmt.Sprintf("arr[%sk(%d, big)] = %s", g.px, g.nextTag(), g.pure())
	case 2:
		s = fmt.Sprintf("nm[%s] = x1", g.idx4())
	case 3:
		s = "*np = x1"
	case 4:
		s = "nps.f = x1"
	case 5:
		if g.T.cls == "string" {
			s = "sl[big] += x1"
		} else {
			s = "sl[big]++"
		}
	case 6:
		s = g.OneOf("div-place", "x0", "arr[1]", "st.f", g.px+"g1") + " " + g.OneOf("divop", "/", "%") + "= zz"
	case 7:
		s = "x0 " + g.OneOf("shop", "<<", ">>") + "= neg"
	default:
		s = "m[" + g.idx4() + "] /= zz"
	}
	return "func() {\n\tdefer func() { rec.R(\"rec\", recover()) }()\n\t" + s + "\n}()"
}

// depMulti: a multi-assignment with 2-4 places in any mix and order of {variable, index
// variable, a[i], m[k], *px, ps.f, x[i].f, blank} whose index / key / pointer operands read
// variables (i, j, px, ps) that may be ASSIGNED BY THE SAME STATEMENT, before or after them
// in the list; right-hand sides all constants, all non-constants or mixed (gomacro chooses
// between a plain sequence of single assignments and the two-phase form by these properties).
func (g *sgen) depMulti() string {
	type dplace struct {
		text  string
		typ   string // "T", "int", "px", "ps", "blankT", "blankI"
		sets  string // control variable assigned by this place
		reads []string
	}
	n := g.Int(2, 4, "dep-n")
	mode := g.OneOf("dep-mode", "const", "nonconst", "mixed")
	ptrOK := mode != "const" && !(g.T.name == "complex128" && g.known("F-C02-10"))
	idxOf := func(v string) (string, []string) {
		other := "j"
		if v == "j" {
			other = "i"
		}
		switch g.Pick(5, "dep-idx") {
		case 0, 1:
			return v, []string{v}
		case 2:
			return "(" + v + "+1)&3", []string{v}
		case 3:
			return "(" + v + "+" + other + ")&3", []string{"i", "j"}
		default:
			return fmt.Sprintf("%sk(%d, %s)", g.px, g.nextTag(), v), []string{v}
		}
	}
	dependent := func(v string) dplace {
		ix, rd := idxOf(v)
		switch g.Pick(8, "dep-place") {
		case 0:
			return dplace{text: "arr[" + ix + "]", typ: "T", reads: rd}
		case 1:
			return dplace{text: "sl[" + ix + "]", typ: "T", reads: rd}
		case 2:
			return dplace{text: "pa[" + ix + "]", typ: "T", reads: rd}
		case 3:
			return dplace{text: "m[" + ix + "]", typ: "T", reads: rd}
		case 4:
			return dplace{text: "m[" + v + "+5]", typ: "T", reads: []string{v}}
		case 5:
			return dplace{text: "as[" + v + "&1].f", typ: "T", reads: []string{v}}
		case 6:
			return dplace{text: "mp[" + v + "&1].f", typ: "T", reads: []string{v}}
		default:
			return dplace{text: "msl[" + v + "&1][(" + v + ">>1)&1]", typ: "T", reads: []string{v}}
		}
	}
	anyPlace := func() dplace {
		switch k := g.Pick(12, "dep-kind"); {
		case k < 2:
			return dplace{text: g.OneOf("dep-var", "x0", "x1", g.px+"g1"), typ: "T"}
		case k < 4:
			v := g.OneOf("dep-ivar", "i", "j")
			return dplace{text: v, typ: "int", sets: v}
		case k < 7:
			return dependent(g.OneOf("dep-ivar", "i", "j"))
		case k < 8:
			return dplace{text: "*px", typ: "T", reads: []string{"px"}}
		case k < 9:
			f := g.OneOf("dep-field", "ps.f", "ps.in.f", "st.f")
			if f == "st.f" {
				return dplace{text: f, typ: "T"}
			}
			return dplace{text: f, typ: "T", reads: []string{"ps"}}
		case k < 10:
			if ptrOK {
				if g.Bool("dep-ptr") {
					return dplace{text: "px", typ: "px", sets: "px"}
				}
				return dplace{text: "ps", typ: "ps", sets: "ps"}
			}
			return dplace{text: g.OneOf("dep-var", "x0", "x1", g.px+"g1"), typ: "T"}
		default:
			if g.Bool("dep-blank-int") {
				return dplace{text: "_", typ: "blankI"}
			}
			return dplace{text: "_", typ: "blankT"}
		}
	}
	pl := make([]dplace, n)
	for k := range pl {
		pl[k] = anyPlace()
	}
	if g.Chance(3, 4, "dep-force") {
		// make sure a control variable and a place reading it meet in the statement, in either order
		v := g.OneOf("dep-ivar", "i", "j")
		a := g.Pick(n, "dep-pos-a")
		b := (a + 1 + g.Pick(n-1, "dep-pos-b")) % n
		pl[a] = dplace{text: v, typ: "int", sets: v}
		pl[b] = dependent(v)
	}
	// right-hand sides
	isConst := make([]bool, n)
	for k := range isConst {
		switch mode {
		case "const":
			isConst[k] = true
		case "mixed":
			isConst[k] = g.Bool("dep-rhs-const")
		}
	}
	if mode == "mixed" {
		isConst[0], isConst[n-1] = g.Bool("dep-first-const"), false
		if !isConst[0] {
			isConst[n-1] = true
		}
	}
	r := make([]string, n)
	nconst := 0
	for k, p := range pl {
		c := isConst[k]
		switch p.typ {
		case "int", "blankI":
			if c {
				r[k] = fmt.Sprint(g.Int(0, 3, "dep-int"))
			} else {
				r[k] = g.OneOf("dep-int-expr", "(i+1)&3", "(j+2)&3", "j", "i", "(i^j)&3", fmt.Sprintf("%sk(%d, %d)", g.px, g.nextTag(), g.Int(0, 3, "dep-int")))
			}
		case "px":
			c = false
			r[k] = g.OneOf("dep-px", "&x0", "&x1")
		case "ps":
			c = false
			r[k] = g.OneOf("dep-ps", "&st", "&"+g.px+"gs")
		default:
			if c {
				r[k] = g.lit("")
				if p.typ == "blankT" {
					r[k] = g.typed(r[k])
				}
			} else {
				r[k] = g.OneOf("dep-T-expr", "x0", "x1", "arr[2]", "sl[1]", "(x0 + x1)", fmt.Sprintf("%sf(%d, x1)", g.px, g.nextTag()), "st.f", "m[1]")
			}
		}
		if c {
			nconst++
		}
	}
	// labels
	g.Tag(fmt.Sprintf("dep:places=%d", n))
	switch {
	case nconst == n:
		g.Tag("dep:rhs=all-const")
	case nconst == 0:
		g.Tag("dep:rhs=all-nonconst")
	default:
		g.Tag("dep:rhs=mixed")
	}
	last := pl[n-1]
	if last.sets != "" || (last.typ == "T" && len(last.reads) == 0) || last.text == "_" {
		g.Tag("dep:last-place=variable-or-blank")
	} else {
		g.Tag("dep:last-place=non-variable")
	}
	dep := false
	for k, p := range pl {
		for _, rd := range p.reads {
			for q, o := range pl {
				if o.sets == rd && q < k {
					g.Tag("dep:operand-reads-variable-assigned-before")
					dep = true
				} else if o.sets == rd && q > k {
					g.Tag("dep:operand-reads-variable-assigned-after")
					dep = true
				}
			}
		}
	}
	if dep {
		g.Tag(fmt.Sprintf("dep:dependent,places=%d,const=%d", n, nconst))
		g.nt = "multi-assignment whose index/key/pointer operand reads a variable assigned by the same statement"
	} else {
		g.Tag("dep:independent")
	}
	l := make([]string, n)
	for k, p := range pl {
		l[k] = p.text
	}
	return strings.Join(l, ", ") + " = " + strings.Join(r, ", ")
}

func (g *sgen) stmt() string {
	g.stmtN++
	var s string
	multi := false
	switch k := g.Pick(25, "stmt") - 5; {
	case k < 0:
		s = g.depMulti()
		multi = true
	case k < 4:
		s = g.simple()
	case k < 9:
		s = g.opAssign()
	case k < 11:
		s = g.incDec()
	case k < 18:
		s = g.multi()
		multi = true
	case k < 19:
		g.Tag("blank-assign")
		s = "_ = " + g.typed(g.rhs(2))
	default:
		if g.nt == "" {
			g.nt = "panicking-statement"
		}
		return g.panicking()
	}
	if strings.HasPrefix(g.nt, "multi-assignment whose") {
		// keep the strongest class
	} else if nc := countCalls(s, g.px); nc >= 2 && (multi || strings.Contains(s, "= ") && !strings.Contains(s, " = ")) {
		g.nt = "order-observable(>=2 counting calls in one multi-assignment or op=)"
	} else if nc >= 2 && g.nt == "" {
		g.nt = "order-observable(>=2 counting calls in one assignment)"
	}
	if g.maxWrap > 0 && g.Chance(1, 3, "wrap") {
		d := g.Int(1, g.maxWrap, "wrap-depth")
		g.Tag(fmt.Sprintf("closure-depth-%d", d))
		for i := 0; i < d; i++ {
			s = "func() {\n" + progen.Indent(s) + "}()"
		}
	}
	return s
}

// Generate builds one program.
func Generate(t *rapid.T, px string) gobatch.Program {
	g := &sgen{G: progen.New(t, px, 100), px: px}
	g.T = elemTypes[g.Pick(len(elemTypes), "elem-type")]
	T := g.T.name
	g.Tag("type:" + T)
	g.maxWrap = 3
	if T == "uint64" && g.known("F-C02-9") {
		g.maxWrap = 1
	}
	lit := func() string { return g.lit("") }

	var decls []string
	decls = append(decls,
		fmt.Sprintf("type %sIn struct {\n\tn int\n\tf %s\n}", px, T),
		fmt.Sprintf("type %sS struct {\n\tpad int8\n\tf %s\n\tname string\n\tin %sIn\n}", px, T, px),
		fmt.Sprintf("var %sg1 %s = %s", px, T, lit()),
		fmt.Sprintf("var %sgs = %sS{f: %s}", px, px, lit()),
		fmt.Sprintf("func %sk(t int, v int) int {\n\trec.E(\"k\", t, v)\n\treturn v\n}", px),
		fmt.Sprintf("func %sks(t int, v string) string {\n\trec.E(\"ks\", t, v)\n\treturn v\n}", px),
		fmt.Sprintf("func %sf(t int, v %s) %s {\n\trec.E(\"f\", t, v)\n\treturn v\n}", px, T, T),
		fmt.Sprintf("func %skp(t int, p *%s) *%s {\n\trec.E(\"kp\", t)\n\treturn p\n}", px, T, T),
		fmt.Sprintf("func %stwo(t int, v %s, n int) (%s, int) {\n\trec.E(\"two\", t, v, n)\n\treturn v, n\n}", px, T, T),
	)

	var b strings.Builder
	w := func(format string, args ...interface{}) { fmt.Fprintf(&b, format+"\n", args...) }
	w("var x0, x1 %s = %s, %s", T, lit(), lit())
	w("i, j := %d, %d", g.Int(0, 3, "i0"), g.Int(0, 3, "j0"))
	w("arr := [4]%s{%s, %s, %s, %s}", T, lit(), lit(), lit(), lit())
	w("pa := &arr")
	w("sl := []%s{%s, %s, %s, %s}", T, lit(), lit(), lit(), lit())
	w("sl2 := []%s{%s, %s, %s, %s}", T, lit(), lit(), lit(), lit())
	w("m := map[int]%s{0: %s, 1: %s, 2: %s}", T, lit(), lit(), lit())
	w("m2 := map[int]%s{3: %s}", T, lit())
	w("ms := map[string]%s{\"a\": %s, \"b\": %s}", T, lit(), lit())
	w("st := %sS{f: %s, name: \"st\"}", px, lit())
	w("ps := &%sS{f: %s, name: \"ps\"}", px, lit())
	w("var as [2]%sS", px)
	w("as[1].f = %s", lit())
	w("mp := map[int]*%sS{0: &%sS{f: %s}, 1: &%sS{name: \"one\"}}", px, px, lit(), px)
	w("msl := map[int][]%s{0: {%s, %s}, 1: {%s, %s}}", T, lit(), lit(), lit(), lit())
	if T == "complex128" && g.known("F-C02-10") {
		w("px := new(%s)", T)
		w("*px = %s", lit())
	} else {
		w("px := &x0")
	}
	w("ok := false")
	w("big, neg := 9, -1")
	w("var zz %s", T)
	w("var nm map[int]%s", T)
	w("var np *%s", T)
	w("var nps *%sS", px)
	w("_, _, _, _, _, _, _ = big, neg, zz, nm, np, nps, pa")
	w("dump := func(n int) {")
	w("\trec.E(n, x0, x1, %sg1, i, j, ok, arr, sl, sl2, *px)", px)
	w("\trec.E(n, m, m2, ms, st, *ps, as, %sgs, msl, *mp[0], *mp[1], len(sl), len(m))", px)
	w("}")
	w("dump(0)")
	n := g.Int(3, 14, "nstmts")
	for k := 1; k <= n; k++ {
		w("%s", g.stmt())
		w("dump(%d)", k)
	}
	decls = append(decls, fmt.Sprintf("func %smain() {\n%s}", px, progen.Indent(b.String())))
	p := gobatch.Program{Decls: decls, Entry: px + "main", Tags: g.TagList(), NT: g.nt}
	return p
}
