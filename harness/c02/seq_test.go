package c02

import (
	"testing"

	"verif/harness/gobatch"
)

func TestSequences(t *testing.T) {
	gobatch.Run(t, gobatch.Config{
		Rec: rec, Name: "c02", N: rec.Scale(250, 2500),
		Gen: Generate, Known: knownSeq,
	})
}
