package c02

import (
	"testing"
	"time"
)

func TestZZBench(t *testing.T) {
	e := getEngine()
	sw := &sweeper{e: e, t: t, classes: map[string]bool{}, bcache: map[string][]val{}, ccache: map[string][]val{}, seed: 1}
	sh := shapeByName("map")
	ty, _ := typeByName("int16")
	cells := sw.cellsOf(sh, ty, 1)
	t0 := time.Now()
	for _, c := range cells {
		e.vet(c.source())
	}
	t1 := time.Now()
	var fns []interface{}
	for _, c := range cells {
		fn, _ := e.compile(c)
		fns = append(fns, fn)
	}
	t2 := time.Now()
	c := cells[1]
	fn, _ := e.compile(c)
	for i := 0; i < 10000; i++ {
		e.call(c, fn, val{i: 5}, val{i: 3})
	}
	t3 := time.Now()
	t.Logf("%d cells: vet %v each, compile %v each, call %v each", len(cells), t1.Sub(t0)/time.Duration(len(cells)), t2.Sub(t1)/time.Duration(len(cells)), t3.Sub(t2)/10000)
}
