// Layer 1 of C02: the cell sweep (in-process, native-operator oracle).
package c02

import (
	"bytes"
	"encoding/json"
	"fmt"
	"go/ast"
	"go/parser"
	"go/token"
	"go/types"
	"os"
	"reflect"
	"sort"
	"strconv"
	"strings"
	"testing"
	"time"

	"github.com/cosmos72/gomacro/fast"
	"github.com/cosmos72/gomacro/imports"

	grec "verif/harness/gobatch/rec"
	"verif/harness/vlib"
)

// ------------------------------------------------------------------ types

type ctype struct {
	k     kindT
	named bool
}

func (t ctype) src() string {
	if t.named {
		return "N_" + t.k.Name()
	}
	return t.k.Name()
}

func typeByName(s string) (ctype, bool) {
	named := strings.HasPrefix(s, "N_")
	k, ok := kindByName[strings.TrimPrefix(s, "N_")]
	return ctype{k, named}, ok
}

func allTypes() []ctype {
	var out []ctype
	for _, k := range allKinds {
		out = append(out, ctype{k, false})
	}
	for _, k := range allKinds {
		out = append(out, ctype{k, true})
	}
	return out
}

// ------------------------------------------------------------------ place shapes

// A shape is a template of a function literal
//
//	(func(a T, y R) (T, int, bool) { cnt = 0; var z T; SETUP; STMT; return READ, cnt, INTACT })
//
// STMT is `PLACE op RHS` wrapped in `depth` immediately-called closures. k, ks, kp_T
// are counting functions (cnt++), id_T counts 100.
type shape struct {
	name    string
	family  string // evidence / violation class
	interp  string // "" main, "full" = interpreter whose integer slots are exhausted (boxed top-level variables)
	setup   string
	place   string
	read    string
	intact  string
	depth   int
	nk      int  // calls of counting functions inside the place
	zero    bool // the place starts as the zero value (absent map key), not as a
	result  bool // the place is a named result
	noNamed bool
	blank   bool
}

func mkShapes() []shape {
	var l []shape
	add := func(s shape) {
		if s.family == "" {
			s.family = s.name
		}
		l = append(l, s)
	}
	add(shape{name: "param", family: "var", place: "a", read: "a"})
	add(shape{name: "local", family: "var", setup: "x := a", place: "x", read: "x"})
	add(shape{name: "result", family: "var", result: true, place: "x"})
	for d := 1; d <= 5; d++ {
		add(shape{name: fmt.Sprintf("cap%d", d), family: "var-captured", setup: "x := a", place: "x", read: "x", depth: d})
	}
	for _, d := range []int{1, 3} {
		add(shape{name: fmt.Sprintf("pcap%d", d), family: "var-captured", place: "a", read: "a", depth: d})
	}
	for d := 0; d <= 4; d++ {
		add(shape{name: fmt.Sprintf("glob%d", d), family: "var-global", setup: "gx_$I = a", place: "gx_$I", read: "gx_$I", depth: d})
	}
	for _, d := range []int{0, 1, 3} {
		add(shape{name: fmt.Sprintf("imp%d", d), family: "var-compiled-boxed", setup: "vars.V_$I = a", place: "vars.V_$I", read: "vars.V_$I", depth: d, noNamed: true})
	}
	for _, d := range []int{0, 1, 2, 3} {
		add(shape{name: fmt.Sprintf("full%d", d), family: "var-global-boxed", interp: "full", setup: "hx_$I = a", place: "hx_$I", read: "hx_$I", depth: d})
	}
	add(shape{name: "ptr", family: "deref", setup: "x := a; p := &x", place: "*p", read: "x"})
	add(shape{name: "ptrcall", family: "deref", setup: "x := a; p := &x", place: "*kp_$I(p)", read: "x", nk: 1})
	add(shape{name: "ptrcap2", family: "deref", setup: "x := a; p := &x", place: "*p", read: "x", depth: 2})
	add(shape{name: "ptrnew", family: "deref", setup: "p := new($T); *p = a", place: "*p", read: "*p"})
	arr := "var arr [3]$T; arr[1] = a"
	arrIntact := "arr[0] == z && arr[2] == z"
	add(shape{name: "arr", family: "array-elem", setup: arr, place: "arr[k(1)]", read: "arr[1]", intact: arrIntact, nk: 1})
	add(shape{name: "arrc", family: "array-elem", setup: arr, place: "arr[1]", read: "arr[1]", intact: arrIntact})
	add(shape{name: "arrv", family: "array-elem", setup: arr + "; i := 1", place: "arr[i]", read: "arr[1]", intact: arrIntact})
	add(shape{name: "arrcap2", family: "array-elem", setup: arr, place: "arr[k(1)]", read: "arr[1]", intact: arrIntact, depth: 2, nk: 1})
	add(shape{name: "parr", family: "array-elem", setup: arr + "; p := &arr", place: "p[k(1)]", read: "arr[1]", intact: arrIntact, nk: 1})
	sl := "s := make([]$T, 3); s[1] = a"
	slIntact := "s[0] == z && s[2] == z && len(s) == 3"
	add(shape{name: "slice", family: "slice-elem", setup: sl, place: "s[k(1)]", read: "s[1]", intact: slIntact, nk: 1})
	add(shape{name: "slicec", family: "slice-elem", setup: sl, place: "s[1]", read: "s[1]", intact: slIntact})
	add(shape{name: "slicecap1", family: "slice-elem", setup: sl, place: "s[k(1)]", read: "s[1]", intact: slIntact, depth: 1, nk: 1})
	mp := "m := map[int]$T{1: a, 2: z}"
	add(shape{name: "map", family: "map-elem", setup: mp, place: "m[k(1)]", read: "m[1]", intact: "len(m) == 2 && m[2] == z", nk: 1})
	add(shape{name: "mapc", family: "map-elem", setup: mp, place: "m[1]", read: "m[1]", intact: "len(m) == 2 && m[2] == z"})
	add(shape{name: "mapcap2", family: "map-elem", setup: mp, place: "m[k(1)]", read: "m[1]", intact: "len(m) == 2 && m[2] == z", depth: 2, nk: 1})
	add(shape{name: "mapnew", family: "map-elem-absent", zero: true, setup: "m := map[int]$T{2: z}", place: "m[k(1)]", read: "m[1]", intact: "len(m) == 2", nk: 1})
	add(shape{name: "mapstr", family: "map-elem", setup: `m := map[string]$T{"p": a}`, place: `m[ks("p")]`, read: `m["p"]`, intact: "len(m) == 1", nk: 1})
	st := "var s struct{ a0 $T; f $T; b0 $T }; s.f = a"
	add(shape{name: "field", family: "field", setup: st, place: "s.f", read: "s.f", intact: "s.a0 == z && s.b0 == z"})
	add(shape{name: "fieldcap1", family: "field", setup: st, place: "s.f", read: "s.f", intact: "s.a0 == z && s.b0 == z", depth: 1})
	add(shape{name: "pfield", family: "field-of-pointer", setup: st + "; p := &s", place: "p.f", read: "s.f", intact: "s.a0 == z && s.b0 == z"})
	add(shape{name: "arrfield", family: "elem-field", setup: "var arr [2]struct{ f, g $T }; arr[1].f = a", place: "arr[k(1)].f", read: "arr[1].f", intact: "arr[1].g == z && arr[0].f == z", nk: 1})
	add(shape{name: "mapptrfield", family: "elem-field", setup: "m := map[int]*E_$I{1: &E_$I{a}}", place: "m[k(1)].f", read: "m[1].f", intact: "len(m) == 1", nk: 1})
	add(shape{name: "embfield", family: "field-embedded", setup: "var o O_$I; o.f = a", place: "o.f", read: "o.E_$I.f", intact: "o.pad == 0"})
	add(shape{name: "pembfield", family: "field-embedded", setup: "o := P_$I{&E_$I{a}}", place: "o.f", read: "o.E_$I.f"})
	add(shape{name: "mapslice", family: "map-elem-elem", setup: "m := map[int][]$T{1: {z, a}}", place: "m[k(1)][k(1)]", read: "m[1][1]", intact: "m[1][0] == z && len(m) == 1", nk: 2})
	add(shape{name: "slslice", family: "slice-elem-elem", setup: "ss := [][]$T{{z}, {z, a}}", place: "ss[k(1)][k(1)]", read: "ss[1][1]", intact: "ss[0][0] == z && ss[1][0] == z", nk: 2})
	add(shape{name: "blank", family: "blank", place: "_", read: "a", blank: true})
	return l
}

var shapes = mkShapes()

func shapeByName(n string) *shape {
	for i := range shapes {
		if shapes[i].name == n {
			return &shapes[i]
		}
	}
	return nil
}

// ------------------------------------------------------------------ operators

type opT struct {
	text string
	tok  token.Token // the binary operator; ILLEGAL for "="
	cls  string      // "set", "arith", "shift", "incdec"
}

var allOps = []opT{
	{"=", token.ILLEGAL, "set"},
	{"+=", token.ADD, "arith"}, {"-=", token.SUB, "arith"}, {"*=", token.MUL, "arith"}, {"/=", token.QUO, "arith"},
	{"%=", token.REM, "arith"}, {"&=", token.AND, "arith"}, {"|=", token.OR, "arith"}, {"^=", token.XOR, "arith"}, {"&^=", token.AND_NOT, "arith"},
	{"<<=", token.SHL, "shift"}, {">>=", token.SHR, "shift"},
	{"++", token.ADD, "incdec"}, {"--", token.SUB, "incdec"},
}

func opByText(s string) (opT, bool) {
	for _, o := range allOps {
		if o.text == s {
			return o, true
		}
	}
	return opT{}, false
}

func opApplies(o opT, k kindT) bool {
	switch k.Class() {
	case cInt, cUint:
		return true
	case cFloat, cComplex:
		switch o.text {
		case "=", "+=", "-=", "*=", "/=", "++", "--":
			return true
		}
	case cString:
		return o.text == "=" || o.text == "+="
	case cBool:
		return o.text == "="
	}
	return false
}

// ------------------------------------------------------------------ cells

// rhs shapes: "var" (parameter y), "call" (id_R(y), an interpreted function call), "const"
// (untyped literal), "tconst" (typed constant R(lit)), "" for ++/--.
type cell struct {
	sh    *shape
	t     ctype
	op    opT
	rhs   string
	rt    ctype // type of y: t, or the count type of a shift
	c     val   // constant value (const/tconst)
	ctext string
}

func (c *cell) classKey() string { // evidence cell: shape x type x operator x rhs constness
	r := c.rhs
	if r == "tconst" {
		r = "const"
	}
	return c.sh.name + "|" + c.t.src() + "|" + c.op.text + "|" + r
}

func (c *cell) key() string {
	return c.classKey() + "|" + c.rhs + "|" + c.rt.src() + "|" + c.ctext
}

func (c *cell) rhsText() string {
	switch c.rhs {
	case "var":
		return "y"
	case "call":
		return "id_" + c.rt.src() + "(y)"
	case "const":
		return c.ctext
	case "tconst":
		return c.rt.src() + "(" + c.ctext + ")"
	}
	return ""
}

func (c *cell) stmt() string {
	s := c.sh.place
	if c.op.cls == "incdec" {
		s += c.op.text
	} else {
		s += " " + c.op.text + " " + c.rhsText()
	}
	for i := 0; i < c.sh.depth; i++ {
		s = "func() { " + s + " }()"
	}
	return s
}

func (c *cell) source() string {
	T, R := c.t.src(), c.rt.src()
	var b strings.Builder
	if c.sh.result {
		fmt.Fprintf(&b, "(func(a %s, y %s) (x %s, n int, ok bool) { cnt = 0; x = a; %s; n = cnt; ok = true; return })", T, R, T, c.stmt())
	} else {
		intact := c.sh.intact
		if intact == "" {
			intact = "true"
		}
		setup := c.sh.setup
		if setup != "" {
			setup += "; "
		}
		fmt.Fprintf(&b, "(func(a %s, y %s) (%s, int, bool) { cnt = 0; var z %s; _ = z; %s%s; return %s, cnt, %s })", T, R, T, T, setup, c.stmt(), c.sh.read, intact)
	}
	return strings.NewReplacer("$T", T, "$I", T).Replace(b.String())
}

// expectation of one call
type expect struct {
	v     val
	panic string
	cnt   int64
}

func (c *cell) expected(a, y val) expect {
	k := c.t.k
	start := a
	if c.sh.zero {
		start = val{}
	}
	e := expect{cnt: int64(c.sh.nk)}
	if c.rhs == "call" {
		e.cnt += 100
	}
	if c.rhs == "const" || c.rhs == "tconst" {
		y = c.c
	}
	switch c.op.cls {
	case "set":
		if c.sh.blank {
			e.v = a
		} else {
			e.v = y
		}
	case "arith":
		e.v, e.panic = k.Bin(c.op.tok, start, y)
	case "shift":
		n, p := shiftCount(c.rt.k, y)
		if p != pNone {
			e.panic = p
		} else {
			e.v = k.Shift(c.op.tok, start, n)
		}
	case "incdec":
		one := oneOf(k)
		e.v, e.panic = k.Bin(c.op.tok, start, one)
	}
	return e
}

func oneOf(k kindT) val {
	switch k.Class() {
	case cInt:
		return val{i: 1}
	case cUint:
		return val{u: 1}
	case cFloat:
		return val{f: 1}
	case cComplex:
		return val{c: 1}
	}
	panic("oneOf: " + k.Name())
}

// ------------------------------------------------------------------ engine

type engine struct {
	main, full *fast.Interp
	out        bytes.Buffer
	compiled   map[string]reflect.Value
	pkg        *types.Package
	fset       *token.FileSet
}

// preludeDecls is evaluated declaration by declaration in the interpreters and, as one
// file, type-checked by go/types (where `vars` is a struct variable instead of an import).
func preludeDecls() []string {
	d := []string{
		"var cnt int",
		"func k(i int) int { cnt++; return i }",
		"func ks(s string) string { cnt++; return s }",
	}
	for _, k := range allKinds {
		d = append(d, "type N_"+k.Name()+" "+k.Name())
	}
	for _, t := range allTypes() {
		T := t.src()
		d = append(d,
			"var gx_"+T+" "+T,
			"func id_"+T+"(v "+T+") "+T+" { cnt += 100; return v }",
			"func kp_"+T+"(p *"+T+") *"+T+" { cnt++; return p }",
			"type E_"+T+" struct { f "+T+" }",
			"type O_"+T+" struct { pad int; E_"+T+" }",
			"type P_"+T+" struct { *E_"+T+" }",
		)
	}
	return d
}

var theEngine *engine

func getEngine() *engine {
	if theEngine != nil {
		return theEngine
	}
	e := &engine{compiled: map[string]reflect.Value{}, fset: token.NewFileSet()}
	vars := imports.Package{Name: "vars", Binds: map[string]reflect.Value{}}
	for _, k := range allKinds {
		rt := k.ToReflect(val{}).Type()
		v := reflect.New(rt).Elem()
		vars.Binds["V_"+k.Name()] = v
		e.compiled["V_"+k.Name()] = v
	}
	imports.Packages["verif/c02vars"] = vars
	decls := preludeDecls()
	tSetup := time.Now()
	defer func() { rec.Extra("engine_setup_s", time.Since(tSetup).Seconds()) }()

	e.main = e.newInterp()
	e.mustEval(e.main, `import vars "verif/c02vars"`)
	for _, d := range decls {
		e.mustEval(e.main, d)
	}

	e.full = e.newInterp()
	for _, d := range decls {
		e.mustEval(e.full, d)
	}
	// exhaust the integer slots of the top-level frame: once the address of a slot was
	// taken the array cannot grow, so later numeric variables are boxed (Comp.NewBind)
	e.mustEval(e.full, "var zz0 int")
	e.mustEval(e.full, "pz0 := &zz0")
	e.mustEval(e.full, "*pz0")
	for i := 0; i < 3; i++ {
		var sb strings.Builder
		sb.WriteString("var ")
		for j := 0; j < 600; j++ {
			if j > 0 {
				sb.WriteString(", ")
			}
			fmt.Fprintf(&sb, "fill%d_%d", i, j)
		}
		sb.WriteString(" int")
		e.mustEval(e.full, sb.String())
		e.mustEval(e.full, "*pz0")
	}
	var tsrc strings.Builder
	tsrc.WriteString("package p\n")
	for _, d := range decls {
		tsrc.WriteString(d + "\n")
	}
	tsrc.WriteString("var vars struct {\n")
	for _, k := range allKinds {
		tsrc.WriteString("\tV_" + k.Name() + " " + k.Name() + "\n")
	}
	tsrc.WriteString("}\n")
	for _, t := range allTypes() {
		e.mustEval(e.full, "var hx_"+t.src()+" "+t.src())
		tsrc.WriteString("var hx_" + t.src() + " " + t.src() + "\n")
		if t.k.Class() == cString {
			continue
		}
		b := e.full.Comp.Binds["hx_"+t.src()]
		if b == nil || b.Desc.Class() != fast.VarBind {
			panic(fmt.Sprintf("harness: variable hx_%s of the slot-exhausted interpreter is not boxed: %v", t.src(), b))
		}
		b = e.main.Comp.Binds["gx_"+t.src()]
		if b == nil || b.Desc.Class() != fast.IntBind {
			panic(fmt.Sprintf("harness: variable gx_%s is not in an integer slot: %v", t.src(), b))
		}
	}
	f, err := parser.ParseFile(e.fset, "prelude.go", tsrc.String(), 0)
	if err != nil {
		panic(err)
	}
	conf := types.Config{GoVersion: "go1.18"}
	e.pkg, err = conf.Check("p", e.fset, []*ast.File{f}, nil)
	if err != nil {
		panic(err)
	}
	theEngine = e
	return e
}

func (e *engine) newInterp() *fast.Interp {
	ir := fast.New()
	ir.Comp.Globals.Stdout = &e.out
	ir.Comp.Globals.Stderr = &e.out
	return ir
}

func (e *engine) mustEval(ir *fast.Interp, src string) {
	if p := vlib.Try(func() { ir.Eval(src) }); p != nil {
		panic(fmt.Sprintf("harness setup: %s: %v", src, p))
	}
}

// vet says whether go/types accepts the function literal in the scope of the prelude.
func (e *engine) vet(src string) error {
	expr, err := parser.ParseExprFrom(e.fset, "cell.go", src, 0)
	if err != nil {
		return err
	}
	info := &types.Info{}
	return types.CheckExpr(e.fset, e.pkg, token.NoPos, expr, info)
}

func (e *engine) compile(c *cell) (fn reflect.Value, perr interface{}) {
	ir := e.main
	if c.sh.interp == "full" {
		ir = e.full
	}
	perr = vlib.Try(func() {
		vs, _ := ir.Eval(c.source())
		if len(vs) == 1 {
			fn = vs[0].ReflectValue()
		}
	})
	if perr == nil && (!fn.IsValid() || fn.Kind() != reflect.Func) {
		perr = fmt.Sprintf("Eval did not return a function: %v", fn)
	}
	return fn, perr
}

type outcome struct {
	v      val
	cnt    int64
	intact bool
	panic  string
	err    string
}

func (e *engine) call(c *cell, fn reflect.Value, a, y val) (o outcome) {
	var outs []reflect.Value
	p := vlib.Try(func() {
		outs = fn.Call([]reflect.Value{c.t.k.ToReflect(a), c.rt.k.ToReflect(y)})
	})
	if p != nil {
		o.panic = grec.P(p)
		return o
	}
	if len(outs) != 3 {
		o.err = fmt.Sprintf("%d results", len(outs))
		return o
	}
	v, err := c.t.k.FromReflect(outs[0])
	if err != nil {
		o.err = err.Error()
		return o
	}
	o.v, o.cnt, o.intact = v, outs[1].Int(), outs[2].Bool()
	return o
}

// check compares one call with the expectation; "" = agrees.
func (c *cell) check(o outcome, e expect) string {
	if o.err != "" {
		return "harness: " + o.err
	}
	if e.panic != pNone {
		want := "panic(rterr:" + e.panic + ")"
		if o.panic != want {
			if o.panic == "" {
				return fmt.Sprintf("no panic (value %s), Go panics with %s", c.t.k.Canon(o.v), want)
			}
			return fmt.Sprintf("panic %s, Go panics with %s", o.panic, want)
		}
		return ""
	}
	if o.panic != "" {
		return fmt.Sprintf("panic %s, Go yields %s", o.panic, c.t.k.Canon(e.v))
	}
	if !sameVal(c.t.k, o.v, e.v) {
		return fmt.Sprintf("place holds %s, Go yields %s", c.t.k.Canon(o.v), c.t.k.Canon(e.v))
	}
	if o.cnt != e.cnt {
		return fmt.Sprintf("counting functions report %d (index/key/pointer function calls + 100 per rhs call), Go %d", o.cnt, e.cnt)
	}
	if !o.intact {
		return "neighbouring elements / fields / container size changed"
	}
	return ""
}

// ------------------------------------------------------------------ replay of a cell

type replayCell struct {
	Layer string `json:"layer"`
	Shape string `json:"shape"`
	Type  string `json:"type"`
	Op    string `json:"op"`
	Rhs   string `json:"rhs"`
	RType string `json:"rtype"`
	Const string `json:"const,omitempty"` // encodeVal of the constant
	CText string `json:"ctext,omitempty"`
	A     string `json:"a"`
	Y     string `json:"y"`
	// informational
	Source string `json:"source,omitempty"`
	Msg    string `json:"msg,omitempty"`
}

func (c *cell) replayBytes(a, y val, msg string) []byte {
	rc := replayCell{Layer: "cell", Shape: c.sh.name, Type: c.t.src(), Op: c.op.text, Rhs: c.rhs, RType: c.rt.src(),
		CText: c.ctext, A: encodeVal(c.t.k, a), Y: encodeVal(c.rt.k, y), Source: c.source(), Msg: msg}
	if c.rhs == "const" || c.rhs == "tconst" {
		rc.Const = encodeVal(c.rt.k, c.c)
	}
	b, _ := json.MarshalIndent(rc, "", " ")
	return append(b, '\n')
}

func replayCellCheck(rc replayCell) error {
	e := getEngine()
	sh := shapeByName(rc.Shape)
	t, ok1 := typeByName(rc.Type)
	rt, ok2 := typeByName(rc.RType)
	op, ok3 := opByText(rc.Op)
	if sh == nil || !ok1 || !ok2 || !ok3 {
		return vlib.Inconclusive("replay: unknown shape/type/operator")
	}
	c := &cell{sh: sh, t: t, op: op, rhs: rc.Rhs, rt: rt, ctext: rc.CText}
	a, err := decodeVal(t.k, rc.A)
	if err != nil {
		return vlib.Inconclusive("replay: " + err.Error())
	}
	y, err := decodeVal(rt.k, rc.Y)
	if err != nil {
		return vlib.Inconclusive("replay: " + err.Error())
	}
	if rc.Const != "" {
		if c.c, err = decodeVal(rt.k, rc.Const); err != nil {
			return vlib.Inconclusive("replay: " + err.Error())
		}
	}
	if err := e.vet(c.source()); err != nil {
		return nil // not valid Go: outside the property
	}
	fn, perr := e.compile(c)
	if perr != nil {
		return fmt.Errorf("valid Go rejected by gomacro: %s\n%v", c.source(), perr)
	}
	if msg := c.check(e.call(c, fn, a, y), c.expected(a, y)); msg != "" {
		return fmt.Errorf("%s with a=%s y=%s: %s", c.source(), t.k.Canon(a), rt.k.Canon(y), msg)
	}
	return nil
}

// ------------------------------------------------------------------ the sweep

type sweeper struct {
	e        *engine
	t        *testing.T
	failures int
	classes  map[string]bool
	bcache   map[string][]val
	ccache   map[string][]val
	seed     int64
}

var maxFailures = func() int {
	if n, err := strconv.Atoi(os.Getenv("C02_MAXFAIL")); err == nil && n > 0 {
		return n
	}
	return 12
}()

func (sw *sweeper) boundary(k kindT) []val {
	if b, ok := sw.bcache[k.Name()]; ok {
		return b
	}
	b := k.Boundary()
	sw.bcache[k.Name()] = b
	return b
}

// specials: the values every cell sees in every tier.
func (sw *sweeper) specials(k kindT) []val {
	b := sw.boundary(k)
	switch k.Class() {
	case cInt:
		return b[:17]
	case cUint:
		return b[:12]
	case cFloat:
		// MaxFloat, -Max, denormals ... 0, -0, 1, -1, 2 ... Inf, -Inf, NaN
		return b
	case cComplex:
		var out []val
		for i, v := range b {
			if i%7 == 0 || v.c == 0 || v.c == 1 {
				out = append(out, v)
			}
		}
		return out
	}
	return b
}

// constSet: constants tried as right-hand side. Derived from the shortcuts in var_ops.go /
// place_ops.go / binary_ops.go: identities 0, 1, -1 (= max for unsigned), powers of two
// and negations, width boundaries, ordinary values.
func (sw *sweeper) constSet(k kindT) []val {
	if c, ok := sw.ccache[k.Name()]; ok {
		return c
	}
	var out []val
	switch k.Class() {
	case cInt, cUint:
		all := sw.boundary(k)
		bits := k.Bits()
		keep := map[val]bool{}
		add := func(v val) {
			if !keep[v] {
				keep[v] = true
				out = append(out, v)
			}
		}
		for i, v := range all {
			if i < 12 || (k.Class() == cInt && i < 17) {
				add(v)
			}
		}
		for s := 1; s < bits; s++ {
			if k.Class() == cInt {
				add(val{i: 1 << s})
				add(val{i: -(1 << s)})
				if s == 1 || s == 7 || s == 8 || s == 15 || s == 16 || s == 31 || s == 32 || s == 62 {
					add(val{i: 1<<s - 1})
					add(val{i: 1<<s + 1})
					add(val{i: -(1 << s) - 1})
					add(val{i: -(1 << s) + 1})
				}
			} else {
				add(val{u: 1 << s})
				if s == 1 || s == 7 || s == 8 || s == 15 || s == 16 || s == 31 || s == 32 || s == 63 {
					add(val{u: 1<<s - 1})
					add(val{u: 1<<s + 1})
				}
			}
		}
		fit := out[:0]
		for _, v := range out {
			r, _ := k.Conv(k, v)
			if r == v {
				fit = append(fit, v)
			}
		}
		out = fit
	default:
		for _, v := range sw.boundary(k) {
			if _, ok := k.Lit(v); ok {
				out = append(out, v)
			}
		}
	}
	sw.ccache[k.Name()] = out
	return out
}

func shiftCounts(s kindT, bits int) []val {
	var out []val
	seen := map[val]bool{}
	add := func(n int64) {
		var v val
		if s.Class() == cInt {
			v = val{i: n}
		} else {
			if n < 0 {
				return
			}
			v = val{u: uint64(n)}
		}
		if r, _ := s.Conv(s, v); r != v || seen[v] {
			return
		}
		seen[v] = true
		out = append(out, v)
	}
	w := int64(bits)
	for _, n := range []int64{0, 1, 2, 3, w - 1, w, w + 1, 7, 8, 9, 15, 16, 17, 31, 32, 33, 62, 63, 64, 65, 127, 128, 255, 256, 1 << 16, 1 << 32, -1, -2, -64, -128} {
		add(n)
	}
	for _, v := range s.Boundary()[:12] {
		if !seen[v] {
			seen[v] = true
			out = append(out, v)
		}
	}
	return out
}

var countKinds = []string{"uint", "uint8", "int", "int64", "uint32", "int8", "uint64", "uint16", "uintptr", "int16", "int32"}

// pick chooses n elements of l, rotating with the rng; the first `keep` are always kept.
func pick(l []val, keep, n int, r *rng) []val {
	if len(l) <= keep+n {
		return l
	}
	out := append([]val(nil), l[:keep]...)
	rest := l[keep:]
	start := int(r.next() % uint64(len(rest)))
	step := len(rest) / n
	if step < 1 {
		step = 1
	}
	for i := 0; i < n; i++ {
		out = append(out, rest[(start+i*step)%len(rest)])
	}
	return out
}

func (sw *sweeper) fail(c *cell, a, y val, msg string) {
	class := c.sh.family + "|" + c.op.text + "|" + c.t.k.Name() + "|" + c.rhs
	if sw.classes[class] {
		return // one report per class and shard
	}
	sw.classes[class] = true
	sw.failures++
	full := fmt.Sprintf("%s\n  a=%s y=%s: %s", c.source(), c.t.k.Canon(a), c.rt.k.Canon(y), msg)
	rec.Violation("cell:"+class, c.replayBytes(a, y, msg), "json", "%s", full)
	sw.t.Errorf("C02 cell %s: %s", c.key(), full)
}

// runCell compiles the cell and calls it with its value pairs.
func (sw *sweeper) runCell(c *cell) {
	if sw.failures >= maxFailures {
		return
	}
	e := sw.e
	src := c.source()
	isConst := c.rhs == "const" || c.rhs == "tconst"
	if err := e.vet(src); err != nil {
		if isConst {
			rec.Label("excluded:not-well-typed(go/types rejects the constant operand)")
			return
		}
		sw.t.Fatalf("INCONCLUSIVE: harness template is not valid Go: %s: %v", src, err)
	}
	if id := knownCompile(c); id != "" {
		rec.Excluded(id)
		return
	}
	fn, perr := e.compile(c)
	if perr != nil {
		sw.fail(c, val{}, val{}, fmt.Sprintf("valid Go (go/types accepts it) rejected by gomacro: %v", perr))
		return
	}
	r := newRng(sw.seed, c.key())
	k, rk := c.t.k, c.rt.k
	thorough := rec.Thorough()
	as := pick(append(append([]val(nil), sw.specials(k)...), sw.boundary(k)...), len(sw.specials(k)), rec.Scale(4, 40), r)
	for i := 0; i < rec.Scale(2, 8); i++ {
		as = append(as, k.Random(r))
	}
	if len(as) > rec.Scale(14, 90) {
		as = pick(as, 6, rec.Scale(8, 84), r)
	}
	var ys []val
	switch {
	case isConst || c.op.cls == "incdec":
		ys = []val{{}}
	case c.op.cls == "shift":
		ys = shiftCounts(rk, k.Bits())
		if !thorough {
			ys = pick(ys, 0, 7, r)
		}
	default:
		ys = pick(append(append([]val(nil), sw.specials(rk)...), sw.boundary(rk)...), 3, rec.Scale(3, 14), r)
		ys = append(ys, rk.Random(r))
	}
	if c.sh.zero || c.sh.blank {
		// the start value is irrelevant (absent key / blank): vary y only
		as = as[:2]
	}
	nt := c.sh.nk > 0
	n := 0
	for _, a := range as {
		for _, y := range ys {
			ex := c.expected(a, y)
			if id := knownPair(c, a, y, ex); id != "" {
				rec.Excluded(id)
				continue
			}
			n++
			o := e.call(c, fn, a, y)
			if msg := c.check(o, ex); msg != "" {
				sw.fail(c, a, y, msg)
				rec.Eval(n)
				return
			}
			if !nt {
				if ex.panic != pNone {
					nt = true
				} else if c.op.cls == "arith" || c.op.cls == "incdec" {
					yy := y
					if isConst {
						yy = c.c
					} else if c.op.cls == "incdec" {
						yy = oneOf(k)
					}
					st := a
					if c.sh.zero {
						st = val{}
					}
					nt = wrapped(k, c.op.tok, st, yy, ex.v)
				} else if c.op.cls == "shift" && k.Class() != cString {
					n, _ := shiftCount(rk, y)
					nt = n >= uint64(k.Bits()) || (c.op.tok == token.SHL && n > 0 && !k.Simple(a))
				}
			}
		}
	}
	rec.Eval(n)
	rec.LabelN("shape:"+c.sh.name, n)
	rec.LabelN("family:"+c.sh.family, n)
	rec.LabelN("op/kind:"+c.op.text+" "+c.t.k.Name(), n)
	rec.LabelN("rhs:"+c.rhs, n)
	if c.t.named {
		rec.LabelN("type:named", n)
	}
	if nt {
		rec.NT(c.classKey())
		rec.Label("nontrivial-cells")
	}
	rec.Label("cells")
	if c.sh.nk > 0 {
		rec.Label("cells-with-counting-index-functions")
	}
}

// cellsOf enumerates the cells of one (shape, type) unit.
func (sw *sweeper) cellsOf(sh *shape, t ctype, unit int) []*cell {
	var out []*cell
	k := t.k
	r := newRng(sw.seed, "unit|"+sh.name+"|"+t.src())
	thorough := rec.Thorough()
	for _, op := range allOps {
		if !opApplies(op, k) {
			continue
		}
		if sh.blank && op.cls != "set" {
			continue
		}
		if op.cls == "incdec" {
			out = append(out, &cell{sh: sh, t: t, op: op, rt: t})
			continue
		}
		rts := []ctype{t}
		if op.cls == "shift" {
			rts = nil
			n := 2
			if thorough {
				n = 5
			}
			start := int(r.next() % uint64(len(countKinds)))
			for i := 0; i < n; i++ {
				ck := kindByName[countKinds[(start+i)%len(countKinds)]]
				rts = append(rts, ctype{ck, t.named && i == 0})
			}
		}
		for _, rt := range rts {
			out = append(out, &cell{sh: sh, t: t, op: op, rhs: "var", rt: rt})
			out = append(out, &cell{sh: sh, t: t, op: op, rhs: "call", rt: rt})
			var consts []val
			if op.cls == "shift" {
				for _, v := range shiftCounts(rt.k, k.Bits()) {
					if rt.k.Class() == cUint || v.i >= 0 { // negative constant counts are invalid Go
						consts = append(consts, v)
					}
				}
				if !thorough {
					consts = pick(consts, 2, 3, r)
				}
			} else {
				consts = sw.constSet(rt.k)
				if !thorough {
					keep := 4
					if isIntClass(rt.k) && len(consts) > 12 {
						// 0 1 2 3 7 10 min min+1 max max-1 ... (-1 -2 ..): keep 0, 1, 2, max/-1
						consts = append([]val{consts[0], consts[1], consts[2], minusOneOrMax(rt.k)}, consts[3:]...)
					}
					consts = pick(consts, keep, 2, r)
				} else if len(consts) > 48 {
					consts = append([]val{consts[0], consts[1], consts[2], minusOneOrMax(rt.k)}, consts[3:]...)
					consts = pick(consts, 4, 44, r)
				}
			}
			for i, cv := range consts {
				lit, ok := rt.k.Lit(cv)
				if !ok {
					continue
				}
				rhs := "const"
				if (i+unit)%3 == 2 {
					rhs = "tconst"
				}
				out = append(out, &cell{sh: sh, t: t, op: op, rhs: rhs, rt: rt, c: cv, ctext: lit})
			}
		}
	}
	return out
}

func minusOneOrMax(k kindT) val {
	if k.Class() == cInt {
		return val{i: -1}
	}
	v, _ := k.Conv(k, val{u: ^uint64(0)})
	return v
}

func TestCellSweep(t *testing.T) {
	if rec.ReplayOnly() {
		return
	}
	sw := &sweeper{e: getEngine(), t: t, classes: map[string]bool{}, bcache: map[string][]val{}, ccache: map[string][]val{}, seed: rec.Seed()}
	types_ := allTypes()
	unit := 0
	for si := range shapes {
		sh := &shapes[si]
		for _, ty := range types_ {
			if ty.named && sh.noNamed {
				continue
			}
			unit++
			if !rec.Mine(unit) {
				continue
			}
			// quick tier: a named variant runs on a quarter of the shapes (rotating with the seed)
			if !rec.Thorough() && ty.named && (si+int(rec.Seed()))%4 != 0 {
				continue
			}
			for _, c := range sw.cellsOf(sh, ty, unit) {
				sw.runCell(c)
			}
		}
	}
	if sw.failures >= maxFailures {
		rec.Note("stopped recording after %d failing cell classes in this shard", maxFailures)
	}
	var fams []string
	for c := range sw.classes {
		fams = append(fams, c)
	}
	sort.Strings(fams)
	if len(fams) > 0 {
		t.Logf("failing classes: %v", fams)
	}
}
