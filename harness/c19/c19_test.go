// C19: debugging is transparent and step/next/finish/continue stop where documented.
//
// Oracles: (1) transparency: the value of main() and of the global checksum under a
// scripted debugger session equal the run without debugger and the value computed by
// the generator's own reference evaluator; (2) stop rule: the stops of a scripted
// session equal the full single-step trace T filtered by the documented depth rule;
// T itself is tied to the reference evaluator (every executed simple statement appears
// in T in order at the predicted depth and line; the Breakpoint callbacks are exactly
// the executed "break" statements).
package c19

import (
	"bytes"
	"encoding/json"
	"fmt"
	"go/token"
	"io"
	"math"
	"os"
	"strings"
	"testing"

	"github.com/cosmos72/gomacro/base"
	"github.com/cosmos72/gomacro/fast"
	"github.com/cosmos72/gomacro/fast/debug"
	"pgregory.net/rapid"

	"verif/harness/vlib"
)

var rec *vlib.Rec

const stmtLimit = 1500 // programs executing more simple statements are discarded (counted)

func TestMain(m *testing.M) {
	rec = vlib.Open("C19")
	rec.Rule("case = (generated program, debugger script): programs of 1-5 functions calling lower-numbered functions (call depth <= 5 plus closures), loops with literal bounds, if/else, defers of functions and closures, closure calls, early returns, loop break/continue, \"break\" and _ = \"break\" breakpoints; " +
		"scripts of <= 200 lines over step/next/finish/continue, their abbreviations and the empty line (repeat). " +
		"A case is non-trivial when the script issues >= 1 next on a statement that makes a call (the following trace entry is deeper) and >= 1 finish at call depth >= 2; distinct = distinct (source, script)")
	rec.Assume("reference evaluator of the mini language (Go semantics: left-to-right evaluation, defer arguments evaluated at the defer statement, LIFO defers after the result is computed, wrapping int64 arithmetic); the mini language avoids everything Go leaves unspecified")
	rec.Assume("full single-step trace T is taken from gomacro itself (Interp.Debug starts in step mode) and checked against the evaluator's sequence of executed statements; stops of scripted sessions are T filtered by the depth rule of the property statement; a breakpoint statement stops under every command (doc of OptDebugger) and statements without source position are never shown and consume no command (fast/debug Debugger.Show)")
	rec.Assume("harness go.mod carries godebug default=go1.18 (settings of gomacro's own module)")
	// the first fast.New() of a process is slow (export data lookup): pay it here, not
	// inside rapid's per-iteration timer (rapid stops early when iterations look slow)
	vlib.Try(func() { fast.New() })
	os.Exit(vlib.Main(m, rec))
}

// known reports whether the exclusion of a known finding is active. C19_NO_EXCLUDE
// (development only: a list of finding ids) switches exclusions off, to try a fix in a
// scratch worktree before the entry of known_findings.json is changed to "fixed".
func known(id string) bool {
	return rec.Known(id) && !strings.Contains(os.Getenv("C19_NO_EXCLUDE"), id)
}

// ---------------------------------------------------------------- scripted debugger

// Entry is one debugger callback.
type Entry struct {
	Depth int  `json:"d"`
	Line  int  `json:"l"` // 0 = no position (synthetic statement)
	Col   int  `json:"c"`
	IP    int  `json:"ip"`
	BP    bool `json:"bp"`
}

func (e Entry) String() string {
	k := "at"
	if e.BP {
		k = "breakpoint"
	}
	if e.Line == 0 {
		return fmt.Sprintf("%s(depth=%d NoPos ip=%d)", k, e.Depth, e.IP)
	}
	return fmt.Sprintf("%s(depth=%d %d:%d ip=%d)", k, e.Depth, e.Line, e.Col, e.IP)
}

type killed struct{ why string }

// shim records every callback and delegates to the real debugger.
type shim struct {
	real  debug.Debugger
	trace []Entry
	max   int // more callbacks than this = runaway (a hang seen as an endless callback sequence)
}

func (s *shim) record(ir *fast.Interp, env *fast.Env, bp bool) *fast.DebugOp {
	e := Entry{Depth: env.CallDepth, IP: env.IP, BP: bp}
	if env.IP >= 0 && env.IP < len(env.DebugPos) {
		if p := env.DebugPos[env.IP]; p != token.NoPos {
			pos := ir.Comp.Globals.Fileset.Position(p)
			e.Line, e.Col = pos.Line, pos.Column
		}
	}
	s.trace = append(s.trace, e)
	if len(s.trace) > s.max {
		var v interface{} = killed{"runaway"}
		return &fast.DebugOp{Depth: 0, Panic: &v}
	}
	return nil
}

func (s *shim) Breakpoint(ir *fast.Interp, env *fast.Env) fast.DebugOp {
	if op := s.record(ir, env, true); op != nil {
		return *op
	}
	return s.real.Breakpoint(ir, env)
}

func (s *shim) At(ir *fast.Interp, env *fast.Env) fast.DebugOp {
	if op := s.record(ir, env, false); op != nil {
		return *op
	}
	return s.real.At(ir, env)
}

// scriptReader is Globals.Readline: one script line per prompt, io.EOF afterwards
// (which the debugger documents... treats as "continue").
type scriptReader struct {
	lines []string
	i     int
	dflt  string // when non-empty, returned forever once lines are exhausted
}

func (s *scriptReader) Read(prompt string) ([]byte, error) {
	if s.i < len(s.lines) {
		l := s.lines[s.i]
		s.i++
		return []byte(l + "\n"), nil
	}
	if s.dflt != "" {
		s.i++
		return []byte(s.dflt + "\n"), nil
	}
	return nil, io.EOF
}

type session struct {
	ir  *fast.Interp
	sh  *shim
	rd  *scriptReader
	out *bytes.Buffer
}

type discard struct{}

func (discard) Write(p []byte) (int, error) { return len(p), nil }

func newSession(debugger bool) (s *session, err error) {
	s = &session{out: &bytes.Buffer{}}
	if p := vlib.Try(func() {
		s.ir = fast.New()
		g := &s.ir.Comp.Globals
		g.Stdout = discard{}
		g.Stderr = s.out
		if debugger {
			g.Options |= base.OptDebugger
			s.rd = &scriptReader{}
			g.Readline = s.rd
			s.sh = &shim{}
			s.ir.SetDebugger(s.sh)
		}
	}); p != nil {
		return nil, fmt.Errorf("creating the interpreter failed: %v", p)
	}
	return s, nil
}

func (s *session) declare(src string) error {
	s.out.Reset()
	if p := vlib.Try(func() { s.ir.Eval(src) }); p != nil {
		return fmt.Errorf("declaring the program failed: %v", p)
	}
	return nil
}

// Creating an interpreter costs far more than a case, so the generated cases share two
// interpreters (one without, one with OptDebugger) that are renewed every
// sessionUses cases; every case redeclares acc and all its functions. A failure seen
// in shared interpreters is re-checked in fresh ones before it is reported, so that
// every reported violation replays from its file alone.
const sessionUses = 100

var shared struct {
	plain, dbg *session
	uses       int
}

func sessions(fresh bool) (plain, dbg *session, err error) {
	if !fresh && shared.plain != nil && shared.uses < sessionUses {
		shared.uses++
		return shared.plain, shared.dbg, nil
	}
	if plain, err = newSession(false); err != nil {
		return
	}
	if dbg, err = newSession(true); err != nil {
		return
	}
	if !fresh {
		shared.plain, shared.dbg, shared.uses = plain, dbg, 1
	}
	return
}

func dropSessions() { shared.plain, shared.dbg = nil, nil }

type result struct {
	Ret, Acc int64
	Panic    string
}

func (r result) String() string {
	if r.Panic != "" {
		return "panic(" + r.Panic + ")"
	}
	return fmt.Sprintf("main()=%d acc=%d", r.Ret, r.Acc)
}

// run evaluates main() (under the debugger with the given script when script != nil).
func (s *session) run(script []string, dflt string, maxCallbacks int) (res result, trace []Entry, consumed int) {
	p := vlib.Try(func() {
		s.ir.Eval("acc = 0")
		var v int64
		if s.sh != nil {
			s.sh.trace = nil
			s.sh.max = maxCallbacks
			s.sh.real = debug.Debugger{}
			s.rd.lines, s.rd.i, s.rd.dflt = script, 0, dflt
			vs, _ := s.ir.Debug("main()")
			v = vs[0].Int()
		} else {
			vs, _ := s.ir.Eval("main()")
			v = vs[0].Int()
		}
		res.Ret = v
		vs, _ := s.ir.Eval("acc")
		res.Acc = vs[0].Int()
	})
	if p != nil {
		res.Panic = fmt.Sprint(p)
		if k, ok := p.(killed); ok {
			res.Panic = "killed: " + k.why
		}
	}
	if s.sh != nil {
		trace = s.sh.trace
		consumed = s.rd.i
	}
	return
}

// ---------------------------------------------------------------- model

// cmdOf maps a script line to the command the debugger documents: any non-empty
// prefix of step/next/finish/continue.
func cmdOf(line string) string {
	for _, name := range []string{"step", "next", "finish", "continue"} {
		if line != "" && strings.HasPrefix(name, line) {
			return name
		}
	}
	return ""
}

type stop struct {
	Idx int    // index into T
	Cmd string // command that ended this stop ("" = script exhausted = continue)
}

// modelStops filters the full single-step trace T by the documented rule.
//
// With patch set, the shape of known finding F-C19-2 is excluded by construction: a
// command other than continue at a Breakpoint stop that was reached at full speed
// (after continue) inside a called function (depth >= 2) is replaced, in the script
// itself, by continue. The number of replaced lines is returned.
func modelStops(T []Entry, script []string, patch bool) (stops []stop, consumed int, patched int) {
	depth := math.MaxInt // Interp.Debug starts in step mode
	last := ""
	si := 0
	for idx, e := range T {
		if e.Line == 0 {
			continue // synthetic statement: never shown, no command consumed
		}
		if !e.BP && !(e.Depth < depth) {
			continue
		}
		cmd := ""
		for cmd == "" && si < len(script) {
			line := script[si]
			si++
			if line == "" {
				line = last // enter repeats the last command
			}
			if c := cmdOf(line); c != "" {
				cmd, last = c, line
			}
		}
		if patch && depth == 0 && e.BP && e.Depth >= 2 && cmd != "" && cmd != "continue" {
			script[si-1], cmd, last = "continue", "continue", "continue"
			patched++
		}
		switch cmd {
		case "step":
			depth = math.MaxInt
		case "next":
			depth = e.Depth + 1 // next statement at the same or a shallower depth
		case "finish":
			depth = e.Depth // next statement at a shallower depth
		default: // continue, or end of script
			depth = 0
		}
		stops = append(stops, stop{idx, cmd})
	}
	return stops, si, patched
}

// ---------------------------------------------------------------- the case in plain form

type Case struct {
	Src     string     `json:"src"`
	Scripts [][]string `json:"scripts"`
	Expect  *Expect    `json:"expect"` // from the reference evaluator; nil in hand-written replays
	FallOff bool       `json:"fall_off,omitempty"`
}

type caseStats struct {
	nt       []bool
	traceLen int
	bps      int
}

func nonPos(T []Entry) (l []Entry) {
	for _, e := range T {
		if e.Line != 0 {
			l = append(l, e)
		}
	}
	return
}

// checkCase runs every oracle on one case; error = property violated.
func checkCase(c *Case, patch, fresh bool) (st caseStats, err error) {
	maxCB := 20000
	if c.Expect != nil {
		maxCB = 40*len(c.Expect.Events) + 2000
	}
	// run without debugger
	plain, dbg, err := sessions(fresh)
	if err != nil {
		return st, err
	}
	if err := plain.declare(c.Src); err != nil {
		return st, fmt.Errorf("without debugger: %v", err)
	}
	base0, _, _ := plain.run(nil, "", 0)
	if base0.Panic != "" {
		return st, fmt.Errorf("without debugger: %v", base0)
	}
	if c.Expect != nil && (base0.Ret != c.Expect.Ret || base0.Acc != c.Expect.Acc) {
		// not a C19 matter, but the transparency oracle would be meaningless
		return st, fmt.Errorf("without debugger the program computes %v, the reference evaluator main()=%d acc=%d", base0, c.Expect.Ret, c.Expect.Acc)
	}
	if err := dbg.declare(c.Src); err != nil {
		return st, fmt.Errorf("with OptDebugger: %v", err)
	}
	// full single-step trace
	resT, T, _ := dbg.run(nil, "step", maxCB)
	if resT != base0 {
		return st, fmt.Errorf("transparency: single-stepping the whole program gives %v, without debugger %v (callbacks: %d, last %v)", resT, base0, len(T), tail(T, 3))
	}
	st.traceLen = len(T)
	if c.Expect != nil {
		if err := checkTrace(T, c.Expect); err != nil {
			return st, err
		}
	}
	for _, e := range T {
		if e.BP {
			st.bps++
		}
	}
	for k, script := range c.Scripts {
		want, wantConsumed, patched := modelStops(T, script, patch)
		for ; patched > 0; patched-- {
			rec.Excluded("F-C19-2")
		}
		res, S, consumed := dbg.run(script, "", maxCB)
		if res != base0 {
			return st, fmt.Errorf("transparency: script %d %v gives %v, without debugger %v", k, script, res, base0)
		}
		got := nonPos(S)
		for i := 0; i < len(got) || i < len(want); i++ {
			switch {
			case i >= len(want):
				return st, fmt.Errorf("stop rule: script %d %v: extra stop #%d at %v (expected %d stops)", k, script, i, got[i], len(want))
			case i >= len(got):
				return st, fmt.Errorf("stop rule: script %d %v: missing stop #%d, expected %v after command %q", k, script, i, T[want[i].Idx], prevCmd(want, i))
			case got[i] != T[want[i].Idx]:
				return st, fmt.Errorf("stop rule: script %d %v: stop #%d is %v, expected %v after command %q at %v", k, script, i, got[i], T[want[i].Idx], prevCmd(want, i), prevStop(T, want, i))
			}
		}
		if consumed != wantConsumed {
			return st, fmt.Errorf("stop rule: script %d %v: debugger read %d lines, expected %d", k, script, consumed, wantConsumed)
		}
		// non-trivial: next over a call and finish at depth >= 2
		nextCall, finish2 := false, false
		for _, s := range want {
			e := T[s.Idx]
			if s.Cmd == "next" {
				for j := s.Idx + 1; j < len(T); j++ {
					if T[j].Line != 0 {
						nextCall = nextCall || T[j].Depth > e.Depth
						break
					}
				}
			}
			if s.Cmd == "finish" && e.Depth >= 2 {
				finish2 = true
			}
			rec.Label("cmd:" + map[string]string{"": "end-of-script"}[s.Cmd] + s.Cmd)
		}
		st.nt = append(st.nt, nextCall && finish2)
		if nextCall {
			rec.Label("script:next-over-call")
		}
		if finish2 {
			rec.Label("script:finish-at-depth>=2")
		}
	}
	return st, nil
}

func prevCmd(want []stop, i int) string {
	if i == 0 {
		return "(start)"
	}
	if want[i-1].Cmd == "" {
		return "(end of script = continue)"
	}
	return want[i-1].Cmd
}

func prevStop(T []Entry, want []stop, i int) string {
	if i == 0 {
		return "(start)"
	}
	return T[want[i-1].Idx].String()
}

func tail(T []Entry, n int) []Entry {
	if len(T) > n {
		return T[len(T)-n:]
	}
	return T
}

// checkTrace ties the single-step trace to the reference evaluator.
func checkTrace(T []Entry, exp *Expect) error {
	// (a) Breakpoint callbacks are exactly the executed breakpoint statements
	var bpT, bpE []string
	for _, e := range T {
		if e.BP {
			bpT = append(bpT, fmt.Sprintf("d%d:l%d", e.Depth, e.Line))
		}
	}
	for _, e := range exp.Events {
		if e.Kind == "bp" {
			bpE = append(bpE, fmt.Sprintf("d%d:l%d", e.Depth, e.Line))
		}
	}
	if strings.Join(bpT, " ") != strings.Join(bpE, " ") {
		return fmt.Errorf("breakpoints: Breakpoint callbacks (depth:line) %v, executed breakpoint statements %v", bpT, bpE)
	}
	// (b) every executed simple statement is a stop of the all-step run, in order
	j := 0
	for i, ev := range exp.Events {
		if ev.Kind == "assign-const" {
			continue
		}
		found := false
		for ; j < len(T); j++ {
			if !T[j].BP && T[j].Depth == ev.Depth && T[j].Line == ev.Line {
				found = true
				j++
				break
			}
		}
		if !found {
			return fmt.Errorf("step: executed statement #%d (%s at line %d, depth %d) is not a stop of the all-step session (in order)", i, ev.Kind, ev.Line, ev.Depth)
		}
	}
	return nil
}

func replay(content []byte) error {
	var c Case
	if err := json.Unmarshal(content, &c); err != nil || c.Src == "" {
		return nil // not a C19 case
	}
	_, err := checkCase(&c, false, true)
	return err
}

func TestReplays(t *testing.T) {
	rec.RunReplays(t, replay)
}

// ---------------------------------------------------------------- generator of scripts

func genScript(t *rapid.T, label string) []string {
	n := rapid.IntRange(0, 200).Draw(t, label+"-len")
	// per-script weights so that some scripts are dominated by one command
	// (continue ends all stepping until the next breakpoint, so it is kept rare)
	w := [4]int{}
	for i, max := range [4]int{6, 6, 3, 1} {
		w[i] = rapid.IntRange(0, max).Draw(t, label+"-w")
	}
	if w[0]+w[1]+w[2]+w[3] == 0 {
		w[0] = 1
	}
	names := []string{"step", "next", "finish", "continue"}
	var pool []string
	for i, k := range w {
		for ; k > 0; k-- {
			pool = append(pool, names[i])
		}
	}
	out := make([]string, 0, n)
	for i := 0; i < n; i++ {
		name := rapid.SampledFrom(pool).Draw(t, label+"-cmd")
		switch rapid.IntRange(0, 9).Draw(t, label+"-form") {
		case 0:
			out = append(out, name[:1])
		case 1:
			out = append(out, name[:rapid.IntRange(1, len(name)).Draw(t, label+"-plen")])
		case 2:
			out = append(out, "") // enter: repeat
			rec.Label("line:empty")
		default:
			out = append(out, name)
		}
	}
	return out
}

func TestDebugger(t *testing.T) {
	allowFallOff := !known("F-C19-1")
	want, ran := rec.Scale(300, 500), 0
	defer func() {
		if !rec.ReplayOnly() && !t.Failed() && ran < want {
			t.Fatalf("only %d of %d cases ran (rapid stopped early): inconclusive", ran, want)
		}
	}()
	rec.Check(t, want, func(t *rapid.T) {
		ran++
		p := genProg(t, allowFallOff)
		src := p.Source()
		exp := p.Evaluate(stmtLimit)
		if exp == nil {
			rec.Label("excluded:too-long")
			return
		}
		c := &Case{Src: src, Expect: exp}
		for _, f := range p.Funcs {
			if !f.Result && !f.OmitRet && !allowFallOff {
				rec.Excluded("F-C19-1") // a void function that was given an explicit trailing return
				break
			}
		}
		ns := rapid.IntRange(1, 3).Draw(t, "nscripts")
		for i := 0; i < ns; i++ {
			c.Scripts = append(c.Scripts, genScript(t, fmt.Sprintf("s%d", i)))
		}
		st, err := checkCase(c, known("F-C19-2"), false)
		if err != nil {
			dropSessions()
			first := err
			if st, err = checkCase(c, false, true); err == nil {
				// only with interpreters that ran other programs before: not replayable, not reported
				rec.Label("failure-in-shared-interpreter-only")
				rec.Note("failure only in an interpreter that had run earlier programs: %v", first)
				return
			}
			data, _ := json.MarshalIndent(c, "", " ")
			rec.Failf(t, "debugger", data, "json", "%v\n%s", err, src)
		}
		rec.Eval(len(c.Scripts) - 1)
		for i, nt := range st.nt {
			if nt {
				rec.NT(src + "|" + strings.Join(c.Scripts[i], ","))
				rec.Sample(map[string]interface{}{"src": src, "script": strings.Join(c.Scripts[i], " "), "trace_len": st.traceLen})
			}
		}
		rec.Label(fmt.Sprintf("maxdepth:%d", exp.MaxDepth))
		rec.Label("tracelen:" + bucket(st.traceLen))
		rec.Label("breakpoint-hits:" + bucket(st.bps))
		kinds := map[string]int{}
		for _, e := range exp.Events {
			kinds[e.Kind]++
		}
		for _, k := range []string{"assign", "call", "bp", "defer", "return", "jump"} {
			if kinds[k] > 0 {
				rec.LabelN("stmt-executed:"+k, kinds[k])
			}
		}
	})
}

func bucket(n int) string {
	switch {
	case n == 0:
		return "0"
	case n < 10:
		return "1-9"
	case n < 100:
		return "10-99"
	case n < 1000:
		return "100-999"
	}
	return ">=1000"
}
