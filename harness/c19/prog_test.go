// Program generator, printer and reference evaluator for C19.
//
// The mini language is a subset of Go chosen so that (a) every program terminates
// (calls only go to lower-numbered functions, loops have literal bounds), (b) its
// meaning does not depend on anything Go leaves unspecified (no expression reads a
// variable that a call inside the same expression could modify: the global checksum
// acc is only read by call-free statements, closures never run inside expressions and
// never mention loop variables), so the evaluator below is a faithful reference.
package c19

import (
	"fmt"
	"strings"

	"pgregory.net/rapid"
)

// ---------------------------------------------------------------- syntax

type Expr struct {
	Kind string // "lit", "var", "bin", "call"
	Lit  int64
	Name string // variable or function name
	Op   string
	Args []*Expr // operands / call arguments
	Fn   int     // callee index for "call"
}

type Stmt struct {
	Kind string
	// "assign":  Name Op(=,+=,-=) E      x = E
	// "acc":     acc = acc*K + E (E call-free)
	// "call":    E (a call expression) as statement
	// "bp":      "break" (Lit=0) or _ = "break" (Lit=1)
	// "if":      if E%2 == 0 { Body } else { Else }
	// "for":     for Name := 0; Name < Lit; Name++ { Body }
	// "defer":   defer E (call)            / "deferfn": defer func() { Body; return }()
	// "clos":    func() { Body; return }()
	// "return":  return [E]
	// "brk"/"cont": loop break / continue
	Kind2 string
	Name  string
	Op    string
	Lit   int64
	E     *Expr
	Body  []*Stmt
	Else  []*Stmt
	Line  int // set by the printer: line of the statement's first token
	End   int // for closures: line of the closing "return"
}

type Func struct {
	Name    string
	Params  []string
	Result  bool
	Body    []*Stmt // last statement is always a "return" unless OmitRet
	OmitRet bool    // void function without trailing return (only when finding F-C19-1 is not excluded)
	Line    int
}

type Prog struct {
	Funcs []*Func // Funcs[len-1] is main (no params, result)
}

// ---------------------------------------------------------------- generator

type genCtx struct {
	t        *rapid.T
	p        *Prog
	fi       int      // index of the function being generated
	vars     []string // readable int variables in scope (params, x, loop vars)
	loopVars int
	inLoop   bool
	inClos   bool
	void     bool // current function (or closure) has no result
	budget   int  // remaining statements in this function
	allowFallOff bool
}

func (g *genCtx) lit() *Expr {
	return &Expr{Kind: "lit", Lit: int64(rapid.IntRange(0, 9).Draw(g.t, "lit"))}
}

// simple: call-free expression
func (g *genCtx) simple(depth int) *Expr {
	k := rapid.IntRange(0, 5).Draw(g.t, "sk")
	switch {
	case k <= 1 || len(g.vars) == 0 && k <= 3:
		return g.lit()
	case k <= 3:
		return &Expr{Kind: "var", Name: rapid.SampledFrom(g.vars).Draw(g.t, "var")}
	default:
		if depth <= 0 {
			return g.lit()
		}
		op := rapid.SampledFrom([]string{"+", "-", "*"}).Draw(g.t, "op")
		return &Expr{Kind: "bin", Op: op, Args: []*Expr{g.simple(depth - 1), g.simple(depth - 1)}}
	}
}

func (g *genCtx) callees(needResult bool) []int {
	var l []int
	for j := 0; j < g.fi; j++ {
		if !needResult || g.p.Funcs[j].Result {
			l = append(l, j)
		}
	}
	return l
}

func (g *genCtx) call(needResult bool, depth int) *Expr {
	c := g.callees(needResult)
	if len(c) == 0 {
		return nil
	}
	// prefer the next lower function so that deep chains are common
	var j int
	if rapid.IntRange(0, 2).Draw(g.t, "near") > 0 {
		j = c[len(c)-1]
	} else {
		j = rapid.SampledFrom(c).Draw(g.t, "callee")
	}
	f := g.p.Funcs[j]
	e := &Expr{Kind: "call", Fn: j, Name: f.Name}
	for range f.Params {
		e.Args = append(e.Args, g.expr(depth-1))
	}
	return e
}

// expr: may contain calls (only to functions with a result)
func (g *genCtx) expr(depth int) *Expr {
	if depth > 0 {
		switch rapid.IntRange(0, 5).Draw(g.t, "ek") {
		case 0, 1:
			if e := g.call(true, depth); e != nil {
				return e
			}
		case 2:
			op := rapid.SampledFrom([]string{"+", "-", "*"}).Draw(g.t, "op")
			return &Expr{Kind: "bin", Op: op, Args: []*Expr{g.expr(depth - 1), g.expr(depth - 1)}}
		}
	}
	return g.simple(1)
}

func (g *genCtx) assignable() []string {
	var l []string
	for _, v := range g.vars {
		if v == "x" || v == "a" || v == "b" || v == "c" {
			l = append(l, v)
		}
	}
	return l
}

func (g *genCtx) block(nest int, max int) []*Stmt {
	n := rapid.IntRange(1, max).Draw(g.t, "nstmt")
	var out []*Stmt
	for i := 0; i < n && g.budget > 0; i++ {
		s := g.stmt(nest)
		if s != nil {
			out = append(out, s)
			g.budget--
			if s.Kind == "return" || s.Kind == "brk" || s.Kind == "cont" {
				break // nothing after a jump (Go would accept it, "unreachable" is only vet)
			}
		}
	}
	return out
}

func (g *genCtx) closureBody() []*Stmt {
	saveVars, saveLoop, saveClos, saveVoid, saveLoopVars := g.vars, g.inLoop, g.inClos, g.void, g.loopVars
	var vars []string
	for _, v := range g.vars {
		if v == "x" || v == "a" || v == "b" || v == "c" { // never loop variables
			vars = append(vars, v)
		}
	}
	g.vars, g.inLoop, g.inClos, g.void = vars, false, true, true
	body := g.block(2, 3)
	if len(body) == 0 || body[len(body)-1].Kind != "return" {
		if !(g.allowFallOff && len(body) > 0 && rapid.Bool().Draw(g.t, "closure-falloff")) {
			body = append(body, &Stmt{Kind: "return"})
		}
	}
	g.vars, g.inLoop, g.inClos, g.void, g.loopVars = saveVars, saveLoop, saveClos, saveVoid, saveLoopVars
	return body
}

func (g *genCtx) stmt(nest int) *Stmt {
	k := rapid.IntRange(0, 19).Draw(g.t, "stk")
	switch {
	case k <= 3:
		as := g.assignable()
		if len(as) == 0 {
			return &Stmt{Kind: "acc", Lit: 3, E: g.simple(1)}
		}
		return &Stmt{Kind: "assign", Name: rapid.SampledFrom(as).Draw(g.t, "lhs"),
			Op: rapid.SampledFrom([]string{"=", "+=", "-="}).Draw(g.t, "aop"), E: g.expr(2)}
	case k <= 5:
		return &Stmt{Kind: "acc", Lit: int64(rapid.IntRange(2, 7).Draw(g.t, "k")), E: g.simple(1)}
	case k <= 8:
		if e := g.call(false, 2); e != nil {
			return &Stmt{Kind: "call", E: e}
		}
		return &Stmt{Kind: "acc", Lit: 5, E: g.simple(1)}
	case k <= 10:
		return &Stmt{Kind: "bp", Lit: int64(rapid.IntRange(0, 1).Draw(g.t, "bpform"))}
	case k == 11 && nest > 0:
		s := &Stmt{Kind: "if", E: g.simple(1)}
		s.Body = g.block(nest-1, 3)
		if rapid.Bool().Draw(g.t, "else") {
			s.Else = g.block(nest-1, 2)
		}
		return s
	case k <= 13 && nest > 0 && g.loopVars < 2:
		name := []string{"i", "j"}[g.loopVars]
		s := &Stmt{Kind: "for", Name: name, Lit: int64(rapid.IntRange(0, 3).Draw(g.t, "bound"))}
		saveVars, saveLoop := g.vars, g.inLoop
		g.vars = append(append([]string(nil), g.vars...), name)
		g.loopVars++
		g.inLoop = true
		s.Body = g.block(nest-1, 3)
		g.loopVars--
		g.vars, g.inLoop = saveVars, saveLoop
		return s
	case k == 14:
		if g.inClos {
			return nil
		}
		if rapid.Bool().Draw(g.t, "defer-named") {
			if e := g.call(false, 1); e != nil {
				return &Stmt{Kind: "defer", E: e}
			}
		}
		return &Stmt{Kind: "deferfn", Body: g.closureBody()}
	case k == 15:
		if g.inClos {
			return nil
		}
		return &Stmt{Kind: "clos", Body: g.closureBody()}
	case k == 16 && nest < 2: // early return, only inside a nested block
		if g.void {
			return &Stmt{Kind: "return"}
		}
		return &Stmt{Kind: "return", E: g.expr(1)}
	case k == 17 && g.inLoop && nest < 2:
		return &Stmt{Kind: rapid.SampledFrom([]string{"brk", "cont"}).Draw(g.t, "jump")}
	}
	return nil
}

func genProg(t *rapid.T, allowFallOff bool) *Prog {
	p := &Prog{}
	nf := rapid.SampledFrom([]int{1, 2, 3, 3, 4, 4, 5, 5}).Draw(t, "nfuncs")
	for fi := 0; fi < nf; fi++ {
		f := &Func{Name: fmt.Sprintf("f%d", fi)}
		g := &genCtx{t: t, p: p, fi: fi, budget: 8, allowFallOff: allowFallOff}
		if fi == nf-1 {
			f.Name = "main"
			f.Result = true
		} else {
			np := rapid.IntRange(0, 3).Draw(t, "nparams")
			f.Params = []string{"a", "b", "c"}[:np]
			f.Result = rapid.IntRange(0, 3).Draw(t, "result") > 0
		}
		g.void = !f.Result
		g.vars = append(g.vars, f.Params...)
		// x := E first, so that every function has a local
		f.Body = append(f.Body, &Stmt{Kind: "declx", E: g.expr(2)})
		g.vars = append(g.vars, "x")
		// x is used at least once (Go rejects unused locals)
		f.Body = append(f.Body, &Stmt{Kind: "acc", Lit: 3, E: &Expr{Kind: "var", Name: "x"}})
		if fi > 0 && rapid.IntRange(0, 3).Draw(t, "forced-call") > 0 {
			// most functions call the next lower one, so that deep chains are the rule
			lower := p.Funcs[fi-1]
			e := &Expr{Kind: "call", Fn: fi - 1, Name: lower.Name}
			for range lower.Params {
				e.Args = append(e.Args, g.simple(1))
			}
			f.Body = append(f.Body, &Stmt{Kind: "call", E: e})
		}
		f.Body = append(f.Body, g.block(2, 6)...)
		if last := f.Body[len(f.Body)-1]; last.Kind != "return" {
			switch {
			case f.Result:
				f.Body = append(f.Body, &Stmt{Kind: "return", E: g.expr(1)})
			case allowFallOff && rapid.Bool().Draw(t, "falloff"):
				f.OmitRet = true
			default:
				f.Body = append(f.Body, &Stmt{Kind: "return"})
			}
		}
		p.Funcs = append(p.Funcs, f)
	}
	return p
}

// ---------------------------------------------------------------- printer

type printer struct {
	sb   strings.Builder
	line int
}

func (pr *printer) ln(indent int, s string) int {
	pr.line++
	pr.sb.WriteString(strings.Repeat("\t", indent))
	pr.sb.WriteString(s)
	pr.sb.WriteByte('\n')
	return pr.line
}

func (e *Expr) String() string {
	switch e.Kind {
	case "lit":
		return fmt.Sprint(e.Lit)
	case "var":
		return e.Name
	case "bin":
		return "(" + e.Args[0].String() + " " + e.Op + " " + e.Args[1].String() + ")"
	case "call":
		var a []string
		for _, x := range e.Args {
			a = append(a, x.String())
		}
		return e.Name + "(" + strings.Join(a, ", ") + ")"
	}
	panic("bad expr")
}

func (pr *printer) stmts(ind int, l []*Stmt) {
	for _, s := range l {
		pr.stmt(ind, s)
	}
}

func (pr *printer) stmt(ind int, s *Stmt) {
	switch s.Kind {
	case "declx":
		s.Line = pr.ln(ind, "x := "+s.E.String())
	case "assign":
		s.Line = pr.ln(ind, s.Name+" "+s.Op+" "+s.E.String())
	case "acc":
		s.Line = pr.ln(ind, fmt.Sprintf("acc = acc*%d + %s", s.Lit, s.E.String()))
	case "call":
		s.Line = pr.ln(ind, s.E.String())
	case "bp":
		if s.Lit == 0 {
			s.Line = pr.ln(ind, `"break"`)
		} else {
			s.Line = pr.ln(ind, `_ = "break"`)
		}
	case "if":
		s.Line = pr.ln(ind, "if "+s.E.String()+"%2 == 0 {")
		pr.stmts(ind+1, s.Body)
		if s.Else != nil {
			pr.ln(ind, "} else {")
			pr.stmts(ind+1, s.Else)
		}
		pr.ln(ind, "}")
	case "for":
		s.Line = pr.ln(ind, fmt.Sprintf("for %s := 0; %s < %d; %s++ {", s.Name, s.Name, s.Lit, s.Name))
		pr.stmts(ind+1, s.Body)
		pr.ln(ind, "}")
	case "defer":
		s.Line = pr.ln(ind, "defer "+s.E.String())
	case "deferfn":
		s.Line = pr.ln(ind, "defer func() {")
		pr.stmts(ind+1, s.Body)
		s.End = pr.ln(ind, "}()")
	case "clos":
		s.Line = pr.ln(ind, "func() {")
		pr.stmts(ind+1, s.Body)
		s.End = pr.ln(ind, "}()")
	case "return":
		if s.E != nil {
			s.Line = pr.ln(ind, "return "+s.E.String())
		} else {
			s.Line = pr.ln(ind, "return")
		}
	case "brk":
		s.Line = pr.ln(ind, "break")
	case "cont":
		s.Line = pr.ln(ind, "continue")
	default:
		panic("bad stmt " + s.Kind)
	}
}

func (e *Expr) isConst() bool {
	switch e.Kind {
	case "lit":
		return true
	case "bin":
		return e.Args[0].isConst() && e.Args[1].isConst()
	}
	return false
}

// Source prints the program (assigning line numbers) as one chunk for Interp.Eval.
func (p *Prog) Source() string {
	pr := &printer{}
	pr.ln(0, "var acc int")
	for _, f := range p.Funcs {
		var ps string
		if len(f.Params) > 0 {
			ps = strings.Join(f.Params, ", ") + " int"
		}
		res := ""
		if f.Result {
			res = " int"
		}
		f.Line = pr.ln(0, fmt.Sprintf("func %s(%s)%s {", f.Name, ps, res))
		pr.stmts(1, f.Body)
		pr.ln(0, "}")
	}
	return pr.sb.String()
}

// ---------------------------------------------------------------- reference evaluator

// Event is one executed simple statement as the reference evaluator sees it.
type Event struct {
	Depth int    `json:"d"`
	Line  int    `json:"l"`
	Kind  string `json:"k"`
}

type Expect struct {
	Ret    int64   `json:"ret"`
	Acc    int64   `json:"acc"`
	Events []Event `json:"events"` // executed simple statements in order
	MaxDepth int   `json:"max_depth"`
}

type tooLong struct{}

type evaluator struct {
	p      *Prog
	acc    int64
	events []Event
	steps  int
	limit  int
	maxDepth int
}

type frame struct {
	vars   map[string]*int64
	depth  int
	defers []func()
}

type ctl int

const (
	ctlNone ctl = iota
	ctlReturn
	ctlBreak
	ctlContinue
)

func (ev *evaluator) event(fr *frame, s *Stmt, kind string) {
	ev.steps++
	if ev.steps > ev.limit {
		panic(tooLong{})
	}
	ev.events = append(ev.events, Event{fr.depth, s.Line, kind})
}

func (ev *evaluator) eval(fr *frame, e *Expr) int64 {
	switch e.Kind {
	case "lit":
		return e.Lit
	case "var":
		return *fr.vars[e.Name]
	case "bin":
		a := ev.eval(fr, e.Args[0])
		b := ev.eval(fr, e.Args[1])
		switch e.Op {
		case "+":
			return a + b
		case "-":
			return a - b
		default:
			return a * b
		}
	case "call":
		args := make([]int64, len(e.Args))
		for i, a := range e.Args {
			args[i] = ev.eval(fr, a)
		}
		return ev.callFunc(ev.p.Funcs[e.Fn], args, fr.depth+1)
	}
	panic("bad expr")
}

func (ev *evaluator) callFunc(f *Func, args []int64, depth int) int64 {
	fr := &frame{vars: map[string]*int64{}, depth: depth}
	if depth > ev.maxDepth {
		ev.maxDepth = depth
	}
	for i, p := range f.Params {
		v := args[i]
		fr.vars[p] = &v
	}
	_, ret := ev.run(fr, f.Body)
	for i := len(fr.defers) - 1; i >= 0; i-- {
		fr.defers[i]()
	}
	return ret
}

// callClosure runs a closure body in a new frame sharing the variables of fr.
func (ev *evaluator) callClosure(fr *frame, body []*Stmt, depth int) {
	cf := &frame{vars: fr.vars, depth: depth}
	if depth > ev.maxDepth {
		ev.maxDepth = depth
	}
	ev.run(cf, body)
	// closures contain no defer statements
}

func (ev *evaluator) run(fr *frame, l []*Stmt) (ctl, int64) {
	for _, s := range l {
		switch s.Kind {
		case "declx":
			ev.event(fr, s, "assign")
			v := ev.eval(fr, s.E)
			fr.vars["x"] = &v
		case "assign":
			if s.Op != "=" && s.E.isConst() {
				// x += 0 is compiled to nothing (documented nowhere, harmless): a compound
				// assignment of a constant is not predicted as a stop
				ev.event(fr, s, "assign-const")
			} else {
				ev.event(fr, s, "assign")
			}
			v := ev.eval(fr, s.E)
			p := fr.vars[s.Name]
			switch s.Op {
			case "=":
				*p = v
			case "+=":
				*p += v
			default:
				*p -= v
			}
		case "acc":
			ev.event(fr, s, "assign")
			ev.acc = ev.acc*s.Lit + ev.eval(fr, s.E)
		case "call":
			ev.event(fr, s, "call")
			ev.eval(fr, s.E)
		case "bp":
			ev.event(fr, s, "bp")
		case "if":
			var c ctl
			var r int64
			if ev.eval(fr, s.E)%2 == 0 {
				c, r = ev.run(fr, s.Body)
			} else {
				c, r = ev.run(fr, s.Else)
			}
			if c != ctlNone {
				return c, r
			}
		case "for":
			var i int64
			saved, had := fr.vars[s.Name]
			fr.vars[s.Name] = &i
			for i = 0; i < s.Lit; i++ {
				c, r := ev.run(fr, s.Body)
				if c == ctlReturn {
					return c, r
				}
				if c == ctlBreak {
					break
				}
			}
			if had {
				fr.vars[s.Name] = saved
			} else {
				delete(fr.vars, s.Name)
			}
		case "defer":
			ev.event(fr, s, "defer")
			e := s.E
			args := make([]int64, len(e.Args))
			for i, a := range e.Args {
				args[i] = ev.eval(fr, a)
			}
			d := fr.depth + 1
			fr.defers = append(fr.defers, func() { ev.callFunc(ev.p.Funcs[e.Fn], args, d) })
		case "deferfn":
			ev.event(fr, s, "defer")
			body := s.Body
			d := fr.depth + 1
			fr.defers = append(fr.defers, func() { ev.callClosure(fr, body, d) })
		case "clos":
			ev.event(fr, s, "call")
			ev.callClosure(fr, s.Body, fr.depth+1)
		case "return":
			ev.event(fr, s, "return")
			var r int64
			if s.E != nil {
				r = ev.eval(fr, s.E)
			}
			return ctlReturn, r
		case "brk":
			ev.event(fr, s, "jump")
			return ctlBreak, 0
		case "cont":
			ev.event(fr, s, "jump")
			return ctlContinue, 0
		default:
			panic("bad stmt " + s.Kind)
		}
	}
	return ctlNone, 0
}

// Evaluate returns what compiled Go would compute for main(), nil if the program
// executes more than limit simple statements.
func (p *Prog) Evaluate(limit int) (exp *Expect) {
	ev := &evaluator{p: p, limit: limit}
	defer func() {
		if r := recover(); r != nil {
			if _, ok := r.(tooLong); ok {
				exp = nil
				return
			}
			panic(r)
		}
	}()
	ret := ev.callFunc(p.Funcs[len(p.Funcs)-1], nil, 1)
	return &Expect{Ret: ret, Acc: ev.acc, Events: ev.events, MaxDepth: ev.maxDepth}
}
