// C23: the forked scanner (/repo/go/scanner) tokenizes extension-free input exactly
// like go/scanner. Oracle: the standard library twin, on the same bytes.
package c23

import (
	"bytes"
	"fmt"
	goscanner "go/scanner"
	"go/token"
	"os"
	"regexp"
	"strconv"
	"strings"
	"testing"

	"github.com/cosmos72/gomacro/go/etoken"
	mscanner "github.com/cosmos72/gomacro/go/scanner"
	"pgregory.net/rapid"

	"verif/harness/vlib"
)

var rec *vlib.Rec

func TestMain(m *testing.M) {
	rec = vlib.Open("C23")
	rec.Rule("cases = byte strings without gomacro's lexical extensions (no '~' token, no '#' outside literals/comments, no identifier macro; decided on the standard scanner's token stream): " +
		"every corpus file (Go standard library, Go's regression programs, the repository), rapid token soups over a benign + hostile literal alphabet and character-level literal grammars, " +
		"byte-level and token-level mutations of corpus windows; each scanned in both modes (comments skipped / ScanComments) by both scanners. " +
		"A case is non-trivial when the input holds >=1 automatic semicolon or >=1 hostile-class literal (the standard scanner reports an error, or a number/rune/string/comment literal with a prefix, separator, exponent, escape, CR or line directive); distinct = distinct inputs")
	rec.Assume("oracle: go/scanner of the toolchain that builds the harness, same bytes, same file name, fresh file set")
	rec.Assume("the fork is driven as gomacro drives it: macro character '~', etoken.File with line offset 0")
	rec.Assume("'reports an error exactly when' is read as: ErrorCount>0 iff ErrorCount>0; message texts and error positions are recorded, not compared")
	os.Exit(vlib.Main(m, rec))
}

// ---------------------------------------------------------------- running one scanner

type tokRec struct {
	Off int
	Tok token.Token
	Lit string
}

type errRec struct {
	Off int
	Msg string
}

type scanOut struct {
	Toks    []tokRec
	Pos     []token.Position // adjusted position of every token, computed after the scan
	Errs    []errRec
	Panic   interface{}
	Runaway bool
}

const fileName = "dir/c23.go"

func stdScan(src []byte, comments bool) (o scanOut) {
	fset := token.NewFileSet()
	f := fset.AddFile(fileName, -1, len(src))
	var s goscanner.Scanner
	var mode goscanner.Mode
	if comments {
		mode = goscanner.ScanComments
	}
	var pos []token.Pos
	o.Panic = vlib.Try(func() {
		s.Init(f, src, func(p token.Position, msg string) { o.Errs = append(o.Errs, errRec{p.Offset, msg}) }, mode)
		for i := 0; ; i++ {
			p, tok, lit := s.Scan()
			if tok == token.EOF {
				o.Toks = append(o.Toks, tokRec{f.Offset(p), tok, lit})
				pos = append(pos, p)
				return
			}
			if i > 2*len(src)+10 {
				o.Runaway = true
				return
			}
			o.Toks = append(o.Toks, tokRec{f.Offset(p), tok, lit})
			pos = append(pos, p)
		}
	})
	if o.Panic == nil {
		for _, p := range pos {
			o.Pos = append(o.Pos, f.Position(p))
		}
	}
	return o
}

func forkScan(src []byte, comments bool) (o scanOut) {
	fset := etoken.NewFileSet()
	f := fset.AddFile(fileName, -1, len(src), 0)
	var s mscanner.Scanner
	var mode mscanner.Mode
	if comments {
		mode = mscanner.ScanComments
	}
	var pos []token.Pos
	o.Panic = vlib.Try(func() {
		s.Init(f, src, func(p token.Position, msg string) { o.Errs = append(o.Errs, errRec{p.Offset, msg}) }, mode, '~')
		for i := 0; ; i++ {
			p, tok, lit := s.Scan()
			if tok == token.EOF {
				o.Toks = append(o.Toks, tokRec{f.Offset(p), tok, lit})
				pos = append(pos, p)
				return
			}
			if i > 2*len(src)+10 {
				o.Runaway = true
				return
			}
			o.Toks = append(o.Toks, tokRec{f.Offset(p), tok, lit})
			pos = append(pos, p)
		}
	})
	if o.Panic == nil {
		for _, p := range pos {
			o.Pos = append(o.Pos, f.Position(p))
		}
	}
	return o
}

// ---------------------------------------------------------------- the oracle

// masks says which known findings are excluded by construction in the comparator.
type masks struct {
	Semi    bool // F-C23-1: automatic semicolon triggered by a comment is placed at the comment's start
	LineMax bool // F-C23-2: no upper limit for line/column numbers in line directives
}

func currentMasks() masks {
	return masks{Semi: rec.Known("F-C23-1"), LineMax: rec.Known("F-C23-2")}
}

// report is what checkScan learned about an input (for counting only).
type report struct {
	AutoSemis     int  // automatic semicolons in the standard stream
	CommentSemis  int  // of those, triggered by a comment
	MaskedSemis   int  // comment-triggered semicolons whose placement was masked under F-C23-1 (not covered by the stated tolerance)
	TolerantSemis int  // semicolons covered by the property's own tolerance (comment ends the input)
	MaskedLineMax int  // standard errors removed under F-C23-2
	StdErr        bool // the standard scanner reported an error
	ErrClasses    []string
	Hostile       bool
	Tokens        int
}

const maxLineCol = 1 << 30

var lineMaxRe = regexp.MustCompile(`^invalid (line|column) number: ([0-9]+)$`)

// isLineMaxError: the standard scanner's complaint about a line/column number that is
// a valid positive integer but above its cap of 2^30 (the fork has no cap).
func isLineMaxError(msg string) bool {
	m := lineMaxRe.FindStringSubmatch(msg)
	if m == nil {
		return false
	}
	n, err := strconv.ParseUint(m[2], 10, 0)
	return err == nil && n > maxLineCol
}

// sameComment: offsets a and b lie inside the same COMMENT token of the stream toks
// (a stream scanned with comments).
func sameComment(toks []tokRec, a, b int) bool {
	for i, t := range toks {
		if t.Tok != token.COMMENT || t.Off > a {
			continue
		}
		end := t.Off + len(t.Lit) + 2 // CRs are stripped from the literal: be generous
		if i+1 < len(toks) && toks[i+1].Off > end {
			end = toks[i+1].Off
		}
		if a >= t.Off && a < end {
			return b >= t.Off && b < end
		}
	}
	return false
}

// semiCanon computes, from a stream WITH comments, for every automatic semicolon that
// directly follows a run of comments (= the semicolon was triggered by a comment
// between the last token and the line end), the offset of the first comment of the run.
// Returned: map semicolon offset -> offset of first comment of the run, and the set of
// semicolon offsets whose comment run ends the input (only EOF follows).
func semiCanon(toks []tokRec) (canon map[int]int, atEnd map[int]bool) {
	canon, atEnd = map[int]int{}, map[int]bool{}
	for i, t := range toks {
		if t.Tok != token.SEMICOLON || t.Lit != "\n" {
			continue
		}
		j := i
		for j > 0 && toks[j-1].Tok == token.COMMENT {
			j--
		}
		if j == i {
			continue
		}
		canon[t.Off] = toks[j].Off
		k := i + 1
		for k < len(toks) && toks[k].Tok == token.COMMENT {
			k++
		}
		if k < len(toks) && toks[k].Tok == token.EOF {
			atEnd[t.Off] = true
		}
	}
	return
}

// canonComments rewrites a stream WITH comments: a comment-triggered automatic semicolon
// moves in front of its comment run and takes the offset of the run's first comment.
// ignorePos[i] tells that the position of canonical token i must not be compared.
// When order is false only the offset is rewritten (the property's own tolerance).
func canonComments(o scanOut, which func(off int) bool, order bool) (toks []tokRec, pos []token.Position, ign []bool) {
	toks = append([]tokRec(nil), o.Toks...)
	pos = append([]token.Position(nil), o.Pos...)
	ign = make([]bool, len(toks))
	for i := 0; i < len(toks); i++ {
		t := toks[i]
		if t.Tok != token.SEMICOLON || t.Lit != "\n" || !which(t.Off) {
			continue
		}
		j := i
		for j > 0 && toks[j-1].Tok == token.COMMENT {
			j--
		}
		if j == i {
			continue
		}
		first := toks[j].Off
		if order {
			copy(toks[j+1:i+1], toks[j:i])
			copy(pos[j+1:i+1], pos[j:i])
			toks[j] = tokRec{first, token.SEMICOLON, "\n"}
			ign[j] = true
		} else {
			toks[i].Off = first
			ign[i] = true
		}
	}
	return
}

var (
	reUplus  = regexp.MustCompile(`U\+[0-9A-F]+( '.*')?`)
	reQuoted = regexp.MustCompile(`'[^']*'|"[^"]*"`)
)

func errClass(msg string) string {
	msg = reUplus.ReplaceAllString(msg, "U+")
	msg = reQuoted.ReplaceAllString(msg, "_")
	if i := strings.Index(msg, ": "); i >= 0 {
		msg = msg[:i]
	}
	if len(msg) > 48 {
		msg = msg[:48]
	}
	return msg
}

var hostileLit = regexp.MustCompile(`^(0[xXbBoO_]|[0-9.]*_|.*[pP]|[0-9]+[eE])|\\|\r`)

// checkScan is the whole oracle: it scans src with both scanners in both modes and
// returns a non-nil error describing the first disagreement. src must be
// extension-free (the caller filters).
func checkScan(src []byte, mk masks) (rp report, err error) {
	stdC := stdScan(src, true)
	if stdC.Panic != nil || stdC.Runaway {
		return rp, nil // the oracle itself failed on this input: nothing to compare (never observed)
	}
	canon, atEnd := semiCanon(stdC.Toks)
	rp.Tokens = len(stdC.Toks)
	for _, t := range stdC.Toks {
		switch t.Tok {
		case token.SEMICOLON:
			if t.Lit == "\n" {
				rp.AutoSemis++
			}
		case token.INT, token.FLOAT, token.IMAG, token.CHAR, token.STRING, token.COMMENT:
			if !rp.Hostile && (hostileLit.MatchString(t.Lit) || t.Tok == token.COMMENT && strings.Contains(t.Lit, "line ")) {
				rp.Hostile = true
			}
		}
	}
	rp.CommentSemis = len(canon)

	for _, comments := range []bool{true, false} {
		mode := "comments skipped"
		std := stdC
		if comments {
			mode = "ScanComments"
		} else {
			std = stdScan(src, false)
		}
		fork := forkScan(src, comments)
		if fork.Panic != nil {
			return rp, fmt.Errorf("[%s] forked scanner panicked: %v", mode, fork.Panic)
		}
		if fork.Runaway {
			return rp, fmt.Errorf("[%s] forked scanner does not reach EOF within %d tokens", mode, 2*len(src)+10)
		}
		// errors iff errors
		stdErrs := std.Errs
		lineMaxHit := false
		if mk.LineMax {
			stdErrs = nil
			for _, e := range std.Errs {
				if isLineMaxError(e.Msg) {
					lineMaxHit = true
					if comments {
						rp.MaskedLineMax++
					}
					continue
				}
				stdErrs = append(stdErrs, e)
			}
		}
		if comments {
			rp.StdErr = len(std.Errs) > 0
			for _, e := range std.Errs {
				rp.ErrClasses = append(rp.ErrClasses, errClass(e.Msg))
			}
			if rp.StdErr {
				rp.Hostile = true
			}
		}
		forkErrs := fork.Errs
		if lineMaxHit {
			// The directive whose number is above the cap is taken differently by the two
			// scanners from there on (go/scanner stops at the cap, the fork goes on and may
			// complain about another part of the same directive, e.g. line 0 in
			// "//line :0:7211610300"): complaints of the fork about a line/column number
			// inside the same comment belong to the same finding.
			forkErrs = nil
			for _, fe := range fork.Errs {
				same := false
				if strings.HasPrefix(fe.Msg, "invalid line number: ") || strings.HasPrefix(fe.Msg, "invalid column number: ") {
					for _, se := range std.Errs {
						if isLineMaxError(se.Msg) && sameComment(stdC.Toks, se.Off, fe.Off) {
							same = true
						}
					}
				}
				if !same {
					forkErrs = append(forkErrs, fe)
				}
			}
		}
		if (len(stdErrs) > 0) != (len(forkErrs) > 0) {
			if len(stdErrs) > 0 {
				return rp, fmt.Errorf("[%s] go/scanner reports %d error(s), first at offset %d: %q; the forked scanner reports none",
					mode, len(stdErrs), stdErrs[0].Off, stdErrs[0].Msg)
			}
			return rp, fmt.Errorf("[%s] the forked scanner reports %d error(s), first at offset %d: %q; go/scanner reports none",
				mode, len(forkErrs), forkErrs[0].Off, forkErrs[0].Msg)
		}
		if len(stdErrs) > 0 {
			continue // the statement only fixes the token stream when go/scanner reports no error
		}
		// token streams
		var st, ft []tokRec
		var sp, fp []token.Position
		var sIgn, fIgn []bool
		if comments {
			which := func(off int) bool { return mk.Semi || atEnd[off] }
			st, sp, sIgn = canonComments(std, which, mk.Semi)
			ft, fp, fIgn = canonComments(fork, which, mk.Semi) // no-op on the fork as it is; keeps a repaired fork equal
		} else {
			st, sp = append([]tokRec(nil), std.Toks...), std.Pos
			ft, fp = append([]tokRec(nil), fork.Toks...), fork.Pos
			sIgn, fIgn = make([]bool, len(st)), make([]bool, len(ft))
			for i := range st {
				if st[i].Tok == token.SEMICOLON && st[i].Lit == "\n" {
					if c, ok := canon[st[i].Off]; ok && (mk.Semi || atEnd[st[i].Off]) {
						st[i].Off = c
						sIgn[i] = true
					}
				}
			}
			for i := range ft {
				if ft[i].Tok == token.SEMICOLON && ft[i].Lit == "\n" {
					if c, ok := canon[ft[i].Off]; ok && (mk.Semi || atEnd[ft[i].Off]) {
						ft[i].Off = c
						fIgn[i] = true
					}
				}
			}
		}
		n := len(st)
		if len(ft) < n {
			n = len(ft)
		}
		for i := 0; i < n; i++ {
			a, b := st[i], ft[i]
			if a != b {
				return rp, fmt.Errorf("[%s] token %d differs: go/scanner (offset %d, %s, %q), forked scanner (offset %d, %s, %q)",
					mode, i, a.Off, a.Tok, a.Lit, b.Off, etoken.String(b.Tok), b.Lit)
			}
			if sIgn[i] || fIgn[i] || lineMaxHit {
				continue
			}
			if sp[i] != fp[i] {
				return rp, fmt.Errorf("[%s] token %d (%s %q at offset %d): position %v by go/scanner, %v by the forked scanner",
					mode, i, a.Tok, a.Lit, a.Off, sp[i], fp[i])
			}
		}
		if len(st) != len(ft) {
			return rp, fmt.Errorf("[%s] go/scanner yields %d tokens, the forked scanner %d", mode, len(st), len(ft))
		}
	}
	// how many comment-triggered semicolons needed the mask (their raw offsets differ)
	for off := range canon {
		if atEnd[off] {
			rp.TolerantSemis++
		} else if mk.Semi {
			rp.MaskedSemis++
		}
	}
	return rp, nil
}

// ---------------------------------------------------------------- replay

const strictHeader = "#verif-strict "

// parseReplay strips the optional first line "#verif-strict ID,ID" that switches the
// named masks off (used by the replay files of the known findings, which must keep
// failing). '#' cannot start a case of the domain, so there is no ambiguity.
func parseReplay(content []byte, mk masks) ([]byte, masks) {
	if bytes.HasPrefix(content, []byte(strictHeader)) {
		nl := bytes.IndexByte(content, '\n')
		if nl < 0 {
			nl = len(content) - 1
		}
		for _, id := range strings.Split(strings.TrimSpace(string(content[len(strictHeader):nl+1])), ",") {
			switch id {
			case "F-C23-1":
				mk.Semi = false
			case "F-C23-2":
				mk.LineMax = false
			}
		}
		content = content[nl+1:]
	}
	return content, mk
}

func replay(content []byte) error {
	src, mk := parseReplay(content, currentMasks())
	if why := ExtensionUse(src); why != "" {
		return nil // outside the domain
	}
	_, err := checkScan(src, mk)
	return err
}

func TestReplays(t *testing.T) {
	rec.RunReplays(t, replay)
}

// ---------------------------------------------------------------- bookkeeping shared by all generators

func account(class string, src []byte, rp report) {
	rec.Label("src:" + class)
	if rp.AutoSemis > 0 || rp.Hostile {
		rec.NT(string(src))
	}
	if rp.AutoSemis > 0 {
		rec.Label("has:auto-semicolon")
	}
	if rp.CommentSemis > 0 {
		rec.Label("has:comment-triggered-semicolon")
	}
	if rp.TolerantSemis > 0 {
		rec.LabelN("tolerated:semicolon-of-comment-ending-input", rp.TolerantSemis)
	}
	if rp.MaskedSemis > 0 {
		rec.Excluded("F-C23-1")
		rec.LabelN("masked:F-C23-1-semicolons", rp.MaskedSemis)
	}
	if rp.MaskedLineMax > 0 {
		rec.Excluded("F-C23-2")
	}
	if rp.Hostile {
		rec.Label("has:hostile-literal")
	}
	if rp.StdErr {
		rec.Label("outcome:go/scanner-errors")
		seen := map[string]bool{}
		for _, c := range rp.ErrClasses {
			if !seen[c] {
				seen[c] = true
				rec.Label("err:" + c)
			}
		}
	} else {
		rec.Label("outcome:clean-streams-compared")
	}
}

// inDomain filters and counts inputs that use an extension.
func inDomain(src []byte) bool {
	if why := ExtensionUse(src); why != "" {
		rec.Label("excluded:extension-" + why)
		return false
	}
	return true
}

// ---------------------------------------------------------------- (a) corpus sweep

func TestCorpus(t *testing.T) {
	if rec.ReplayOnly() {
		return
	}
	files := Corpus()
	if len(files) < 1000 {
		t.Fatalf("corpus too small: %d files", len(files))
	}
	mk := currentMasks()
	// quick: every 3rd file, rotated by seed; thorough: all
	stride := rec.Scale(3, 1)
	fails := 0
	for i, path := range files {
		if (i+int(rec.Seed()))%stride != 0 || !rec.Mine(i/stride) {
			continue
		}
		src, err := os.ReadFile(path)
		if err != nil {
			continue
		}
		rec.Eval(1)
		if !inDomain(src) {
			continue
		}
		rp, err := checkScan(src, mk)
		account("corpus", src, rp)
		if err != nil {
			fails++
			if fails <= 3 {
				rec.Violation(fmt.Sprintf("corpus-%d", fails), src, "go", "%s: %v", path, err)
				t.Errorf("%s: %v", path, err)
			}
		}
	}
}

// ---------------------------------------------------------------- (b) token soups

func TestSoup(t *testing.T) {
	mk := currentMasks()
	rec.Check(t, rec.Scale(20000, 300000), func(t *rapid.T) {
		src := []byte(GenSoup(t, 24))
		if !inDomain(src) {
			return
		}
		rp, err := checkScan(src, mk)
		account("soup", src, rp)
		rec.Sample(string(src))
		if err != nil {
			rec.Failf(t, "soup", src, "txt", "%v\ninput: %q", err, src)
		}
	})
}

// single pieces and pairs of pieces: "errors iff errors" is only sharp on inputs with
// one suspicious literal, so every literal of the alphabets is also scanned alone and
// next to every kind of neighbour.
func TestPieces(t *testing.T) {
	if rec.ReplayOnly() {
		return
	}
	mk := currentMasks()
	all := append(append([]string(nil), PlainTokens...), HostileTokens...)
	ctx := []string{"", "x ", "x", "\n", "1", ".", "'", "\"", "/", "*/", "//", "e", "_", "0", "\r", " y\n", "\n}", "i", "p1", ")"}
	idx := 0
	fails := 0
	for _, p := range all {
		for _, before := range ctx {
			for _, after := range ctx {
				idx++
				if !rec.Mine(idx) {
					continue
				}
				src := []byte(before + p + after)
				rec.Eval(1)
				if !inDomain(src) {
					continue
				}
				rp, err := checkScan(src, mk)
				account("piece-in-context", src, rp)
				if err != nil {
					fails++
					if fails <= 3 {
						rec.Violation(fmt.Sprintf("pieces-%d", fails), src, "txt", "%v\ninput: %q", err, src)
						t.Errorf("%q: %v", src, err)
					}
				}
			}
		}
	}
}

// ---------------------------------------------------------------- (c) mutations of corpus windows

func corpusWindow(t *rapid.T, label string, max int) []byte {
	files := Corpus()
	for try := 0; try < 5; try++ {
		path := files[rapid.IntRange(0, len(files)-1).Draw(t, label)]
		src, err := os.ReadFile(path)
		if err != nil || len(src) == 0 {
			continue
		}
		return Window(t, src, max)
	}
	return []byte("package p\n")
}

func TestMutations(t *testing.T) {
	mk := currentMasks()
	rec.Check(t, rec.Scale(8000, 100000), func(t *rapid.T) {
		base := corpusWindow(t, "file", rapid.SampledFrom([]int{120, 400, 1500}).Draw(t, "win"))
		var src []byte
		class := "mut-byte"
		if rapid.Bool().Draw(t, "token-level") {
			class = "mut-token"
			var other []string
			if rapid.IntRange(0, 3).Draw(t, "splice") == 0 {
				other = Pieces(corpusWindow(t, "file2", 400))
			}
			src = []byte(strings.Join(MutateTokens(t, Pieces(base), other, 4, true), ""))
		} else {
			src = MutateBytes(t, base, 4)
		}
		if !inDomain(src) {
			return
		}
		rp, err := checkScan(src, mk)
		account(class, src, rp)
		if err != nil {
			rec.Failf(t, "mutation", src, "txt", "%v\ninput: %q", err, src)
		}
	})
}

// ---------------------------------------------------------------- native fuzz target (same oracle)

// FuzzScan: run by fuzz.sh as a time-boxed native campaign (go test -fuzz cannot be
// started from the compiled test binary the driver uses). In an ordinary run only the
// seed corpus below is executed.
func FuzzScan(f *testing.F) {
	if rec.ReplayOnly() {
		f.Skip("replay only")
	}
	for _, s := range []string{
		"package p\nfunc f() { x := 0x1p-2; _ = 'a' } // c\n", "x /* a\n */ y", "\ufeffa\r\n`r\r`", "1_0.5e+3i 0b12 08 0o 1__2",
		"'\\u12' \"\\q\" `", "//line f.go:3:4\nx\n/*line :7*/y", "a++ // c", "return /* c */", "x\n\n//go:build x\n", "“”", "\x00\xff", "..1...",
	} {
		f.Add([]byte(s))
	}
	mk := currentMasks()
	f.Fuzz(func(t *testing.T, data []byte) {
		if len(data) > 1<<16 || ExtensionUse(data) != "" {
			return
		}
		rec.Eval(1)
		rp, err := checkScan(data, mk)
		account("fuzz", data, rp)
		if err != nil {
			rec.Violation("fuzz", data, "txt", "%v\ninput: %q", err, data)
			t.Fatalf("%v\ninput: %q", err, data)
		}
	})
}
