// Package c23 holds, besides the C23 check (see c23_test.go), the source-text
// generators shared by the syntax checks C23 and C24 ("textgen" of DESIGN.md 3.5):
// corpus listing, token alphabets with hostile literals, byte-level and token-level
// mutation. Everything random is drawn from a *rapid.T.
package c23

import (
	"go/scanner"
	"go/token"
	"os"
	"path/filepath"
	"sort"
	"strings"
	"sync"

	"pgregory.net/rapid"
)

// ---------------------------------------------------------------- corpus

var (
	corpusOnce  sync.Once
	corpusFiles []string
)

// CorpusRoots are the directories swept for *.go files: the Go standard library, Go's
// own regression programs, and the repository under test. Inputs, never oracles.
func CorpusRoots() []string {
	repo := os.Getenv("VERIF_REPO")
	if repo == "" {
		repo = "/repo"
	}
	return []string{"/usr/share/go-1.23/src", "/usr/share/go-1.23/test", repo}
}

// Corpus returns the sorted list of corpus files (deterministic).
func Corpus() []string {
	corpusOnce.Do(func() {
		for _, root := range CorpusRoots() {
			filepath.Walk(root, func(path string, info os.FileInfo, err error) error {
				if err != nil {
					return nil
				}
				if info.IsDir() {
					if info.Name() == ".git" {
						return filepath.SkipDir
					}
					return nil
				}
				if strings.HasSuffix(path, ".go") && info.Size() < 1<<20 {
					corpusFiles = append(corpusFiles, path)
				}
				return nil
			})
		}
		sort.Strings(corpusFiles)
	})
	return corpusFiles
}

// ---------------------------------------------------------------- extension filter

// ExtensionUse reports whether src uses one of gomacro's lexical extensions, seen
// through the STANDARD scanner: the macro character '~' as a token, '#' outside
// literals and comments (ILLEGAL for Go), or the identifier "macro". Characters inside
// string, rune and comment literals are not a use of an extension. "" means extension-free.
func ExtensionUse(src []byte) string {
	maybe := false
	for _, b := range src {
		if b == '~' || b == '#' {
			maybe = true
			break
		}
	}
	if !maybe && !strings.Contains(string(src), "macro") {
		return ""
	}
	fset := token.NewFileSet()
	f := fset.AddFile("x.go", -1, len(src))
	var s scanner.Scanner
	s.Init(f, src, func(token.Position, string) {}, scanner.ScanComments)
	for {
		_, tok, lit := s.Scan()
		switch tok {
		case token.EOF:
			return ""
		case token.TILDE:
			return "tilde"
		case token.ILLEGAL:
			if lit == "#" {
				return "hash"
			}
		case token.IDENT:
			if lit == "macro" {
				return "macro"
			}
		}
	}
}

// ---------------------------------------------------------------- alphabets

// PlainTokens is the benign part of the token alphabet.
var PlainTokens = []string{
	"x", "y", "foo", "_", "a1", "αβ", "x9_", "package", "import", "func", "var", "const", "type", "struct", "interface",
	"map", "chan", "go", "defer", "return", "break", "continue", "fallthrough", "goto", "if", "else", "for", "range",
	"switch", "case", "default", "select", "nil", "true", "macros", "macro_", "Macro", "template",
	"0", "1", "42", "0x1F", "0b101", "0o17", "017", "1_000", "0x_1", "1.5", ".5", "1e3", "1E-3", "0x1p-2", "0X1.8P+1", "3i", "1.e2i", "0i",
	`"s"`, `"a\n\"b"`, "`raw`", "`a\nb`", `'c'`, `'\n'`, `'\''`, `'\x41'`, `'\u00e9'`, `'\377'`, `"\U0001F600"`, `"a#b~c"`, `'#'`, `'~'`,
	"+", "-", "*", "/", "%", "&", "|", "^", "<<", ">>", "&^", "+=", "-=", "*=", "/=", "%=", "&=", "|=", "^=", "<<=", ">>=", "&^=",
	"&&", "||", "<-", "++", "--", "==", "<", ">", "=", "!", "!=", "<=", ">=", ":=", "...", "(", "[", "{", ",", ".", ")", "]", "}", ";", ":",
	"// c", "// macro ~ #", "/* c */", "/* a\nb */", "/*line f.go:10:2*/", "//line g.go:7", "//go:noinline",
}

// HostileTokens are literals at the edge of the lexical grammar (valid and invalid).
var HostileTokens = []string{
	"0x", "0X", "0b", "0o", "0b102", "0b1.0", "0o8", "08", "09.5", "089", "0_", "1_", "_1", "1__0", "0x_", "0_x1", "0x1_", "1_e3", "1e_3", "1e", "1e+", "1E-",
	"0x1p", "0x1.0", "0x.p1", "0x1e3", "1p3", "0b1e3", "0o1p1", "0b1p1", "1.0p1", "0x1P-", "0.i", "1ii", "0x1i", "0b1i", ".e3", "..5", "1..2", "1.2.3", "07_7", "0_7", "00", "0e0", "0b", "0B1_0", "0O7",
	`'`, `''`, `'ab'`, `'\`, `'\'`, `'\xZ'`, `'\x4'`, `'\08'`, `'\400'`, `'\uD800'`, `'\U00110000'`, `'\u12'`, `'\q'`, `'a`, "'\n'", `"`, `"\`, `"\q"`, `"\x"`, `"abc`, "\"a\nb\"", `"\uDFFF"`, `"\400"`,
	"`", "`abc", "`a\r\nb`", "`\r`", "/*", "/* *", "/*/", "/**/", "/* \r */", "/*\r*/", "/* *\r/ */", "//", "// \r", "//\r\n", "/*line :0*/", "//line :x", "//line f:0:1", "//line f:1:0",
	"//line f:1073741825", "//line f:1:1073741825", "/*line f:99999999999*/", "//line f:1073741824", "//line :1:1", "//line :5", "//line  x.go:3", "//line c:\\x.go:3:4", "/*line x.go:3:4", "// line x:3", "//line x.go: 3",
	"\uFEFF", "\x00", "\xff", "\xc0\x80", "\xed\xa0\x80", "\u2028", "\u00a0", "“x”", "”", "$", "?", "@", "\\", "\x7f", "\x01", "\x0c", "\x0b",
	"٣", "x٣", "٣x", "x\u0301", "\u0301", "ª", "𝒳", "x.1", "1.x", "a..b", "....", ".", "..", "<-<", "<<<=", "&^^", "&&=", "|||", "!==", "=>", "->", ":==", "+++", "---",
	"1<-", "</", "/=/", "/ /", "/ *", "*/", "x/*c*/y", "x/**/", "1/*\n*/2", "x//c", ")/*c*/", "]//c", "}/*\n*/", "++//c", "--/* c */", "break/*a*/\n", "return//\n", "x/*a*//*b\n*/y", "x /*a*/ /*b*/ //c",
}

// Separators between pieces of a token soup.
var Separators = []string{"", "", " ", " ", "\n", "\n", "\t", "\r\n", "\r", " \n", ";", "\n\n"}

// GenSoup draws a token soup: mostly benign tokens, a few hostile ones.
func GenSoup(t *rapid.T, maxLen int) string {
	n := rapid.IntRange(1, maxLen).Draw(t, "soup-len")
	hostile := rapid.IntRange(0, 3).Draw(t, "soup-hostility") // 0: none, 3: many
	var sb strings.Builder
	if rapid.IntRange(0, 19).Draw(t, "soup-bom") == 0 {
		sb.WriteString("\ufeff")
	}
	for i := 0; i < n; i++ {
		var piece string
		k := rapid.IntRange(0, 9).Draw(t, "piece-kind")
		switch {
		case hostile == 3 && k < 6, hostile == 2 && k < 2, hostile == 1 && k < 1 && i == n/2:
			piece = rapid.SampledFrom(HostileTokens).Draw(t, "hostile")
		case k == 9:
			piece = GenLiteral(t)
		default:
			piece = rapid.SampledFrom(PlainTokens).Draw(t, "plain")
		}
		sb.WriteString(piece)
		sb.WriteString(rapid.SampledFrom(Separators).Draw(t, "sep"))
	}
	return sb.String()
}

// GenLiteral draws a number / rune / string / comment from character-level grammars,
// so that literal shapes outside the fixed lists are reached too.
func GenLiteral(t *rapid.T) string {
	switch rapid.IntRange(0, 5).Draw(t, "lit-kind") {
	case 0:
		return rapid.StringMatching(`(0[xXbBoO]?)?[0-9a-fA-F_]{0,5}(\.[0-9a-fA-F_]{0,3})?([eEpP][+-]?[0-9_]{0,3})?i?`).Draw(t, "num")
	case 1:
		return rapid.StringMatching(`[0-9]{1,3}(\.[0-9]{0,2})?([eE][+-]?[0-9]{1,2})?i?`).Draw(t, "decnum")
	case 2:
		return "'" + rapid.StringMatching(`(\\([abfnrtv\\'"0-7xuUq]|[0-7]{3}|x[0-9a-fA-FZ]{0,2}|u[0-9a-fA-F]{0,4}|U[0-9a-fA-F]{0,8})|[a-zé€ ])?`).Draw(t, "rune") + rapid.SampledFrom([]string{"'", "'", "'", ""}).Draw(t, "rq")
	case 3:
		return `"` + rapid.StringMatching(`([a-z é"'`+"`"+`/*]|\\[abfnrtv\\'"0-7xuUq]|\\x[0-9a-f]{2}|\\u[0-9a-f]{4}|\\[0-3][0-7]{2}){0,6}`).Draw(t, "str") + rapid.SampledFrom([]string{`"`, `"`, `"`, ""}).Draw(t, "sq")
	case 4:
		return "/*" + rapid.StringMatching(`([a-z *\n\r/]|line [a-z.]{0,4}:[0-9]{0,3}(:[0-9]{0,2})?){0,5}`).Draw(t, "gcomment") + rapid.SampledFrom([]string{"*/", "*/", "*/", ""}).Draw(t, "cq")
	default:
		return "//" + rapid.StringMatching(`([a-z \r/*]|line [a-z.:]{0,4}:[0-9]{0,11}(:[0-9]{0,11})?){0,3}`).Draw(t, "lcomment") + rapid.SampledFrom([]string{"\n", "\n", "\r\n", ""}).Draw(t, "lq")
	}
}

// ---------------------------------------------------------------- mutation

// Pieces splits src into the texts of its tokens (standard scanner, comments kept),
// each piece carrying the white space that follows it, so that the concatenation of
// the pieces is src again. A leading white space run is its own piece.
func Pieces(src []byte) []string {
	fset := token.NewFileSet()
	f := fset.AddFile("x.go", -1, len(src))
	var s scanner.Scanner
	s.Init(f, src, func(token.Position, string) {}, scanner.ScanComments)
	var offs []int
	for {
		pos, tok, lit := s.Scan()
		if tok == token.EOF {
			break
		}
		if tok == token.SEMICOLON && lit == "\n" {
			continue
		}
		o := f.Offset(pos)
		if len(offs) > 0 && o <= offs[len(offs)-1] {
			continue
		}
		offs = append(offs, o)
	}
	var out []string
	prev := 0
	for _, o := range offs {
		if o > prev {
			out = append(out, string(src[prev:o]))
		}
		prev = o
	}
	if prev < len(src) {
		out = append(out, string(src[prev:]))
	}
	return out
}

// ReplacementBytes are the bytes a byte-level mutation may insert (no '~', no '#').
var ReplacementBytes = []byte(" \n\t\r;,.:(){}[]\"'`/*\\+-=<>!&|^%_0179abexpiXE\x00\xff\xc3\xef\xbb\xbf")

// MutateBytes applies 1..k byte-level mutations.
func MutateBytes(t *rapid.T, src []byte, k int) []byte {
	out := append([]byte(nil), src...)
	n := rapid.IntRange(1, k).Draw(t, "nbytemut")
	for i := 0; i < n && len(out) > 0; i++ {
		p := rapid.IntRange(0, len(out)-1).Draw(t, "bpos")
		switch rapid.IntRange(0, 4).Draw(t, "bop") {
		case 0: // delete a run
			e := p + rapid.IntRange(1, 3).Draw(t, "blen")
			if e > len(out) {
				e = len(out)
			}
			out = append(out[:p], out[e:]...)
		case 1: // replace
			out[p] = rapid.SampledFrom(ReplacementBytes).Draw(t, "brepl")
		case 2: // insert
			b := rapid.SampledFrom(ReplacementBytes).Draw(t, "bins")
			out = append(out[:p], append([]byte{b}, out[p:]...)...)
		case 3: // duplicate a run
			e := p + rapid.IntRange(1, 4).Draw(t, "blen")
			if e > len(out) {
				e = len(out)
			}
			run := append([]byte(nil), out[p:e]...)
			out = append(out[:e], append(run, out[e:]...)...)
		default: // truncate
			if rapid.Bool().Draw(t, "trunc-head") {
				out = out[p:]
			} else {
				out = out[:p]
			}
		}
	}
	return out
}

// MutateTokens applies 1..k token-level mutations (delete, duplicate, swap, replace by a
// token of the alphabets, splice a run of tokens from other).
func MutateTokens(t *rapid.T, pieces []string, other []string, k int, hostile bool) []string {
	out := append([]string(nil), pieces...)
	n := rapid.IntRange(1, k).Draw(t, "ntokmut")
	for i := 0; i < n && len(out) > 0; i++ {
		p := rapid.IntRange(0, len(out)-1).Draw(t, "tpos")
		switch rapid.IntRange(0, 5).Draw(t, "top") {
		case 0:
			out = append(out[:p], out[p+1:]...)
		case 1:
			out = append(out[:p+1], append([]string{out[p]}, out[p+1:]...)...)
		case 2:
			q := rapid.IntRange(0, len(out)-1).Draw(t, "tpos2")
			out[p], out[q] = out[q], out[p]
		case 3, 4:
			var r string
			if hostile && rapid.Bool().Draw(t, "repl-hostile") {
				r = rapid.SampledFrom(HostileTokens).Draw(t, "trepl-h")
			} else {
				r = rapid.SampledFrom(PlainTokens).Draw(t, "trepl")
			}
			ws := out[p][len(strings.TrimRight(out[p], " \t\r\n")):]
			if rapid.IntRange(0, 3).Draw(t, "keep-ws") == 0 {
				ws = ""
			}
			out[p] = r + ws
		default:
			if len(other) == 0 {
				continue
			}
			a := rapid.IntRange(0, len(other)-1).Draw(t, "spl-a")
			b := a + rapid.IntRange(1, 8).Draw(t, "spl-n")
			if b > len(other) {
				b = len(other)
			}
			ins := append([]string(nil), other[a:b]...)
			out = append(out[:p], append(ins, out[p:]...)...)
		}
	}
	return out
}

// Window cuts a piece of at most max bytes out of src, starting and ending at line
// boundaries where possible.
func Window(t *rapid.T, src []byte, max int) []byte {
	if len(src) <= max {
		return src
	}
	start := rapid.IntRange(0, len(src)-max).Draw(t, "win-start")
	for start > 0 && src[start-1] != '\n' && start < len(src)-1 {
		start++
	}
	end := start + max
	if end > len(src) {
		end = len(src)
	}
	for end < len(src) && src[end-1] != '\n' {
		end++
		if end-start > max+200 {
			break
		}
	}
	return src[start:end]
}
