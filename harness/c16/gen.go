package c16

import (
	"fmt"
	"strings"

	"pgregory.net/rapid"

	"verif/harness/gobatch"
	"verif/harness/progen"
)

// item is one package-level declaration of the generated set.
type item struct {
	name   string // primary declared name
	kind   string // const, constgroup, var, var2, type, func, method
	text   string
	deps   []int // indices of items it refers to
	depth  int   // length of the longest dependency chain ending here
	viaFn  bool  // that chain passes through a function body
	typ    string
	record []string // expressions recorded by the entry function
}

type gen struct {
	*progen.G
	items []*item
	// exclusions by construction of known findings (switched by rec.Known in the test)
	noMutualFuncs  bool // F-C16-1
	noMethodInInit bool // F-C16-2
	excluded       map[string]int
}

// Opts selects the exclusions; set by the test from known_findings.json.
var Opts struct{ NoMutualFuncs, NoMethodInInit bool }

func (g *gen) add(it *item) int {
	for _, d := range it.deps {
		dd := g.items[d]
		if dd.depth+1 > it.depth {
			it.depth = dd.depth + 1
			it.viaFn = dd.viaFn || dd.kind == "func" || dd.kind == "method"
		}
	}
	if it.depth == 0 {
		it.depth = 1
	}
	g.items = append(g.items, it)
	return len(g.items) - 1
}

// pick returns the index of a random earlier item of one of the given kinds (-1 if none).
func (g *gen) pick(label string, kinds ...string) int {
	var c []int
	for i, it := range g.items {
		for _, k := range kinds {
			if it.kind == k {
				c = append(c, i)
			}
		}
	}
	if len(c) == 0 {
		return -1
	}
	return c[g.Pick(len(c), label)]
}

// intAtom is an int-valued expression over earlier int constants / variables / functions.
func (g *gen) intAtom(deps *[]int) string {
	for try := 0; try < 3; try++ {
		switch g.Pick(4, "atom") {
		case 0:
			if i := g.pick("atom-const", "const", "constgroup"); i >= 0 {
				*deps = append(*deps, i)
				return "int(" + g.items[i].name + ")"
			}
		case 1:
			if i := g.pick("atom-var", "var"); i >= 0 && g.items[i].typ == "int" {
				*deps = append(*deps, i)
				return g.items[i].name
			}
		case 2:
			if i := g.pick("atom-func", "func"); i >= 0 {
				*deps = append(*deps, i)
				return fmt.Sprintf("%s(%d)", g.items[i].name, g.Int(0, 3, "farg"))
			}
		}
	}
	return fmt.Sprint(g.Int(-3, 9, "lit"))
}

func (g *gen) intExpr(deps *[]int) string {
	a := g.intAtom(deps)
	if g.Bool("binary") {
		return a + " " + g.OneOf("op", "+", "-", "*") + " " + g.intAtom(deps)
	}
	return a
}

// constExpr is an int constant expression over earlier constants.
func (g *gen) constExpr(deps *[]int) string {
	if i := g.pick("cdep", "const", "constgroup"); i >= 0 && g.Bool("use-const") {
		*deps = append(*deps, i)
		return fmt.Sprintf("%s + %d", g.items[i].name, g.Int(0, 5, "cadd"))
	}
	return fmt.Sprint(g.Int(0, 9, "clit"))
}

// shadowingBody returns statements in which parameters, results, := locals, range
// variables, type-switch bindings and labels reuse the names of package-level items.
// It returns an int expression usable afterwards.
func (g *gen) shadowNames() []string {
	var names []string
	for _, it := range g.items {
		if it.kind == "var" || it.kind == "const" || it.kind == "func" {
			names = append(names, it.name)
		}
	}
	return names
}

func (g *gen) newFunc() {
	name := g.Top("f")
	var deps []int
	shadow := g.shadowNames()
	param := "n"
	res := "r"
	body := ""
	tags := []string{}
	post := ""
	if len(shadow) > 0 && g.Chance(2, 3, "shadow") {
		// shadowed occurrences must NOT count as dependencies
		k := g.Pick(9, "shadow-kind")
		var ints []string // names of int-like items: a parameter of that name keeps real references well-typed
		var intIdx []int
		for i, it := range g.items {
			if it.kind == "var" || it.kind == "const" {
				ints = append(ints, it.name)
				intIdx = append(intIdx, i)
			}
		}
		if (k <= 1 || k >= 6) && len(ints) == 0 {
			k = 2
		}
		switch k {
		case 0:
			param = ints[g.Pick(len(ints), "sh")]
			tags = append(tags, "shadow-param")
		case 1:
			res = ints[g.Pick(len(ints), "sh")]
			tags = append(tags, "shadow-result")
		case 2:
			l := shadow[g.Pick(len(shadow), "sh")]
			body += fmt.Sprintf("%s := %s * 2\n%s += %s\n", l, param, res, l)
			tags = append(tags, "shadow-define")
		case 3:
			l := shadow[g.Pick(len(shadow), "sh")]
			body += fmt.Sprintf("for %s := range [3]int{} {\n\t%s += %s\n}\n", l, res, l)
			tags = append(tags, "shadow-range")
		case 4:
			l := shadow[g.Pick(len(shadow), "sh")]
			body += fmt.Sprintf("switch %s := interface{}(%s).(type) {\ncase int:\n\t%s += %s\n}\n", l, param, res, l)
			tags = append(tags, "shadow-typeswitch")
		case 5:
			l := shadow[g.Pick(len(shadow), "sh")]
			body += fmt.Sprintf("%s:\n\tfor i := 0; i < 3; i++ {\n\t\tif i == 1 {\n\t\t\tcontinue %s\n\t\t}\n\t\t%s += i\n\t}\n", l, l, res)
			tags = append(tags, "shadow-label")
		default:
			// a variable declared in the header of if / for / switch (or by range / type switch)
			// shadows the package-level name only inside that statement: the reference AFTER
			// the statement is a real dependency on the package-level declaration
			j := g.Pick(len(ints), "sh")
			l := ints[j]
			switch k {
			case 6:
				body += fmt.Sprintf("if %s := %s + 1; %s > 0 {\n\t%s += %s\n}\n", l, param, l, res, l)
				tags = append(tags, "shadow-if-init+reference-after")
			case 7:
				body += fmt.Sprintf("for %s := 0; %s < 2; %s++ {\n\t%s += %s\n}\n", l, l, l, res, l)
				tags = append(tags, "shadow-for-init+reference-after")
			default:
				body += fmt.Sprintf("switch %s := %s; %s {\ncase 1:\n\t%s++\ndefault:\n\t%s += %s\n}\n", l, param, l, res, res, l)
				tags = append(tags, "shadow-switch-init+reference-after")
			}
			post = fmt.Sprintf("%s += int(%s)\n", res, l)
			deps = append(deps, intIdx[j])
		}
	}
	if param == res {
		res = "r"
	}
	// real references, outside the scope of the shadowing names
	pre := fmt.Sprintf("%s = %s\n", res, g.intExpr(&deps))
	if g.Chance(1, 3, "closure") {
		pre += fmt.Sprintf("func() { %s += %s }()\n", res, g.intAtom(&deps))
		tags = append(tags, "closure")
	}
	// references that mention a name which is shadowed in this function would be wrong:
	// drop dependencies on names used as param/result/local here
	text := fmt.Sprintf("func %s(%s int) (%s int) {\n%s\treturn\n}", name, param, res, progen.Indent(pre+body+post))
	it := &item{name: name, kind: "func", text: text, deps: deps, typ: "func"}
	// if the real references were captured by the shadowing names the text is still
	// valid Go, only the dependency bookkeeping (used for the NT rule) is approximate
	idx := g.add(it)
	_ = idx
	for _, t := range tags {
		g.Tag(t)
	}
	it.record = []string{fmt.Sprintf("%s(2)", name)}
}

func (g *gen) newMutualFuncs() {
	if g.noMutualFuncs {
		g.excluded["F-C16-1"]++
		g.newFunc()
		return
	}
	a, b := g.Top("even"), g.Top("odd")
	var deps []int
	base := g.intAtom(&deps)
	ta := fmt.Sprintf("func %s(n int) int {\n\tif n <= 0 {\n\t\treturn %s\n\t}\n\treturn %s(n-1) + 1\n}", a, base, b)
	tb := fmt.Sprintf("func %s(n int) int {\n\tif n <= 0 {\n\t\treturn 1\n\t}\n\treturn %s(n-1) * 2\n}", b, a)
	ia := g.add(&item{name: a, kind: "func", text: ta, deps: deps, typ: "func", record: []string{a + "(3)"}})
	g.add(&item{name: b, kind: "func", text: tb, deps: append([]int{ia}, deps...), typ: "func", record: []string{b + "(2)"}})
	g.Tag("mutual-recursion")
}

func (g *gen) newConst() {
	name := g.Top("c")
	var deps []int
	if g.Chance(1, 3, "iota-group") {
		n2, n3 := g.Top("c"), g.Top("c")
		e := g.constExpr(&deps)
		text := fmt.Sprintf("const (\n\t%s = iota*2 + %s\n\t%s\n\t%s\n)", name, e, n2, n3)
		g.add(&item{name: name, kind: "constgroup", text: text, deps: deps, typ: "int", record: []string{name, n2, n3}})
		g.Tag("iota-group")
		return
	}
	typ := g.OneOf("const-type", "", "", "int8 ", "uint16 ", "int64 ")
	text := fmt.Sprintf("const %s %s= %s", name, typ, g.constExpr(&deps))
	g.add(&item{name: name, kind: "const", text: text, deps: deps, typ: "int", record: []string{name}})
}

func (g *gen) newVar() {
	name := g.Top("v")
	var deps []int
	switch g.Pick(5, "var-kind") {
	case 0, 1:
		text := fmt.Sprintf("var %s = %s", name, g.intExpr(&deps))
		g.add(&item{name: name, kind: "var", text: text, deps: deps, typ: "int", record: []string{name}})
	case 2:
		text := fmt.Sprintf("var %s int = %s", name, g.intExpr(&deps))
		g.add(&item{name: name, kind: "var", text: text, deps: deps, typ: "int", record: []string{name}})
	case 3:
		text := fmt.Sprintf("var %s = []int{%s, %s}", name, g.intExpr(&deps), g.intAtom(&deps))
		g.add(&item{name: name, kind: "varslice", text: text, deps: deps, typ: "[]int", record: []string{name}})
	default:
		// multi-value initialisation from a function with two results
		f := g.Top("two")
		ftext := fmt.Sprintf("func %s() (int, string) {\n\treturn %s, \"s\"\n}", f, g.intExpr(&deps))
		fi := g.add(&item{name: f, kind: "func2", text: ftext, deps: deps, typ: "func"})
		n2 := g.Top("v")
		text := fmt.Sprintf("var %s, %s = %s()", name, n2, f)
		g.add(&item{name: name, kind: "var", text: text, deps: []int{fi}, typ: "int", record: []string{name, n2}})
		g.Tag("var-multi-value")
	}
}

func (g *gen) newType() {
	switch g.Pick(3, "type-kind") {
	case 0: // struct with a method, and a variable initialised by calling it; plus a self-recursive struct
		// (methods reached through a pointer field of a recursive type are a documented
		// corner of gomacro's emulated recursive types and are not generated)
		t := g.Top("T")
		var deps []int
		text := fmt.Sprintf("type %s struct {\n\ta int\n\tb string\n}", t)
		ti := g.add(&item{name: t, kind: "type", text: text})
		mtext := fmt.Sprintf("func (t %s) Sum() int {\n\treturn t.a + len(t.b) + %s\n}", t, g.intAtom(&deps))
		mi := g.add(&item{name: t + ".Sum", kind: "method", text: mtext, deps: append([]int{ti}, deps...)})
		v := g.Top("v")
		var d2 []int
		if g.noMethodInInit {
			// the method is called by the entry function instead of a package-level initialiser
			g.excluded["F-C16-2"]++
			vtext := fmt.Sprintf("var %s = %s{%s, \"xy\"}", v, t, g.intAtom(&d2))
			g.add(&item{name: v, kind: "varstruct", text: vtext, deps: append([]int{ti, mi}, d2...), record: []string{v + ".Sum()"}})
		} else {
			vtext := fmt.Sprintf("var %s = %s{%s, \"xy\"}.Sum()", v, t, g.intAtom(&d2))
			g.add(&item{name: v, kind: "var", text: vtext, deps: append([]int{ti, mi}, d2...), typ: "int", record: []string{v}})
			g.Tag("method-call-in-package-level-initialiser")
		}
		r := g.Top("R")
		ri := g.add(&item{name: r, kind: "type", text: fmt.Sprintf("type %s struct {\n\ta    int\n\tnext *%s\n}", r, r)})
		w := g.Top("v")
		var d3 []int
		g.add(&item{name: w, kind: "varstruct", text: fmt.Sprintf("var %s = %s{%s, &%s{2, nil}}", w, r, g.intAtom(&d3), r), deps: append([]int{ri}, d3...), record: []string{w + ".a", w + ".next.a"}})
		g.Tag("type-self-recursive")
	case 1: // mutually recursive types
		p, q := g.Top("P"), g.Top("Q")
		pi := g.add(&item{name: p, kind: "type", text: fmt.Sprintf("type %s struct {\n\tq *%s\n\tn int\n}", p, q)})
		qi := g.add(&item{name: q, kind: "type", text: fmt.Sprintf("type %s struct {\n\tp []%s\n\tm int\n}", q, p), deps: []int{pi}})
		// composite literals of mutually recursive struct types hit a documented corner of
		// gomacro's emulated recursive types ("some corner cases using recursive types may
		// not work correctly"): only the zero value and field assignment are generated
		v := g.Top("v")
		var d2 []int
		vtext := fmt.Sprintf("var %s %s", v, p)
		g.add(&item{name: v, kind: "varstruct", text: vtext, deps: append([]int{pi, qi}, d2...), record: []string{v + ".n", v + ".q == nil"}})
		g.Tag("excluded:composite-literal-of-mutually-recursive-types")
		g.Tag("type-mutual-recursion")
	default: // named func type and slice type referring to a constant-sized array
		f := g.Top("Fn")
		var deps []int
		ci := g.pick("arr-const", "const")
		size := "3"
		if ci >= 0 && g.items[ci].typ == "int" && !strings.Contains(g.items[ci].text, "-") {
			// array length from a package-level constant (non-negative by construction: small literals)
			size = "len([" + g.items[ci].name + "&3 + 1]int{})"
			size = g.items[ci].name + "&3 + 1"
			deps = append(deps, ci)
		}
		text := fmt.Sprintf("type %s func([%s]int) int", f, size)
		fi := g.add(&item{name: f, kind: "type", text: text, deps: deps})
		v := g.Top("v")
		var d2 []int
		vtext := fmt.Sprintf("var %s %s = func(a [%s]int) int { return len(a) + %s }", v, f, size, g.intAtom(&d2))
		g.add(&item{name: v, kind: "varfunc", text: vtext, deps: append([]int{fi}, d2...), record: []string{fmt.Sprintf("%s([%s]int{})", v, size)}})
		g.Tag("type-func-array-const-len")
	}
}

// Generate builds one declaration set in a random textual order.
func Generate(t *rapid.T, px string) gobatch.Program {
	g := &gen{G: progen.New(t, px, 0), noMutualFuncs: Opts.NoMutualFuncs, noMethodInInit: Opts.NoMethodInInit, excluded: map[string]int{}}
	n := g.Int(3, 9, "ndecl")
	for i := 0; i < n; i++ {
		switch k := g.Pick(10, "decl-kind"); {
		case k <= 1:
			g.newConst()
		case k <= 4:
			g.newVar()
		case k <= 6:
			g.newFunc()
		case k == 7:
			g.newMutualFuncs()
		default:
			g.newType()
		}
	}
	entry := g.Top("main")
	var body strings.Builder
	ev := 0
	for _, it := range g.items {
		for _, r := range it.record {
			ev++
			fmt.Fprintf(&body, "rec.E(%d, %s)\n", ev, r)
		}
	}
	all := make([]int, len(g.items))
	for i := range all {
		all[i] = i
	}
	g.add(&item{name: entry, kind: "entry", text: fmt.Sprintf("func %s() {\n%s}", entry, progen.Indent(body.String())), deps: all})

	idx := make([]int, len(g.items))
	for i := range idx {
		idx[i] = i
	}
	perm := rapid.Permutation(idx).Draw(t, "order")
	if g.noMethodInInit {
		// F-C16-2: a method must be declared before the code that calls it is compiled and the
		// sorter sees no dependency on methods: keep the drawn order but put method
		// declarations first in the text (counted)
		var methods, rest []int
		for _, i := range perm {
			if g.items[i].kind == "method" {
				methods = append(methods, i)
			} else {
				rest = append(rest, i)
			}
		}
		if len(methods) > 0 {
			g.excluded["F-C16-2"] += len(methods)
		}
		perm = append(methods, rest...)
	}
	pos := make([]int, len(perm))
	for p, i := range perm {
		pos[i] = p
	}
	decls := make([]string, len(perm))
	nontopo := false
	maxDepth, viaFn := 0, false
	for p, i := range perm {
		decls[p] = g.items[i].text
		for _, d := range g.items[i].deps {
			if pos[d] > p && g.items[i].kind != "entry" {
				nontopo = true
			}
		}
		if g.items[i].kind != "entry" && g.items[i].depth > maxDepth {
			maxDepth = g.items[i].depth
		}
		if g.items[i].kind != "entry" && g.items[i].depth >= 3 && g.items[i].viaFn {
			viaFn = true
		}
	}
	prog := gobatch.Program{Decls: decls, Entry: entry, OneEval: true, Tags: g.TagList()}
	for id, n := range g.excluded {
		for i := 0; i < n; i++ {
			prog.Tags = append(prog.Tags, "excluded-shape:"+id)
		}
	}
	prog.Tags = append(prog.Tags, fmt.Sprintf("chain-depth-%d", min(maxDepth, 6)))
	if nontopo {
		prog.Tags = append(prog.Tags, "order-not-topological")
	}
	if maxDepth >= 3 && viaFn && nontopo {
		prog.NT = "chain>=3-through-function-body,non-topological-order"
	}
	return prog
}

func min(a, b int) int {
	if a < b {
		return a
	}
	return b
}
