// C16: package-level declarations in one evaluation may be written in any order.
// Oracle: the Go toolchain (order-independent by definition), batch build.
package c16

import (
	"os"
	"strings"
	"testing"

	"verif/harness/gobatch"
	"verif/harness/vlib"
)

var rec *vlib.Rec

func TestMain(m *testing.M) {
	rec = vlib.Open("C16")
	rec.Rule("cases = valid package-level declaration sets (3-9 generated units: typed/untyped constants and iota groups, variables initialised from constants, other variables, function calls and methods, multi-value var, " +
		"self- and mutually recursive types, named func types with constant array lengths, functions with closures and mutual recursion, parameters/results/:= locals/range variables/type-switch bindings/labels that shadow package-level names) " +
		"written in a rapid-drawn random textual order and evaluated by ONE Interp.Eval (so the dependency sorter decides the order); every declared name is read back by an entry function; " +
		"non-trivial = the set has a dependency chain of length >= 3 with a link through a function body and the textual order is not a topological order; distinct = distinct texts")
	rec.Assume("oracle: gc toolchain on the same text (Go's package initialisation is order-independent)")
	rec.Assume("excluded (documented limitation): identifiers used as keys of package-level composite literals")
	os.Exit(vlib.Main(m, rec))
}

// known classifies disagreements caused by listed findings of the dependency sorter.
func known(p gobatch.Program, got, want gobatch.Result) string { return "" }

// VERIF_C16_ASSUME_FIXED (comma separated ids) switches the exclusion of the listed findings
// off, to try a proposed fix in a scratch worktree before known_findings.json changes.
func assumeFixed(id string) bool {
	return strings.Contains(","+os.Getenv("VERIF_C16_ASSUME_FIXED")+",", ","+id+",")
}

func TestAnyOrder(t *testing.T) {
	Opts.NoMutualFuncs = rec.Known("F-C16-1") && !assumeFixed("F-C16-1")
	Opts.NoMethodInInit = rec.Known("F-C16-2") && !assumeFixed("F-C16-2")
	gobatch.Run(t, gobatch.Config{
		Rec: rec, Name: "c16", N: rec.Scale(300, 3000),
		Gen: Generate, Known: known,
	})
}

// A declaration loop may be reported only for sets Go rejects too: every program of the
// main stream is valid Go (go/types vetted), so "declaration loop" there is a violation
// like any other compile error; this test adds the converse bookkeeping for evidence.
func TestReplays(t *testing.T) {
	rec.RunReplays(t, gobatch.Replayer(known))
}

var _ = strings.Contains
