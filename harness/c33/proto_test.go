package c33

// Part (b): the goroutine registry protocol of gomacro/fast driven with synthetic
// identities through hook H3, against an explicit map model (oracle O5).
//
// A simulated goroutine is a slot with an identity. The protocol steps are the ones
// gomacro performs:
//   go-new / go-store   Comp.Go in the new goroutine: tg2 := tg.new(id); tg2.glsStore()
//   enter-foreign       a goroutine started by compiled code shows up (no registry operation)
//   call                newEnv4Func: run := outer.Run; if run.goid != id { run = run.getRun4Goid(id) }
//   frame / free        newEnv / freeEnv on the record chosen by the last call
//   exit                go statement: deferred tg2.glsDel(); foreign: nothing
// Live simulated goroutines always have distinct identities; an identity becomes
// available again when its goroutine exits (identity reuse).

import (
	"encoding/json"
	"fmt"
	"sort"
	"testing"

	"github.com/cosmos72/gomacro/fast"
	"pgregory.net/rapid"
)

const (
	nSlots   = 3
	mainSlot = -1
	mainID   = uintptr(100)
)

type op struct {
	Op  string  `json:"op"`
	G   int     `json:"g"`             // simulated goroutine 0..2, -1 = the interpreter's creator
	ID  uintptr `json:"id,omitempty"`  // go-new, enter-foreign
	Rec int     `json:"rec,omitempty"` // go-new: parent record; call: record of the closure's defining frame
}

type history struct {
	Ops []op `json:"ops"`
}

// ---------------------------------------------------------------- model

type mgor struct {
	alive  bool
	id     uintptr
	goStmt bool // started by a go statement (owns a record, unregisters at exit)
	own    int  // record created by go-new
	stored bool
	cur    int          // record chosen by the last call, -1 none
	held   map[int]bool // records used since the goroutine started
	inUse  []int        // records of the frames currently allocated (stack)
	reused bool         // identity was used before by an exited goroutine
}

type model struct {
	owner    []uintptr // owner identity per record index; record 0 is the creator's
	reg      map[uintptr]int
	gs       [nSlots]mgor
	main     mgor
	usedIDs  map[uintptr]bool // identities of exited goroutines
	ntReuse  bool             // a call happened in a goroutine with a reused identity
	pathSeen map[string]int
}

func newModel() *model {
	m := &model{reg: map[uintptr]int{}, usedIDs: map[uintptr]bool{}, pathSeen: map[string]int{}}
	m.owner = []uintptr{mainID}
	m.reg[mainID] = 0
	m.main = mgor{alive: true, id: mainID, cur: 0, held: map[int]bool{0: true}}
	return m
}

func (m *model) g(i int) *mgor {
	if i == mainSlot {
		return &m.main
	}
	return &m.gs[i]
}

func (m *model) idLive(id uintptr) bool {
	for i := range m.gs {
		if m.gs[i].alive && m.gs[i].id == id {
			return true
		}
	}
	return id == mainID
}

// enabled reports whether o can happen in the current state.
func (m *model) enabled(o op) bool {
	if o.G < mainSlot || o.G >= nSlots {
		return false
	}
	g := m.g(o.G)
	switch o.Op {
	case "go-new":
		return o.G != mainSlot && !g.alive && (o.ID == 1 || o.ID == 2) && !m.idLive(o.ID) && o.Rec >= 0 && o.Rec < len(m.owner)
	case "enter-foreign":
		return o.G != mainSlot && !g.alive && (o.ID == 1 || o.ID == 2) && !m.idLive(o.ID)
	case "go-store":
		return o.G != mainSlot && g.alive && g.goStmt && !g.stored
	case "call":
		return g.alive && (!g.goStmt || g.stored) && o.Rec >= 0 && o.Rec < len(m.owner)
	case "frame":
		return g.alive && g.cur >= 0 && len(g.inUse) < 40
	case "free":
		return g.alive && len(g.inUse) > 0
	case "exit":
		return o.G != mainSlot && g.alive && (!g.goStmt || g.stored)
	}
	return false
}

// apply performs o on the model. For "call" it returns the record the model expects
// and whether it is created by this call.
func (m *model) apply(o op) (recIdx int, created bool) {
	g := m.g(o.G)
	switch o.Op {
	case "go-new":
		m.owner = append(m.owner, o.ID)
		*g = mgor{alive: true, id: o.ID, goStmt: true, own: len(m.owner) - 1, cur: -1, held: map[int]bool{}, reused: m.usedIDs[o.ID]}
		return g.own, true
	case "enter-foreign":
		*g = mgor{alive: true, id: o.ID, own: -1, cur: -1, held: map[int]bool{}, reused: m.usedIDs[o.ID]}
	case "go-store":
		m.reg[g.id] = g.own
		g.stored = true
	case "call":
		switch idx, ok := m.reg[g.id]; {
		case m.owner[o.Rec] == g.id:
			recIdx = o.Rec
			m.pathSeen["call:fast"]++
			if g.goStmt && recIdx != g.own || !g.goStmt && (!ok || idx != recIdx) {
				m.pathSeen["call:fast-unregistered-record"]++
			}
		case ok:
			recIdx = idx
			m.pathSeen["call:lookup"]++
		default:
			m.owner = append(m.owner, g.id)
			recIdx = len(m.owner) - 1
			m.reg[g.id] = recIdx
			created = true
			m.pathSeen["call:create"]++
		}
		g.cur = recIdx
		g.held[recIdx] = true
		if g.reused {
			m.ntReuse = true
			m.pathSeen["call:after-identity-reuse"]++
		}
		return recIdx, created
	case "frame":
		g.inUse = append(g.inUse, g.cur)
	case "free":
		g.inUse = g.inUse[:len(g.inUse)-1]
	case "exit":
		if g.goStmt {
			delete(m.reg, g.id)
		}
		m.usedIDs[g.id] = true
		g.alive = false
		g.held = nil
		g.inUse = nil
		g.cur = -1
	}
	return 0, false
}

func (m *model) keys() []uintptr {
	keys := make([]uintptr, 0, len(m.reg))
	for k := range m.reg {
		keys = append(keys, k)
	}
	sort.Slice(keys, func(i, j int) bool { return keys[i] < keys[j] })
	return keys
}

// ---------------------------------------------------------------- real side + comparison

type frameRef struct {
	env *fast.Env
	rec int
}

// runHistory executes the history on gomacro's registry (through H3) and on the model
// and returns an error describing the first disagreement. Operations that are not
// enabled in the model are skipped (so that any edited or shrunk history stays inside
// the protocol).
func runHistory(h history, stats func(label string)) (err error) {
	defer func() {
		if p := recover(); p != nil {
			err = fmt.Errorf("registry operation panicked: %v", p)
		}
	}()
	if stats == nil {
		stats = func(string) {}
	}
	globals := fast.NewIrGlobals()
	// the creator's record, registered as newTopInterp does
	root := fast.VerifRunNew(&fast.Run{IrGlobals: globals}, mainID)
	fast.VerifGlsStore(root)
	rootEnv := &fast.Env{Run: root}
	rootEnv.FileEnv = rootEnv

	m := newModel()
	recs := []*fast.Run{root}     // real record per model index
	pools := [][]*fast.Env{nil}   // model of the pool of each record (stack of frames)
	inUse := map[int][]frameRef{} // frames currently allocated per goroutine slot
	known := map[*fast.Env]bool{} // every frame ever handed out
	isKnownRec := func(r *fast.Run) int {
		for i, x := range recs {
			if x == r {
				return i
			}
		}
		return -1
	}
	checkFresh := func(i int, o op, r *fast.Run, id uintptr) error {
		if r == nil {
			return fmt.Errorf("step %d %+v: got a nil record", i, o)
		}
		if k := isKnownRec(r); k >= 0 {
			return fmt.Errorf("step %d %+v: expected a new record owned by %d, got existing record #%d (owner %d)", i, o, id, k, fast.VerifGoid(r))
		}
		if got := fast.VerifGoid(r); got != id {
			return fmt.Errorf("step %d %+v: new record has owner identity %d, want %d", i, o, got, id)
		}
		if r.IrGlobals != globals {
			return fmt.Errorf("step %d %+v: new record belongs to another interpreter", i, o)
		}
		if p := fast.VerifPool(r); len(p) != 0 || r.PoolSize != 0 {
			return fmt.Errorf("step %d %+v: new record starts with %d recycled frames (PoolSize %d), want none", i, o, len(p), r.PoolSize)
		}
		if r.CurrEnv != nil {
			return fmt.Errorf("step %d %+v: new record starts with a call stack", i, o)
		}
		return nil
	}

	for i, o := range h.Ops {
		if !m.enabled(o) {
			stats("skipped-not-enabled")
			continue
		}
		stats("op:" + o.Op)
		g := m.g(o.G)
		switch o.Op {
		case "go-new":
			r := fast.VerifRunNew(recs[o.Rec], o.ID)
			if err := checkFresh(i, o, r, o.ID); err != nil {
				return err
			}
			m.apply(o)
			recs = append(recs, r)
			pools = append(pools, nil)
		case "go-store":
			fast.VerifGlsStore(recs[g.own])
			m.apply(o)
		case "enter-foreign":
			m.apply(o)
		case "call":
			id := g.id
			r := recs[o.Rec]
			if fast.VerifGoid(r) != id {
				r = fast.VerifGetRun4Goid(r, id)
			}
			want, created := m.apply(o)
			if created {
				if err := checkFresh(i, o, r, id); err != nil {
					return err
				}
				recs = append(recs, r)
				pools = append(pools, nil)
			} else if r != recs[want] {
				return fmt.Errorf("step %d %+v: goroutine with identity %d got record #%d (owner %d), model says record #%d (owner %d)",
					i, o, id, isKnownRec(r), goidOf(r), want, m.owner[want])
			}
			// the property: the record is owned by this identity and by no other live goroutine
			if r == nil || fast.VerifGoid(r) != id {
				return fmt.Errorf("step %d %+v: goroutine with identity %d runs on a record owned by %d", i, o, id, goidOf(r))
			}
			for s := mainSlot; s < nSlots; s++ {
				other := m.g(s)
				if s != o.G && other.alive && other.held[want] {
					return fmt.Errorf("step %d %+v: record #%d used by goroutine slot %d (identity %d) is also held by live goroutine slot %d (identity %d)",
						i, o, want, o.G, id, s, other.id)
				}
			}
		case "frame":
			cur := g.cur
			f := fast.VerifNewFrame(recs[cur], rootEnv, 1, 1)
			m.apply(o)
			if n := len(pools[cur]); n > 0 {
				// recycled frame: must be the last one given back to this record
				if f != pools[cur][n-1] {
					return fmt.Errorf("step %d %+v: frame taken from record #%d is not the one last recycled there", i, o, cur)
				}
				pools[cur] = pools[cur][:n-1]
			} else if f == nil || known[f] {
				return fmt.Errorf("step %d %+v: record #%d has no recycled frame, but the frame obtained was handed out before", i, o, cur)
			}
			for s, l := range inUse {
				for _, fr := range l {
					if fr.env == f {
						return fmt.Errorf("step %d %+v: frame obtained by slot %d is in use by slot %d", i, o, o.G, s)
					}
				}
			}
			if f.Run != recs[cur] {
				return fmt.Errorf("step %d %+v: frame is bound to another record", i, o)
			}
			known[f] = true
			inUse[o.G] = append(inUse[o.G], frameRef{f, cur})
		case "free":
			l := inUse[o.G]
			fr := l[len(l)-1]
			inUse[o.G] = l[:len(l)-1]
			fast.VerifFreeFrame(fr.env, recs[fr.rec])
			m.apply(o)
			if len(pools[fr.rec]) < 32 {
				pools[fr.rec] = append(pools[fr.rec], fr.env)
			}
		case "exit":
			if g.goStmt {
				fast.VerifGlsDel(recs[g.own])
			}
			m.apply(o)
			delete(inUse, o.G)
		}

		// registry == model map
		keys, want := fast.VerifGlsKeys(globals), m.keys()
		if fmt.Sprint(keys) != fmt.Sprint(want) {
			return fmt.Errorf("after step %d %+v: registered identities %v, model %v", i, o, keys, want)
		}
		for _, id := range []uintptr{1, 2, mainID} {
			r := fast.VerifGlsGet(globals, id)
			idx, ok := m.reg[id]
			switch {
			case !ok && r != nil:
				return fmt.Errorf("after step %d %+v: identity %d is registered (record #%d), model says it is not", i, o, id, isKnownRec(r))
			case ok && r != recs[idx]:
				return fmt.Errorf("after step %d %+v: identity %d maps to record #%d, model says #%d", i, o, id, isKnownRec(r), idx)
			}
		}
		// recycled frames of every record == model; pools are disjoint
		seen := map[*fast.Env]int{}
		for k, r := range recs {
			p := fast.VerifPool(r)
			if len(p) != len(pools[k]) {
				return fmt.Errorf("after step %d %+v: record #%d holds %d recycled frames, model %d", i, o, k, len(p), len(pools[k]))
			}
			for j := range p {
				if p[j] != pools[k][j] {
					return fmt.Errorf("after step %d %+v: record #%d recycled frame %d differs from the model", i, o, k, j)
				}
				if prev, dup := seen[p[j]]; dup {
					return fmt.Errorf("after step %d %+v: a recycled frame is in the pools of records #%d and #%d", i, o, prev, k)
				}
				seen[p[j]] = k
			}
		}
	}
	for k, n := range m.pathSeen {
		for ; n > 0; n-- {
			stats(k)
		}
	}
	return nil
}

func goidOf(r *fast.Run) uintptr {
	if r == nil {
		return 0
	}
	return fast.VerifGoid(r)
}

// ---------------------------------------------------------------- generator

var opKinds = []string{"go-new", "go-new", "enter-foreign", "enter-foreign", "go-store", "go-store", "go-store",
	"call", "call", "call", "call", "call", "frame", "frame", "free", "exit", "exit"}

func genHistory(t *rapid.T) (history, *model) {
	m := newModel()
	var h history
	n := rapid.IntRange(1, 60).Draw(t, "nops")
	for i := 0; i < n; i++ {
		var o op
		ok := false
		for try := 0; try < 8 && !ok; try++ {
			o = op{Op: rapid.SampledFrom(opKinds).Draw(t, "op")}
			o.G = rapid.IntRange(mainSlot, nSlots-1).Draw(t, "g")
			switch o.Op {
			case "go-new":
				o.ID = uintptr(rapid.IntRange(1, 2).Draw(t, "id"))
				o.Rec = rapid.IntRange(0, len(m.owner)-1).Draw(t, "parent")
			case "enter-foreign":
				o.ID = uintptr(rapid.IntRange(1, 2).Draw(t, "id"))
			case "call":
				o.Rec = rapid.IntRange(0, len(m.owner)-1).Draw(t, "outer")
			}
			ok = m.enabled(o)
		}
		if !ok {
			continue
		}
		m.apply(o)
		h.Ops = append(h.Ops, o)
	}
	return h, m
}

func TestProtocol(t *testing.T) {
	rec.Check(t, rec.Scale(4000, 25000), func(t *rapid.T) {
		h, m := genHistory(t)
		rf := replayFile{Part: "protocol", History: &h}
		data, _ := json.MarshalIndent(rf, "", " ")
		if m.ntReuse {
			rec.NT("proto:" + string(data))
			rec.Label("proto:history-with-call-after-identity-reuse")
			rec.Sample(h)
		} else {
			rec.Label("proto:history-without-reuse")
		}
		if err := runHistory(h, func(l string) { rec.Label("proto:" + l) }); err != nil {
			rec.Failf(t, "protocol", data, "json", "%v", err)
		}
	})
}
