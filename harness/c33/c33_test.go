// C33: goroutine identity and per-goroutine runtime state are never shared.
//
// Part (a) stress_test.go: real schedules. Storms of short goroutines (compiled go,
//
//	interpreted go statements, nested go statements, callbacks started by compiled
//	code) run interpreted closures defined by other goroutines, in waves so that
//	goroutine identities are reused. Oracles: the ownership hook H2 of gomacro
//	(fast.VerifStats), the race detector, an identity tracker (constant within a
//	goroutine, distinct across live goroutines), and natively computed results of
//	the interpreted functions (frame integrity).
//
// Part (b) proto_test.go: the registry protocol driven through hook H3 with synthetic
//
//	identities against a map model.
package c33

import (
	"encoding/json"
	"fmt"
	"os"
	"testing"

	"verif/harness/vlib"
)

var rec *vlib.Rec

func TestMain(m *testing.M) {
	if os.Getenv("C33_WORKER_IN") != "" {
		// stress worker subprocess: never touches the evidence fragment of the shard
		os.Exit(workerMain())
	}
	rec = vlib.Open("C33")
	rec.Rule("(a) case = one stress scenario (waves x goroutine kinds x recursion depth x nesting x GOMAXPROCS x perturbation) run in a -race worker process; " +
		"non-trivial when identity reuse was witnessed in it (the same gls.GoID() value observed for two goroutines at different times) and records were switched at function entry; " +
		"distinct = distinct scenario parameters. " +
		"(b) case = one history of registry operations (go-new, go-store, enter-foreign, call, frame, exit) over <=3 simulated goroutines and identities {1,2}; " +
		"non-trivial when an identity is reused after an exit and a call follows the reuse; distinct = distinct histories")
	rec.Assume("schedules are not owned by the harness: part (a) explores them by repetition, GOMAXPROCS sweep and yield perturbation (hook), a violation needing one rare interleaving can be missed")
	rec.Assume("the race detector and hook H2/H3 (gomacro built with -race -tags verif) are trusted; the hooks use no synchronisation on the hot path so they do not hide races")
	rec.Assume("part (b): each registry operation is atomic under the spin lock, so interleaving at operation granularity is faithful; live simulated goroutines have distinct identities (premise established by part (a))")
	rec.Assume("Interp.Eval is always called from the goroutine that created the interpreter (the top-level record is bound to its creator)")
	os.Exit(vlib.Main(m, rec))
}

// replayFile is the plain form of a failing input of either part.
type replayFile struct {
	Part    string      `json:"part"` // "stress" or "protocol"
	Stress  *stressSpec `json:"stress,omitempty"`
	History *history    `json:"history,omitempty"`
	// informational, written on failure
	Observed []string `json:"observed,omitempty"`
}

func replay(content []byte) error {
	var rf replayFile
	if err := json.Unmarshal(content, &rf); err != nil {
		return nil // not a C33 input
	}
	switch rf.Part {
	case "protocol":
		if rf.History == nil {
			return nil
		}
		return runHistory(*rf.History, nil)
	case "stress":
		if rf.Stress == nil {
			return nil
		}
		// schedule dependent: repeat
		specs := make([]stressSpec, 0, 5)
		for i := 0; i < 5; i++ {
			specs = append(specs, *rf.Stress)
		}
		results, err := runWorker(specs, "replay")
		if err != nil {
			if ve, ok := err.(*workerViolation); ok {
				return fmt.Errorf("%s", ve.msg)
			}
			return nil // infrastructure problem is not a violation
		}
		for _, r := range results {
			if len(r.Violations) > 0 {
				return fmt.Errorf("%v", r.Violations)
			}
		}
	}
	return nil
}

func TestReplays(t *testing.T) {
	rec.RunReplays(t, replay)
}
