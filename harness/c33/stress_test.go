package c33

// Part (a): real schedules. See c33_test.go for the overview.
//
// The parent test draws scenario parameters with rapid (generation only: a schedule
// dependent failure does not shrink, so nothing fails inside the rapid property) and
// hands batches of scenarios to a worker process: the same test binary (-race -tags
// verif) started with C33_WORKER_IN set. A worker is needed because (1) the race
// detector's reports must be collected and attributed (GORACE log_path), and (2) a
// broken registry can kill the process ("fatal error: concurrent map ...").

import (
	"bufio"
	"bytes"
	"encoding/json"
	"fmt"
	"os"
	"os/exec"
	"path/filepath"
	"reflect"
	"runtime"
	"runtime/pprof"
	"sort"
	"strconv"
	"strings"
	"sync"
	"sync/atomic"
	"testing"
	"time"

	"github.com/cosmos72/gomacro/fast"
	"github.com/cosmos72/gomacro/gls"
	"github.com/cosmos72/gomacro/imports"
	"pgregory.net/rapid"

	"verif/harness/vlib"
)

type stressSpec struct {
	Waves    int  `json:"waves"`    // goroutine generations; identities are reused between waves
	Compiled int  `json:"compiled"` // goroutines per wave started by compiled code, calling interpreted closures
	GoStmt   int  `json:"gostmt"`   // goroutines per wave started by interpreted go statements
	Depth    int  `json:"depth"`    // recursion depth of the interpreted functions (frames taken from the pool)
	Nest     int  `json:"nest"`     // levels of go statements / compiled callbacks started from inside goroutines
	Procs    int  `json:"procs"`    // GOMAXPROCS
	Perturb  int  `json:"perturb"`  // hook: yield inside every n-th function entry (0 = never)
	Variant  int  `json:"variant"`  // rotation of the go statement forms
	Yield    bool `json:"yield"`    // interpreted code yields inside the recursion
}

// estimate is a rough count of the interpreted function entries of the scenario.
func (s stressSpec) estimate() int {
	return s.Waves * (s.Compiled + s.GoStmt + 1) * (1 + 2*s.Nest) * (3*s.Depth + 8)
}

func (s stressSpec) key() string {
	return fmt.Sprintf("w%d c%d g%d d%d n%d p%d x%d v%d y%v", s.Waves, s.Compiled, s.GoStmt, s.Depth, s.Nest, s.Procs, s.Perturb, s.Variant, s.Yield)
}

type stressResult struct {
	Index         int                `json:"index"`
	Goroutines    int                `json:"goroutines"`
	ByKind        map[string]int     `json:"by_kind"`
	Reuse         int                `json:"reuse"` // goroutines that observed an identity already observed by an earlier goroutine
	MaxLive       int                `json:"max_live"`
	Samples       int                `json:"samples"`
	Stats         fast.VerifCounters `json:"stats"`
	Registered    int                `json:"registered"` // identities registered at the end of the scenario
	ElapsedMs     int64              `json:"elapsed_ms"`
	Violations    []string           `json:"violations"`
	HarnessErrors []string           `json:"harness_errors"`
}

type workerLine struct {
	Begin  *int          `json:"begin,omitempty"`
	Result *stressResult `json:"result,omitempty"`
	End    bool          `json:"end,omitempty"`
}

// ---------------------------------------------------------------- the interpreted program

const program = `
import "c33h"

func work(tok int, d int) int {
	c33h.Sample(tok)
	if d <= 0 {
		return tok
	}
	a := tok + d
	s := []int{tok, d}
	if c33h.YieldAt(d) {
		c33h.Yield()
	}
	r := work(tok, d-1)
	c33h.Sample(tok)
	if a != tok+d || s[0] != tok || s[1] != d {
		c33h.Corrupt(tok, d)
	}
	return r + d
}

func deep(tok int, d int) int {
	if d <= 0 {
		panic(tok)
	}
	x := tok - d
	r := deep(tok, d-1)
	return r + x
}

func workP(tok int, d int) (ret int) {
	defer func() {
		if e := recover(); e != nil {
			ret = e.(int)
		}
	}()
	return deep(tok, d)
}

func mk(k int) func(int, int) int {
	base := k * 3
	return func(tok int, d int) int {
		c33h.Sample(tok)
		return work(tok, d) + base - 3*k
	}
}

func body(kind int, d int, nest int, park bool) {
	tok := c33h.Enter(kind)
	if park {
		c33h.Park(tok)
	}
	g := c33h.Get(tok)
	c33h.Check(tok, 0, work(tok, d), d)
	c33h.Check(tok, 1, g(tok, d), d)
	c33h.CheckP(tok, workP(tok, d))
	if nest > 0 {
		c33h.Add(2)
		go body(kind+10, d, nest-1, false)
		dd := d
		c33h.Spawn(func(t int) {
			c33h.Check(t, 2, work(t, dd), dd)
			c33h.Check(t, 3, g(t, dd), dd)
		})
	}
	c33h.Put(mk(tok))
	c33h.Leave(tok)
	c33h.Done()
}

func wave(n int, d int, nest int, variant int) {
	for i := 0; i < n; i++ {
		switch (i + variant) % 3 {
		case 0:
			go body(1, d, nest, true)
		case 1:
			go func() {
				body(2, d, nest, true)
			}()
		default:
			f := func(kind int) {
				body(kind, d, nest, true)
			}
			go f(3)
		}
	}
}
`

// kinds of goroutines
const (
	kCompiled = 0  // started by compiled code (the harness)
	kGoDecl   = 1  // go body(...)
	kGoLit    = 2  // go func(){...}()
	kGoVal    = 3  // go f(3), f a closure value
	kMain     = 7  // the creator of the interpreter
	kCallback = 8  // started by compiled code on request of interpreted code
	kNested   = 10 // + kind of the parent: go statement inside a goroutine
)

func kindName(k int) string {
	n := 0
	for k >= kNested && k != kMain && k != kCallback {
		k -= kNested
		n++
	}
	base := map[int]string{kCompiled: "compiled-go", kGoDecl: "go-declared-func", kGoLit: "go-func-literal", kGoVal: "go-closure-value", kMain: "creator", kCallback: "compiled-callback"}[k]
	if n > 0 {
		return fmt.Sprintf("nested%d-go-from-%s", n, base)
	}
	return base
}

// ---------------------------------------------------------------- identity tracker (worker side)

type slot struct {
	id      uintptr // gls.GoID() at Enter
	real    uint64  // runtime goroutine number at Enter
	kind    int
	samples int
	bad     []string // written by the owning goroutine only
	_       [64]byte
}

type barrier struct {
	mu    sync.Mutex
	n     int
	count int
	ch    chan struct{}
}

func newBarrier(n int) *barrier { return &barrier{n: n, ch: make(chan struct{})} }

func (b *barrier) wait() {
	b.mu.Lock()
	b.count++
	if b.count == b.n {
		close(b.ch)
	}
	ch := b.ch
	b.mu.Unlock()
	<-ch
}

type tracker struct {
	spec  stressSpec
	slots []slot
	next  int32

	mu       sync.Mutex
	live     map[uintptr]int // identity -> token of the live goroutine
	seen     map[uintptr]int // identity -> token of the last goroutine that had it
	realSeen map[uint64]int
	reuse    int
	maxLive  int
	viol     []string
	herr     []string
	hand     []func(int, int) int
	handNext int

	wg       sync.WaitGroup
	bar      *barrier
	fallback func(int, int) int
}

var cur *tracker // the scenario being run (set while no scenario goroutine exists)

func currentGoID() uintptr { return gls.GoID() }

func realGoid() uint64 {
	var buf [64]byte
	n := runtime.Stack(buf[:], false)
	// "goroutine 123 [running]:"
	f := strings.Fields(string(buf[:n]))
	if len(f) >= 2 {
		v, _ := strconv.ParseUint(f[1], 10, 64)
		return v
	}
	return 0
}

func newTracker(spec stressSpec) *tracker {
	return &tracker{spec: spec, slots: make([]slot, 1<<15), live: map[uintptr]int{}, seen: map[uintptr]int{}, realSeen: map[uint64]int{}}
}

func (tr *tracker) violation(format string, args ...interface{}) {
	tr.mu.Lock()
	if len(tr.viol) < 20 {
		tr.viol = append(tr.viol, fmt.Sprintf(format, args...))
	}
	tr.mu.Unlock()
}

func (tr *tracker) harnessError(format string, args ...interface{}) {
	tr.mu.Lock()
	if len(tr.herr) < 20 {
		tr.herr = append(tr.herr, fmt.Sprintf(format, args...))
	}
	tr.mu.Unlock()
}

func (tr *tracker) Enter(kind int) int {
	tok := int(atomic.AddInt32(&tr.next, 1))
	if tok >= len(tr.slots) {
		panic("c33 harness: too many goroutines in one scenario")
	}
	id, real := gls.GoID(), realGoid()
	s := &tr.slots[tok]
	s.id, s.real, s.kind = id, real, kind
	tr.mu.Lock()
	if other, ok := tr.live[id]; ok {
		o := &tr.slots[other]
		tr.viol = append(tr.viol, fmt.Sprintf("two live goroutines observe the same identity %#x: goroutine %d (%s) and goroutine %d (%s)",
			id, o.real, kindName(o.kind), real, kindName(kind)))
	}
	if prev, ok := tr.realSeen[real]; ok {
		tr.herr = append(tr.herr, fmt.Sprintf("goroutine %d entered twice (tokens %d and %d)", real, prev, tok))
	}
	tr.realSeen[real] = tok
	tr.live[id] = tok
	if len(tr.live) > tr.maxLive {
		tr.maxLive = len(tr.live)
	}
	if _, ok := tr.seen[id]; ok {
		tr.reuse++
	}
	tr.seen[id] = tok
	tr.mu.Unlock()
	return tok
}

func (tr *tracker) Leave(tok int) {
	s := &tr.slots[tok]
	id, real := gls.GoID(), realGoid()
	if real != s.real {
		tr.harnessError("Leave(%d) called by goroutine %d, entered by goroutine %d", tok, real, s.real)
		return
	}
	if id != s.id {
		s.bad = append(s.bad, fmt.Sprintf("identity of goroutine %d (%s) changed from %#x to %#x", real, kindName(s.kind), s.id, id))
	}
	tr.mu.Lock()
	if tr.live[s.id] == tok {
		delete(tr.live, s.id)
	}
	tr.mu.Unlock()
}

// Sample is on the synchronisation-free path: it touches the caller's slot only.
func (tr *tracker) Sample(tok int) {
	s := &tr.slots[tok]
	s.samples++
	if id := gls.GoID(); id != s.id && len(s.bad) < 5 {
		s.bad = append(s.bad, fmt.Sprintf("identity of a goroutine (%s) changed from %#x to %#x (sample %d)", kindName(s.kind), s.id, id, s.samples))
	}
}

func (tr *tracker) Check(tok int, which int, got int, d int) {
	want := tok + d*(d+1)/2
	if got != want {
		s := &tr.slots[tok]
		if len(s.bad) < 5 {
			s.bad = append(s.bad, fmt.Sprintf("interpreted function (call site %d) in goroutine token %d (%s) returned %d, compiled Go gives %d", which, tok, kindName(s.kind), got, want))
		}
	}
}

func (tr *tracker) CheckP(tok int, got int) {
	// deep(tok,d) panics with tok at the bottom; workP recovers it: result tok
	if got != tok {
		s := &tr.slots[tok]
		if len(s.bad) < 5 {
			s.bad = append(s.bad, fmt.Sprintf("recovered panic value in goroutine token %d (%s) is %d, compiled Go gives %d", tok, kindName(s.kind), got, tok))
		}
	}
}

func (tr *tracker) Corrupt(tok int, d int) {
	s := &tr.slots[tok]
	if len(s.bad) < 5 {
		s.bad = append(s.bad, fmt.Sprintf("local variables of a frame at depth %d of goroutine token %d (%s) changed across a call", d, tok, kindName(s.kind)))
	}
}

func (tr *tracker) Put(f func(int, int) int) {
	tr.mu.Lock()
	if len(tr.hand) < 4096 {
		tr.hand = append(tr.hand, f)
	}
	tr.mu.Unlock()
}

// Get returns a closure defined by another goroutine (possibly one that exited), or
// the top-level function when none is available yet.
func (tr *tracker) Get(tok int) func(int, int) int {
	tr.mu.Lock()
	defer tr.mu.Unlock()
	if len(tr.hand) == 0 {
		return tr.fallback
	}
	tr.handNext++
	return tr.hand[(tr.handNext*7+tok)%len(tr.hand)]
}

// Spawn: compiled code starts a fresh goroutine that calls back into interpreted code.
func (tr *tracker) Spawn(f func(int)) {
	go func() {
		defer tr.recoverGoroutine("compiled-callback")
		tok := tr.Enter(kCallback)
		f(tok)
		tr.Leave(tok)
		tr.wg.Done()
	}()
}

func (tr *tracker) recoverGoroutine(what string) {
	if p := recover(); p != nil {
		crash(fmt.Sprintf("panic in a %s goroutine running interpreted closures: %v\n%s", what, p, stackOfPanic()))
	}
}

func stackOfPanic() string {
	buf := make([]byte, 8192)
	n := runtime.Stack(buf, false)
	return string(buf[:n])
}

func registerPackage() {
	imports.Packages["c33h"] = imports.Package{
		Name: "c33h",
		Binds: map[string]reflect.Value{
			"Enter":   reflect.ValueOf(func(kind int) int { return cur.Enter(kind) }),
			"Leave":   reflect.ValueOf(func(tok int) { cur.Leave(tok) }),
			"Sample":  reflect.ValueOf(func(tok int) { cur.Sample(tok) }),
			"Check":   reflect.ValueOf(func(tok, which, got, d int) { cur.Check(tok, which, got, d) }),
			"CheckP":  reflect.ValueOf(func(tok, got int) { cur.CheckP(tok, got) }),
			"Corrupt": reflect.ValueOf(func(tok, d int) { cur.Corrupt(tok, d) }),
			"Park":    reflect.ValueOf(func(tok int) { cur.bar.wait(); cur.Sample(tok) }),
			"Put":     reflect.ValueOf(func(f func(int, int) int) { cur.Put(f) }),
			"Get":     reflect.ValueOf(func(tok int) func(int, int) int { return cur.Get(tok) }),
			"Spawn":   reflect.ValueOf(func(f func(int)) { cur.Spawn(f) }),
			"Add":     reflect.ValueOf(func(n int) { cur.wg.Add(n) }),
			"Done":    reflect.ValueOf(func() { cur.wg.Done() }),
			"Yield":   reflect.ValueOf(func() { runtime.Gosched() }),
			"YieldAt": reflect.ValueOf(func(d int) bool { return cur.spec.Yield && d%4 == 1 }),
		},
	}
}

// ---------------------------------------------------------------- worker

var (
	workerOut   *bufio.Writer
	workerFile  *os.File
	workerMu    sync.Mutex
	workerIndex int
)

func emit(l workerLine) {
	data, _ := json.Marshal(l)
	workerMu.Lock()
	workerOut.Write(data)
	workerOut.WriteByte('\n')
	workerOut.Flush()
	workerMu.Unlock()
}

// crash reports a panic caught in a harness goroutine as the result of the scenario
// in progress and ends the worker (the state of the scenario is unusable).
func crash(msg string) {
	st := fast.VerifStats()
	viol := []string{msg}
	if st.OwnerViolations != 0 || st.ConcurrentEntries != 0 {
		viol = append([]string{hookMessage(st)}, viol...)
	}
	emit(workerLine{Result: &stressResult{Index: workerIndex, Stats: st, Violations: viol}})
	emit(workerLine{End: true})
	os.Exit(3)
}

func workerMain() int {
	data, err := os.ReadFile(os.Getenv("C33_WORKER_IN"))
	if err != nil {
		fmt.Fprintln(os.Stderr, "c33 worker:", err)
		return 2
	}
	var specs []stressSpec
	if err := json.Unmarshal(data, &specs); err != nil {
		fmt.Fprintln(os.Stderr, "c33 worker:", err)
		return 2
	}
	workerFile, err = os.Create(os.Getenv("C33_WORKER_OUT"))
	if err != nil {
		fmt.Fprintln(os.Stderr, "c33 worker:", err)
		return 2
	}
	workerOut = bufio.NewWriter(workerFile)
	if pf := os.Getenv("C33_CPUPROFILE"); pf != "" { // development aid
		if f, err := os.Create(pf); err == nil {
			pprof.StartCPUProfile(f)
			defer pprof.StopCPUProfile()
		}
	}
	registerPackage()
	raceLog := os.Getenv("C33_RACE_LOG") + "." + strconv.Itoa(os.Getpid())
	var raceOff int64
	for i, spec := range specs {
		workerIndex = i
		k := i
		emit(workerLine{Begin: &k})
		res := runScenario(spec)
		res.Index = i
		// race reports written while this scenario ran
		if txt := readFrom(raceLog, &raceOff); txt != "" {
			for _, rep := range splitRaceReports(txt) {
				if strings.Contains(rep, "github.com/cosmos72/gomacro/") {
					res.Violations = append(res.Violations, "data race reported in gomacro frames while race-free interpreted code ran:\n"+trimReport(rep))
				} else {
					res.HarnessErrors = append(res.HarnessErrors, "data race outside gomacro (harness):\n"+trimReport(rep))
				}
			}
		}
		emit(workerLine{Result: &res})
	}
	emit(workerLine{End: true})
	workerFile.Close()
	return 0
}

func readFrom(path string, off *int64) string {
	f, err := os.Open(path)
	if err != nil {
		return ""
	}
	defer f.Close()
	st, err := f.Stat()
	if err != nil || st.Size() <= *off {
		return ""
	}
	buf := make([]byte, st.Size()-*off)
	n, _ := f.ReadAt(buf, *off)
	*off += int64(n)
	return string(buf[:n])
}

func splitRaceReports(txt string) []string {
	var out []string
	for _, part := range strings.Split(txt, "==================") {
		if strings.Contains(part, "DATA RACE") {
			out = append(out, strings.TrimSpace(part))
		}
	}
	return out
}

func trimReport(rep string) string {
	lines := strings.Split(rep, "\n")
	if len(lines) > 45 {
		lines = append(lines[:45], "...")
	}
	return strings.Join(lines, "\n")
}

// the interpreter of the worker process: created and used for Eval by the worker's
// main goroutine only; one per process because fast.New costs seconds under -race.
var wk struct {
	ir              *fast.Interp
	workFn, workPFn func(int, int) int
	mkFn            func(int) func(int, int) int
	waveFn          func(int, int, int, int)
	initViolation   string
}

func setupInterp() string {
	ir := fast.New()
	if p := vlib.Try(func() { ir.Eval(program) }); p != nil {
		return fmt.Sprintf("the scenario program does not evaluate: %v", p)
	}
	if p := vlib.Try(func() {
		wk.workFn = ir.ValueOf("work").Interface().(func(int, int) int)
		wk.workPFn = ir.ValueOf("workP").Interface().(func(int, int) int)
		wk.mkFn = ir.ValueOf("mk").Interface().(func(int) func(int, int) int)
		wk.waveFn = ir.ValueOf("wave").Interface().(func(int, int, int, int))
	}); p != nil {
		return fmt.Sprintf("cannot extract the interpreted functions: %v", p)
	}
	wk.ir = ir
	// the starting point the registry model of part (b) assumes: exactly the creator's
	// identity is registered, with a record it owns
	root := fast.VerifInterpRun(ir)
	keys := fast.VerifGlsKeys(root.IrGlobals)
	if len(keys) != 1 || keys[0] != fast.VerifGoid(root) || fast.VerifGlsGet(root.IrGlobals, keys[0]) != root || keys[0] != currentGoID() {
		wk.initViolation = fmt.Sprintf("fresh interpreter: registered identities %x, root record owner %#x, creator identity %#x", keys, fast.VerifGoid(root), currentGoID())
	}
	return ""
}

func runScenario(spec stressSpec) (res stressResult) {
	res.ByKind = map[string]int{}
	old := runtime.GOMAXPROCS(spec.Procs)
	defer runtime.GOMAXPROCS(old)

	tr := newTracker(spec)
	cur = tr
	fast.VerifReset()
	fast.VerifSetPerturb(uint64(spec.Perturb))
	defer fast.VerifSetPerturb(0)

	t0 := time.Now()
	defer func() { res.ElapsedMs = time.Since(t0).Milliseconds() }()
	if wk.ir == nil {
		if msg := setupInterp(); msg != "" {
			res.HarnessErrors = append(res.HarnessErrors, msg)
			return res
		}
	}
	ir, workFn, workPFn, mkFn, waveFn := wk.ir, wk.workFn, wk.workPFn, wk.mkFn, wk.waveFn
	if wk.initViolation != "" {
		res.Violations = append(res.Violations, wk.initViolation)
		wk.initViolation = ""
	}
	tr.fallback = workFn
	d, nest := spec.Depth, spec.Nest
	root := fast.VerifInterpRun(ir)

	compiledBody := func() {
		defer tr.recoverGoroutine("compiled")
		tok := tr.Enter(kCompiled)
		tr.bar.wait()
		tr.Sample(tok)
		g := tr.Get(tok)
		tr.Check(tok, 10, workFn(tok, d), d)
		tr.Check(tok, 11, g(tok, d), d)
		tr.CheckP(tok, workPFn(tok, d))
		if nest > 0 {
			tr.wg.Add(1)
			tr.Spawn(func(t int) {
				tr.Check(t, 12, workFn(t, d), d)
				tr.Check(t, 13, g(t, d), d)
			})
		}
		tr.Put(mkFn(tok))
		tr.Leave(tok)
		tr.wg.Done()
	}

	mainTok := tr.Enter(kMain)
	func() {
		defer func() {
			if p := recover(); p != nil {
				crash(fmt.Sprintf("panic in the creator goroutine running interpreted functions: %v\n%s", p, stackOfPanic()))
			}
		}()
		for w := 0; w < spec.Waves; w++ {
			n := spec.Compiled + spec.GoStmt
			tr.bar = newBarrier(n + 1)
			tr.wg.Add(n)
			for i := 0; i < spec.Compiled; i++ {
				go compiledBody()
			}
			if spec.GoStmt > 0 {
				waveFn(spec.GoStmt, d, nest, spec.Variant+w)
			}
			tr.bar.wait()
			tr.Sample(mainTok)
			tr.Check(mainTok, 20, workFn(mainTok, d), d)
			tr.CheckP(mainTok, workPFn(mainTok, d))
			tr.wg.Wait()
		}
	}()
	tr.Leave(mainTok)

	// all scenario goroutines are past their last harness call: collect
	n := int(atomic.LoadInt32(&tr.next))
	res.Goroutines = n
	for tok := 1; tok <= n; tok++ {
		s := &tr.slots[tok]
		res.ByKind[kindName(s.kind)]++
		res.Samples += s.samples
		res.Violations = append(res.Violations, s.bad...)
	}
	tr.mu.Lock()
	res.Violations = append(res.Violations, tr.viol...)
	res.HarnessErrors = append(res.HarnessErrors, tr.herr...)
	res.Reuse, res.MaxLive = tr.reuse, tr.maxLive
	tr.mu.Unlock()
	res.Stats = fast.VerifStats()
	if res.Stats.OwnerViolations != 0 || res.Stats.ConcurrentEntries != 0 {
		res.Violations = append(res.Violations, hookMessage(res.Stats))
	}
	// the creator's identity must still map to the creator's record
	if got := fast.VerifGlsGet(root.IrGlobals, fast.VerifGoid(root)); got != root {
		res.Violations = append(res.Violations, "the creator's identity no longer maps to the creator's record in the registry")
	}
	res.Registered = len(fast.VerifGlsKeys(root.IrGlobals))
	if len(res.Violations) > 20 {
		res.Violations = res.Violations[:20]
	}
	return res
}

func hookMessage(st fast.VerifCounters) string {
	msg := fmt.Sprintf("ownership hook: %d function entries used a runtime record owned by another goroutine identity, %d entries found another goroutine inside the same record (of about %d entries)",
		st.OwnerViolations, st.ConcurrentEntries, st.Entries)
	for i, ev := range fast.VerifEvents() {
		if i < 6 {
			msg += "\n  " + ev.String()
		}
	}
	return msg
}

// ---------------------------------------------------------------- parent

type workerViolation struct {
	index int
	msg   string
}

func (w *workerViolation) Error() string { return w.msg }

var workerSeq int32

// runWorker runs the scenarios in a fresh worker process. It returns the per-scenario
// results, or a *workerViolation when the worker was killed by a failure inside
// gomacro, or another error for infrastructure problems.
func runWorker(specs []stressSpec, tag string) ([]stressResult, error) {
	dir := os.Getenv("VERIF_SCRATCH")
	if dir == "" {
		dir = os.TempDir()
	}
	dir, err := os.MkdirTemp(dir, "c33w-"+tag+"-")
	if err != nil {
		return nil, err
	}
	defer os.RemoveAll(dir)
	in, out, logp := filepath.Join(dir, "in.json"), filepath.Join(dir, "out.jsonl"), filepath.Join(dir, "log.txt")
	data, _ := json.Marshal(specs)
	if err := os.WriteFile(in, data, 0o644); err != nil {
		return nil, err
	}
	logf, err := os.Create(logp)
	if err != nil {
		return nil, err
	}
	cmd := exec.Command(os.Args[0], "-test.run=^$")
	cmd.Env = append(os.Environ(),
		"C33_WORKER_IN="+in, "C33_WORKER_OUT="+out, "C33_RACE_LOG="+filepath.Join(dir, "race"),
		"GORACE=log_path="+filepath.Join(dir, "race")+" halt_on_error=0 exitcode=0")
	cmd.Stdout, cmd.Stderr = logf, logf
	if err := cmd.Start(); err != nil {
		logf.Close()
		return nil, err
	}
	done := make(chan error, 1)
	go func() { done <- cmd.Wait() }()
	// safety net only (never an oracle): a worker that hangs is an infrastructure failure
	limit := time.Duration(600+60*len(specs)) * time.Second
	var werr error
	timedOut := false
	select {
	case werr = <-done:
	case <-time.After(limit):
		cmd.Process.Kill()
		werr = <-done
		timedOut = true
	}
	logf.Close()

	var results []stressResult
	begun, ended := -1, false
	if f, err := os.Open(out); err == nil {
		sc := bufio.NewScanner(f)
		sc.Buffer(make([]byte, 1<<20), 1<<26)
		for sc.Scan() {
			var l workerLine
			if json.Unmarshal(sc.Bytes(), &l) != nil {
				continue
			}
			switch {
			case l.Begin != nil:
				begun = *l.Begin
			case l.Result != nil:
				results = append(results, *l.Result)
			case l.End:
				ended = true
			}
		}
		f.Close()
	}
	if ended {
		return results, nil
	}
	logtxt, _ := os.ReadFile(logp)
	racetxt := ""
	if files, _ := filepath.Glob(filepath.Join(dir, "race.*")); len(files) > 0 {
		b, _ := os.ReadFile(files[0])
		racetxt = string(b)
	}
	if timedOut {
		return results, fmt.Errorf("worker exceeded the safety limit of %v in scenario %d (infrastructure, not a verdict)\n%s", limit, begun, tailOf(string(logtxt), 30))
	}
	// the worker died: was it gomacro?
	txt := string(logtxt)
	if msg := classifyCrash(txt); msg != "" && begun >= 0 {
		return results, &workerViolation{index: begun, msg: msg + "\n" + tailOf(racetxt, 40)}
	}
	return results, fmt.Errorf("worker died in scenario %d: %v\n%s", begun, werr, tailOf(txt, 40))
}

// classifyCrash recognises a worker killed by a failure inside gomacro while it ran
// the (correct, race-free) scenario program.
func classifyCrash(log string) string {
	i := strings.Index(log, "fatal error: ")
	j := strings.Index(log, "panic: ")
	if i < 0 && j < 0 {
		return ""
	}
	start := i
	if i < 0 || (j >= 0 && j < i) {
		start = j
	}
	txt := log[start:]
	// the stack of the goroutine that failed is the first one printed
	first := txt
	if k := strings.Index(txt, "\n\ngoroutine "); k >= 0 {
		rest := txt[k+2:]
		if e := strings.Index(rest, "\n\n"); e >= 0 {
			first = txt[:k+2+e]
		}
	}
	if !strings.Contains(first, "github.com/cosmos72/gomacro/") {
		return ""
	}
	if strings.Contains(first, "c33 harness:") {
		return ""
	}
	lines := strings.Split(first, "\n")
	if len(lines) > 40 {
		lines = lines[:40]
	}
	return "the worker process was killed inside gomacro while running race-free interpreted goroutines:\n" + strings.Join(lines, "\n")
}

func tailOf(s string, n int) string {
	lines := strings.Split(strings.TrimRight(s, "\n"), "\n")
	if len(lines) > n {
		lines = lines[len(lines)-n:]
	}
	return strings.Join(lines, "\n")
}

func genSpec(t *rapid.T, thorough bool) stressSpec {
	s := stressSpec{
		Waves:    rapid.IntRange(2, 5).Draw(t, "waves"),
		Compiled: rapid.IntRange(0, 24).Draw(t, "compiled"),
		GoStmt:   rapid.IntRange(0, 24).Draw(t, "gostmt"),
		Depth:    rapid.SampledFrom([]int{0, 1, 2, 3, 5, 8, 13, 31, 32, 33, 40}).Draw(t, "depth"),
		Nest:     rapid.IntRange(0, 2).Draw(t, "nest"),
		Procs:    rapid.SampledFrom([]int{1, 2, 4, 4}).Draw(t, "procs"),
		Perturb:  rapid.SampledFrom([]int{0, 1, 2, 3, 7, 50}).Draw(t, "perturb"),
		Variant:  rapid.IntRange(0, 2).Draw(t, "variant"),
		Yield:    rapid.Bool().Draw(t, "yield"),
	}
	if thorough {
		s.Procs = rapid.SampledFrom([]int{1, 2, 3, 4, 4, 8}).Draw(t, "procs-thorough")
		s.Waves += rapid.IntRange(0, 4).Draw(t, "more-waves")
		s.Compiled += rapid.IntRange(0, 24).Draw(t, "more-compiled")
		s.GoStmt += rapid.IntRange(0, 24).Draw(t, "more-gostmt")
	}
	if s.Compiled+s.GoStmt == 0 {
		s.GoStmt = 4
	}
	// Bound the cost of a scenario: under the race detector an interpreted function
	// entry costs up to a millisecond (much more when the machine is oversubscribed,
	// because the registry lock spins). Deep recursions (pool of 32 recycled frames
	// exhausted and refilled) therefore get fewer goroutines.
	limit := 4000
	if thorough {
		limit = 8000
	}
	for s.estimate() > limit {
		switch {
		case s.Compiled+s.GoStmt > 3:
			s.Compiled, s.GoStmt = s.Compiled/2, (s.GoStmt+1)/2
		case s.Waves > 2:
			s.Waves--
		case s.Nest > 0:
			s.Nest--
		default:
			s.Depth /= 2
		}
	}
	return s
}

func TestStress(t *testing.T) {
	if rec.ReplayOnly() {
		return
	}
	var specs []stressSpec
	rec.Check(t, rec.Scale(30, 50), func(t *rapid.T) {
		specs = append(specs, genSpec(t, rec.Thorough()))
	})
	if t.Failed() {
		return
	}
	batch := rec.Scale(30, 25)
	for b := 0; b < len(specs); b += batch {
		e := b + batch
		if e > len(specs) {
			e = len(specs)
		}
		part := specs[b:e]
		results, err := runWorker(part, fmt.Sprintf("b%d", b))
		for _, r := range results {
			recordResult(t, part[r.Index], r)
		}
		if err != nil {
			if wv, ok := err.(*workerViolation); ok {
				spec := part[wv.index]
				reportStress(t, spec, []string{wv.msg})
				return
			}
			t.Fatalf("stress worker: %v", err) // INCONCLUSIVE: no violation recorded
		}
		if t.Failed() {
			return
		}
	}
}

func recordResult(t *testing.T, spec stressSpec, r stressResult) {
	t.Logf("scenario %s: %d goroutines, %d entries, %d ms", spec.key(), r.Goroutines, r.Stats.Entries, r.ElapsedMs)
	if len(r.HarnessErrors) > 0 {
		t.Errorf("harness error in scenario %s: %s", spec.key(), strings.Join(r.HarnessErrors, "\n"))
	}
	rec.LabelN("stress:goroutines", r.Goroutines)
	rec.LabelN("stress:identity-samples", r.Samples)
	rec.LabelN("stress:function-entries-checked-by-hook", int(r.Stats.Entries))
	rec.LabelN("stress:entries-that-switched-record", int(r.Stats.Switched))
	rec.LabelN("stress:goroutines-with-reused-identity", r.Reuse)
	kinds := make([]string, 0, len(r.ByKind))
	for k := range r.ByKind {
		kinds = append(kinds, k)
	}
	sort.Strings(kinds)
	for _, k := range kinds {
		rec.LabelN("stress:kind:"+k, r.ByKind[k])
	}
	rec.Label(fmt.Sprintf("stress:procs=%d", spec.Procs))
	rec.Label(fmt.Sprintf("stress:perturb=%d", spec.Perturb))
	rec.Label(fmt.Sprintf("stress:nest=%d", spec.Nest))
	if r.MaxLive >= 8 {
		rec.Label("stress:scenario-with>=8-goroutines-live-at-once")
	}
	if r.Reuse > 0 && r.Stats.Switched > 0 {
		rec.NT("stress:" + spec.key())
		rec.Label("stress:scenario-with-identity-reuse")
		rec.Sample(map[string]interface{}{"scenario": spec, "goroutines": r.Goroutines, "reused_identities": r.Reuse, "entries": r.Stats.Entries, "registered_at_end": r.Registered})
	} else {
		rec.Label("stress:scenario-without-identity-reuse")
	}
	if len(r.Violations) > 0 {
		reportStress(t, spec, r.Violations)
	}
}

// reportStress records a violation of part (a). It does not shrink (schedule
// dependent): the replay file holds the scenario and what was observed.
func reportStress(t *testing.T, spec stressSpec, observed []string) {
	rf := replayFile{Part: "stress", Stress: &spec, Observed: observed}
	var buf bytes.Buffer
	enc := json.NewEncoder(&buf)
	enc.SetIndent("", " ")
	enc.SetEscapeHTML(false)
	enc.Encode(rf)
	msg := fmt.Sprintf("stress scenario %s: %s", spec.key(), strings.Join(observed, "\n"))
	rec.Violation("stress", buf.Bytes(), "json", "%s", msg)
	t.Errorf("%s", msg)
}
