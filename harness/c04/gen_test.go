package c04

import (
	"fmt"
	"strings"
	"testing"

	"pgregory.net/rapid"
)

// ---------------------------------------------------------------- literals

var intLits = []string{"0", "1", "2", "3", "7", "10", "12", "100", "127", "128", "255", "256", "32767", "32768", "65535", "65536",
	"2147483647", "2147483648", "4294967295", "4294967296", "9007199254740992", "9007199254740993", "9223372036854775807", "9223372036854775808",
	"18446744073709551615", "18446744073709551616", "340282366920938463463374607431768211456", "1000000007", "16777217",
	"0x7f", "0xFF", "0X10", "0xdead_beef", "0x_FF_FF", "0xFFFFFFFFFFFFFFFF", "0x1_0000_0000_0000_0000",
	"0o17", "0O7_7", "017", "0_7", "0777", "0b1011", "0B1", "0b_1000_0000", "1_000_000", "1_2_3", "123456789012345678901234567890"}

var runeLits = []string{"'a'", "'A'", "'0'", "'\\n'", "'\\t'", "'\\\\'", "'\\''", "'\\x41'", "'\\101'", "'\\000'", "'\\u00e9'", "'\\u20ac'", "'\\U0001F600'", "'\\U0010FFFF'", "'日'", "'é'", "'\\a'", "'\\xff'", "'\\377'"}

var floatLits = []string{"0.0", "1.0", "1.5", "0.1", "0.2", "0.5", ".5", "1.", "2.5", "3.0", "10.0", "1e3", "1E-3", "2.5e+10", "1e100", "1e308", "1e-308", "1e1000", "1e-1000", "1e1232", "4e1232",
	"0x1p-2", "0x1.8p3", "0X.8P1", "0x1.fffffep127", "0x1p-149", "0x1p-1074", "0x1.fffffffffffffp1023", "0x_1.8p0", "1_0.2_5", "1_0e1_0", "0.30000000000000004",
	"3.4028235e38", "3.4028234663852886e38", "1.7976931348623157e308", "4.9e-324", "16777217.0", "9007199254740993.0", "9223372036854775807.0", "1.00000005960464477539062500001",
	"0.333333333333333333333333333333333333", "123456789.123456789", "1e19", "1e20", "127.0", "128.0", "255.0", "256.0", "0e0", "0.e+5", "07.5", "08.5", "09e1"}

var imagLits = []string{"0i", "1i", "2i", "2.5i", "1e3i", ".5i", "0x1p-2i", "0b11i", "0o7i", "017i", "08i", "1_0i", "0xFi", "1e-3i", "3.0i"}

var stringLits = []string{`""`, `"a"`, `"ab"`, `"b"`, `"héllo"`, `"\n\t\\"`, `"\x41\101é\U0001F600"`, "`raw\\n`", "`a\"b`", `"\""`, `"日本"`, `"\xff"`, "``", `"\a\b\f\r\v"`}

var boolLits = []string{"true", "false"}

type ekind int

const (
	kInt ekind = iota
	kRune
	kFloat
	kComplex
	kString
	kBool
)

func pick(t *rapid.T, l []string, label string) string {
	return l[rapid.IntRange(0, len(l)-1).Draw(t, label)]
}

func literal(t *rapid.T, k ekind) string {
	switch k {
	case kInt:
		if rapid.IntRange(0, 5).Draw(t, "randint") == 0 {
			return fmt.Sprint(rapid.Uint64().Draw(t, "u64"))
		}
		return pick(t, intLits, "intlit")
	case kRune:
		return pick(t, runeLits, "runelit")
	case kFloat:
		if rapid.IntRange(0, 5).Draw(t, "randfloat") == 0 {
			return fmt.Sprintf("%d.%de%d", rapid.IntRange(0, 999).Draw(t, "ip"), rapid.IntRange(0, 99999).Draw(t, "fp"), rapid.IntRange(-40, 40).Draw(t, "exp"))
		}
		return pick(t, floatLits, "floatlit")
	case kComplex:
		return pick(t, imagLits, "imaglit")
	case kString:
		return pick(t, stringLits, "strlit")
	}
	return pick(t, boolLits, "boollit")
}

// numeric kinds not above k (Go: the result kind of a binary operation is the later of int < rune < float < complex)
func lowerNumeric(t *rapid.T, k ekind) ekind {
	return ekind(rapid.IntRange(0, int(k)).Draw(t, "lowerkind"))
}

// genExpr builds the text of a constant expression whose untyped kind is (by Go's rules) k.
func genExpr(t *rapid.T, k ekind, depth int) string {
	if depth <= 0 || rapid.IntRange(0, 9).Draw(t, "leaf") < 2 {
		return literal(t, k)
	}
	d := depth - 1
	paren := func(s string) string {
		if rapid.IntRange(0, 3).Draw(t, "paren") == 0 {
			return s
		}
		return "(" + s + ")"
	}
	// operands: one of kind k, the other of a kind not above k, in either order
	operands := func(maxOther ekind) (string, string) {
		a := genExpr(t, k, d)
		b := genExpr(t, lowerNumeric(t, maxOther), d)
		if rapid.Bool().Draw(t, "swap") {
			a, b = b, a
		}
		return a, b
	}
	switch k {
	case kInt, kRune:
		switch c := rapid.IntRange(0, 11).Draw(t, "intform"); {
		case c <= 5:
			a, b := operands(k)
			op := pick(t, []string{"+", "-", "*", "/", "%", "&", "|", "^", "&^", "+", "*", "-"}, "iop")
			return paren(a + " " + op + " " + b)
		case c <= 7:
			cnt := rapid.SampledFrom([]string{"0", "1", "2", "3", "7", "8", "15", "16", "31", "32", "62", "63", "64", "65", "100", "200", "500", "1.0", "2.0", "'\\x03'", "(1+1)"}).Draw(t, "shcount")
			return paren(genExpr(t, k, d) + " " + pick(t, []string{"<<", ">>"}, "shop") + " " + cnt)
		case c == 8:
			return pick(t, []string{"-", "+", "^"}, "iunop") + paren(genExpr(t, k, d))
		case c == 10:
			// documented deviation, generated to be counted as excluded: shift of an untyped float constant
			return paren(pick(t, []string{"1.0", "8.0", "2.5e1", "1e3"}, "fsh") + " << " + pick(t, []string{"1", "3", "10"}, "fshc"))
		}
		return "(" + genExpr(t, k, d) + ")"
	case kFloat:
		switch c := rapid.IntRange(0, 9).Draw(t, "floatform"); {
		case c <= 6:
			a, b := operands(kFloat)
			return paren(a + " " + pick(t, []string{"+", "-", "*", "/", "/", "*"}, "fop") + " " + b)
		case c == 7:
			return pick(t, []string{"-", "+"}, "funop") + paren(genExpr(t, k, d))
		case c == 8:
			return pick(t, []string{"real", "imag"}, "reim") + "(" + genExpr(t, ekind(rapid.IntRange(0, 3).Draw(t, "reimkind")), d) + ")"
		}
		return "(" + genExpr(t, k, d) + ")"
	case kComplex:
		switch c := rapid.IntRange(0, 9).Draw(t, "cplxform"); {
		case c <= 5:
			a, b := operands(kComplex)
			return paren(a + " " + pick(t, []string{"+", "-", "*", "/"}, "cop") + " " + b)
		case c <= 7:
			return "complex(" + genExpr(t, lowerNumeric(t, kFloat), d) + ", " + genExpr(t, lowerNumeric(t, kFloat), d) + ")"
		case c == 8:
			return "-" + paren(genExpr(t, k, d))
		}
		return "(" + genExpr(t, k, d) + ")"
	case kString:
		return paren(genExpr(t, kString, d) + " + " + genExpr(t, kString, d))
	}
	// kBool
	switch c := rapid.IntRange(0, 9).Draw(t, "boolform"); {
	case c <= 4:
		ok := ekind(rapid.IntRange(0, 4).Draw(t, "cmpkind")) // numeric or string operands
		var a, b string
		if ok == kString {
			a, b = genExpr(t, kString, d), genExpr(t, kString, d)
		} else {
			a, b = genExpr(t, ok, d), genExpr(t, lowerNumeric(t, ok), d)
			if rapid.Bool().Draw(t, "swap") {
				a, b = b, a
			}
		}
		ops := []string{"==", "!=", "<", "<=", ">", ">="}
		if ok == kComplex {
			ops = ops[:2]
		}
		return paren(a + " " + pick(t, ops, "cmpop") + " " + b)
	case c <= 6:
		return paren(genExpr(t, kBool, d) + " " + pick(t, []string{"&&", "||", "==", "!="}, "bop") + " " + genExpr(t, kBool, d))
	case c == 7:
		return "!" + paren(genExpr(t, kBool, d))
	}
	return literal(t, kBool)
}

func drawKind(t *rapid.T) ekind {
	return ekind(rapid.SampledFrom([]int{0, 0, 0, 1, 2, 2, 2, 3, 3, 4, 5, 5}).Draw(t, "kind"))
}

// ---------------------------------------------------------------- tests

func runCase(t *rapid.T, ip *interp, k kase) {
	v, err := check(ip, k)
	if err != nil {
		rec.Failf(t, k.Ctx, k.bytes(), "json", "%v", err)
	}
	rec.Label(v.Label)
	if v.Excl != "" {
		if strings.HasPrefix(v.Excl, "F-") {
			rec.Excluded(v.Excl)
		}
		return
	}
	if v.NT {
		rec.NT(k.Ctx + "|" + k.T + "|" + k.Decl + "|" + k.Expr)
		rec.Sample(k)
	}
}

func TestUntypedTrees(t *testing.T) {
	warmup()
	rec.Check(t, rec.Scale(2000, 15000), func(t *rapid.T) {
		ip := getInterp()
		depth := rapid.IntRange(1, 6).Draw(t, "depth")
		e := genExpr(t, drawKind(t), depth)
		if rapid.IntRange(0, 19).Draw(t, "lenform") == 0 {
			// len of a constant string is a typed int constant; only in these simple positions (typed
			// constant arithmetic in general is C01's subject, not C04's)
			e = "len(" + genExpr(t, kString, 2) + ")" + pick(t, []string{"", " + 1", " * 2", " == 0", " < 3", " - 1"}, "lentail")
		}
		runCase(t, ip, kase{Ctx: "untyped", Expr: e})
	})
}

// typeFor draws a type for the typed context of an expression of kind k: mostly one that can hold it, sometimes not.
func typeFor(t *rapid.T, k ekind) string {
	if rapid.IntRange(0, 9).Draw(t, "anytype") == 0 {
		return pick(t, basicTypes, "T")
	}
	switch k {
	case kString:
		return "string"
	case kBool:
		return "bool"
	}
	return pick(t, basicTypes[1:16], "numT")
}

func TestTypedContexts(t *testing.T) {
	warmup()
	rec.Check(t, rec.Scale(2000, 15000), func(t *rapid.T) {
		ip := getInterp()
		k := drawKind(t)
		e := genExpr(t, k, rapid.IntRange(0, 4).Draw(t, "depth"))
		ctx := pick(t, []string{"conv", "var"}, "ctx")
		runCase(t, ip, kase{Ctx: ctx, Expr: e, T: typeFor(t, k)})
	})
}

func TestBigContexts(t *testing.T) {
	warmup()
	rec.Check(t, rec.Scale(1000, 6000), func(t *rapid.T) {
		ip := getInterp()
		k := ekind(rapid.SampledFrom([]int{0, 0, 1, 2, 2, 2}).Draw(t, "kind"))
		e := genExpr(t, k, rapid.IntRange(0, 4).Draw(t, "depth"))
		runCase(t, ip, kase{Ctx: "big", Expr: e, T: pick(t, []string{"Int", "Rat", "Float"}, "bigT")})
	})
}

// const blocks with iota and implicit repetition
func TestConstDecls(t *testing.T) {
	warmup()
	rec.Check(t, rec.Scale(120, 1500), func(t *rapid.T) {
		n := rapid.IntRange(1, 5).Draw(t, "nconst")
		var sb strings.Builder
		sb.WriteString("const (\n")
		names := []string{}
		for i := 0; i < n; i++ {
			name := fmt.Sprintf("c%d", i)
			names = append(names, name)
			switch {
			case i > 0 && rapid.IntRange(0, 2).Draw(t, "implicit") == 0:
				sb.WriteString("\t" + name + "\n") // implicit repetition of the previous expression
			default:
				k := ekind(rapid.SampledFrom([]int{0, 0, 0, 1, 2, 2, 3}).Draw(t, "ckind"))
				var e string
				switch rapid.IntRange(0, 3).Draw(t, "iotaform") {
				case 0:
					e = "iota"
				case 1:
					e = "1 << (iota * " + pick(t, []string{"1", "10", "3"}, "iotamul") + ")"
				case 2:
					e = "(iota + " + genExpr(t, k, 1) + ") * " + genExpr(t, k, 1)
				default:
					e = genExpr(t, k, 2)
				}
				typ := ""
				if rapid.IntRange(0, 4).Draw(t, "typedconst") == 0 {
					typ = " " + pick(t, []string{"int", "int8", "uint8", "int64", "uint64", "float32", "float64", "complex128"}, "constT")
				}
				if typ != "" && known("F-C04-1") {
					// typed constant declarations are typed contexts: they hit F-C04-1 (extractNumber); left out until it is fixed
					rec.Excluded("F-C04-1")
					typ = ""
				}
				sb.WriteString("\t" + name + typ + " = " + e + "\n")
			}
		}
		sb.WriteString(")")
		// result expression over the declared names
		res := names[rapid.IntRange(0, n-1).Draw(t, "res1")]
		if rapid.Bool().Draw(t, "binres") {
			res = res + " " + pick(t, []string{"+", "-", "*", "/"}, "resop") + " " + names[rapid.IntRange(0, n-1).Draw(t, "res2")]
		}
		runCase(t, nil, kase{Ctx: "src", Decl: sb.String(), Expr: res})
	})
}

// ---------------------------------------------------------------- enumerated boundaries of the typed contexts

// boundaryExprs: for every numeric type, expressions equal to min-1, min, max, max+1 (integers) or
// around the largest finite value / rounding boundaries (floats), each in several spellings.
func boundaryExprs() []kase {
	var out []kase
	add := func(T, e string) {
		for _, ctx := range []string{"conv", "var"} {
			out = append(out, kase{Ctx: ctx, Expr: e, T: T})
		}
	}
	bits := []struct {
		T      string
		n      int
		signed bool
	}{{"int8", 8, true}, {"int16", 16, true}, {"int32", 32, true}, {"int64", 64, true}, {"int", 64, true},
		{"uint8", 8, false}, {"uint16", 16, false}, {"uint32", 32, false}, {"uint64", 64, false}, {"uint", 64, false}, {"uintptr", 64, false}}
	for _, b := range bits {
		var max, min string
		if b.signed {
			max, min = fmt.Sprintf("(1<<%d - 1)", b.n-1), fmt.Sprintf("(-1<<%d)", b.n-1)
		} else {
			max, min = fmt.Sprintf("(1<<%d - 1)", b.n), "0"
		}
		for _, base := range []string{max, min} {
			for _, d := range []string{"", " - 1", " + 1", " - 2", " + 2"} {
				e := base + d
				add(b.T, e)
				add(b.T, "("+e+") * 1.0")           // float-kinded, integer valued
				add(b.T, "("+e+") + 0i")            // complex-kinded, zero imaginary part
				add(b.T, "("+e+") + 0.5")           // truncation: always rejected
				add(b.T, "("+e+") / 1 * 'a' / 'a'") // rune-kinded
			}
		}
	}
	for _, T := range []string{"float32", "complex64"} {
		for _, e := range []string{"0x1.fffffep127", "0x1.fffffefp127", "0x1.ffffffp127", "0x1.ffffff0000001p127", "0x1p128", "-0x1.ffffffp127", "-0x1.fffffefffffffp127",
			"3.4028235e38", "3.40282356779733661637539395458142568447e38", "3.40282356779733661637539395458142568448e38", "1e39", "-1e39",
			"1 + 0x1p-24", "1 + 0x1p-24 + 0x1p-60", "1 + 0x1p-24 - 0x1p-60", "1 + 0x3p-24", "16777217", "16777219", "1<<100 + 1", "1<<127", "1<<128", "-1<<128",
			"0x1p-149", "0x1p-150", "0x1.0000000000001p-150", "0x1.8p-149", "0x1p-200", "1e-46", "0.1", "1.0/3", "1<<64 - 1", "9223372036854775807"} {
			add(T, e)
		}
	}
	for _, T := range []string{"float64", "complex128"} {
		for _, e := range []string{"0x1.fffffffffffffp1023", "0x1.fffffffffffff7p1023", "0x1.fffffffffffff8p1023", "0x1p1024", "-0x1p1024", "1.7976931348623157e308", "1.797693134862315808e308",
			"1e309", "-1e309", "1 + 0x1p-53", "1 + 0x1p-53 + 0x1p-100", "1 + 0x3p-53", "9007199254740993", "1<<100 + 1", "1<<200 + 1", "1<<1023", "1<<1024", "-1<<1024", "1<<64 - 1", "-1<<63 - 1",
			"0x1p-1074", "0x1p-1075", "0x1.0000000000001p-1075", "0x1p-1100", "1e-400", "0.1", "1.0/3", "18446744073709551615", "18446744073709551617"} {
			add(T, e)
		}
	}
	for _, T := range []string{"complex64", "complex128"} {
		for _, e := range []string{"1i", "1 + 1e39i", "1e39 + 1i", "1e309i", "1<<100 * 1i", "(1<<64 - 1) * 1i", "0.1 + 0.1i", "(1 + 0x1p-24 + 0x1p-60) * 1i"} {
			add(T, e)
		}
	}
	for _, e := range []string{"1i", "1 + 1i", "0i", "1.5 + 0i", "'a' + 0i", "1i * 1i", "\"a\"", "true", "65", "'a'", "1 == 1", "0x10FFFF + 1", "-1", "1<<40"} {
		for _, T := range []string{"int", "uint8", "float64", "string", "bool", "complex128", "int32"} {
			add(T, e)
		}
	}
	return out
}

func TestBoundaryContexts(t *testing.T) {
	if rec.ReplayOnly() {
		return
	}
	ip := getInterp()
	nfail := 0
	for i, k := range boundaryExprs() {
		if !rec.Mine(i) || nfail > 20 {
			continue
		}
		if ip.evals++; ip.evals > 5000 {
			ip = getInterp()
		}
		rec.Eval(1)
		v, err := check(ip, k)
		if err != nil {
			nfail++
			rec.Violation("boundary:"+k.Ctx+":"+k.T+":"+k.Expr, k.bytes(), "json", "%v", err)
			t.Errorf("%v", err)
			continue
		}
		rec.Label(v.Label)
		if strings.HasPrefix(v.Excl, "F-") {
			rec.Excluded(v.Excl)
		}
		if v.NT && v.Excl == "" {
			rec.NT(k.Ctx + "|" + k.T + "||" + k.Expr)
		}
	}
}

// math/big beyond what Go itself can express (its constants stop at 512 bits): the harness
// computes the expected value with math/big directly (standard-library twin).
func TestBigEnumerated(t *testing.T) {
	if rec.ReplayOnly() {
		return
	}
	ip := getInterp()
	i := 0
	for _, sh := range []int{0, 1, 62, 63, 64, 65, 100, 511, 512, 513, 1000, 2000} {
		for _, d := range []int64{0, 1, -1, 12345} {
			for _, T := range []string{"Int", "Rat", "Float"} {
				i++
				if !rec.Mine(i) {
					continue
				}
				rec.Eval(1)
				e := fmt.Sprintf("1<<%d + %d", sh, d)
				if d < 0 {
					e = fmt.Sprintf("1<<%d - %d", sh, -d)
				}
				k := kase{Ctx: "bigshift", Expr: e, T: T}
				if err := checkBigShift(ip, sh, d, e, T); err != nil {
					rec.Violation("bigshift:"+T+":"+e, k.bytes(), "json", "%v", err)
					t.Errorf("%v", err)
					continue
				}
				rec.Label("bigshift:ok:" + T)
				if sh > 62 {
					rec.NT("bigshift|" + T + "|" + e)
				}
			}
		}
	}
}

// warmup creates the shared interpreter before rapid starts timing its iterations: rapid ends a run
// early when one iteration (here: the first, paying fast.New + import) looks too slow for the deadline.
func warmup() {
	if !rec.ReplayOnly() {
		getInterp()
	}
}
