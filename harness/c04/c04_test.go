// C04: untyped constant expressions are exact and agree with Go's constant arithmetic;
// typed contexts yield Go's typed value or are rejected; math/big conversions are exact.
//
// Oracle O2: go/types + go/constant in-process (types.CheckExpr on the expression text:
// untyped kind, exact value, and the value of every sub-expression for the exclusions).
package c04

import (
	"encoding/json"
	"fmt"
	"go/ast"
	"go/constant"
	"go/parser"
	"go/token"
	"go/types"
	"math"
	"math/big"
	"os"
	"reflect"
	"strings"
	"testing"

	"github.com/cosmos72/gomacro/base"
	"github.com/cosmos72/gomacro/base/untyped"
	"github.com/cosmos72/gomacro/fast"
	xr "github.com/cosmos72/gomacro/xreflect"

	"verif/harness/vlib"
)

var rec *vlib.Rec

func TestMain(m *testing.M) {
	rec = vlib.Open("C04")
	rec.Rule("cases = constant expression texts: rapid-generated trees (depth <= 6) over literals of every form (0b/0o/0x/legacy octal, _ separators, hex floats, imaginary, runes with escapes, raw and interpreted strings, booleans), " +
		"arithmetic/bitwise/shift/comparison/logical operators, real/imag/complex/len, const blocks with iota; each valid tree also in typed contexts T(e) and var v T = e for the 17 basic types, " +
		"and as var b *big.Int/*big.Rat/*big.Float = e; plus enumerated boundary expressions (fits by one / overflows by one) for every numeric T. " +
		"non-trivial = (a) a tree with >= 3 operators whose value is not exactly an int64 or a float64, or (b) a typed-context case whose value is within 1 of a bound of T (or within one rounding step for floats), " +
		"or (c) a big conversion of a value outside int64/float64; distinct = distinct expression texts (+ context)")
	rec.Assume("go/types + go/constant of the toolchain that builds the harness define the untyped kind, the exact value and representability (same code base as gc's type checker); expressions Go rejects are outside the domain, except that a typed context Go rejects must be rejected by gomacro")
	rec.Assume("documented deviations excluded by construction and counted: shifts whose left operand is an untyped float/complex constant (doc/features-and-limitations.md), values beyond the exactness limit of go/constant (any sub-expression held as *big.Float, README: 5e1232)")
	rec.Assume("the harness module runs with godebug default=go1.18, the settings gomacro's own suite runs under")
	os.Exit(vlib.Main(m, rec))
}

// ---------------------------------------------------------------- O2

type o2res struct {
	OK      bool
	Err     string
	Type    string // "untyped int", "int", ...
	Value   constant.Value
	Excl    string // non-empty: excluded by construction (documented deviation)
	NumOps  int
	Untyped bool
}

var o2fset = token.NewFileSet()

func o2(expr string) (r o2res) {
	node, err := parser.ParseExpr(expr)
	if err != nil {
		return o2res{Err: "parse: " + err.Error()}
	}
	info := &types.Info{Types: map[ast.Expr]types.TypeAndValue{}}
	if err := types.CheckExpr(o2fset, nil, token.NoPos, node, info); err != nil {
		return o2res{Err: err.Error()}
	}
	tv := info.Types[node]
	if tv.Value == nil {
		return o2res{Err: "not a constant"}
	}
	r = o2res{OK: true, Type: tv.Type.String(), Value: tv.Value}
	if b, ok := tv.Type.(*types.Basic); ok && b.Info()&types.IsUntyped != 0 {
		r.Untyped = true
	}
	ast.Inspect(node, func(n ast.Node) bool {
		switch n := n.(type) {
		case *ast.BinaryExpr:
			r.NumOps++
			if (n.Op == token.SHL || n.Op == token.SHR) && mayBeNonInteger(n.X) {
				r.Excl = "excluded:shift-of-untyped-float"
			}
		case *ast.UnaryExpr, *ast.CallExpr:
			r.NumOps++
		}
		if e, ok := n.(ast.Expr); ok {
			if v := info.Types[e].Value; v != nil && beyondExact(v) && r.Excl == "" {
				r.Excl = "excluded:beyond-exactness-limit"
			}
		}
		return true
	})
	return r
}

// mayBeNonInteger: conservative syntactic test for "the left operand of the shift is not an
// untyped integer/rune constant": it contains a float or imaginary literal, a division of
// such, or a real/imag/complex call.
func mayBeNonInteger(e ast.Expr) bool {
	found := false
	ast.Inspect(e, func(n ast.Node) bool {
		switch n := n.(type) {
		case *ast.BasicLit:
			if n.Kind == token.FLOAT || n.Kind == token.IMAG {
				found = true
			}
		case *ast.CallExpr:
			if id, ok := n.Fun.(*ast.Ident); ok && (id.Name == "real" || id.Name == "imag" || id.Name == "complex") {
				found = true
			}
		}
		return !found
	})
	return found
}

// beyondExact: go/constant has left exact rational arithmetic for this value.
func beyondExact(v constant.Value) bool {
	switch v.Kind() {
	case constant.Float:
		_, isFloat := constant.Val(v).(*big.Float)
		return isFloat
	case constant.Complex:
		return beyondExact(constant.Real(v)) || beyondExact(constant.Imag(v))
	}
	return false
}

// ---------------------------------------------------------------- interpreter side

type interp struct {
	ir    *fast.Interp
	evals int
}

type devnull struct{}

func (devnull) Write(p []byte) (int, error) { return len(p), nil }

func newInterp() *interp {
	ir := fast.New()
	ir.Comp.Globals.Options |= base.OptKeepUntyped
	ir.Comp.Globals.Stdout = devnull{}
	ir.Comp.Globals.Stderr = devnull{}
	ir.Eval(`import "math/big"`)
	return &interp{ir: ir}
}

func newInterpNoImport() *interp {
	ir := fast.New()
	ir.Comp.Globals.Options |= base.OptKeepUntyped
	ir.Comp.Globals.Stdout = devnull{}
	ir.Comp.Globals.Stderr = devnull{}
	return &interp{ir: ir}
}

var theInterp *interp

func getInterp() *interp {
	if theInterp == nil || theInterp.evals > 5000 {
		theInterp = newInterp()
	}
	theInterp.evals++
	return theInterp
}

type outcome struct {
	Rejected bool // panic in Compile
	RunPanic bool
	Panic    string
	Value    interface{}
	Type     string
}

func evalSrc(ip *interp, src string) (o outcome) {
	var e *fast.Expr
	if p := vlib.Try(func() { e = ip.ir.Compile(src) }); p != nil {
		return outcome{Rejected: true, Panic: fmt.Sprint(p)}
	}
	var v xr.Value
	var t xr.Type
	if p := vlib.Try(func() { v, t = ip.ir.RunExpr1(e) }); p != nil {
		return outcome{RunPanic: true, Panic: fmt.Sprint(p)}
	}
	if t != nil {
		o.Type = t.String()
	}
	if v.IsValid() && v.CanInterface() {
		o.Value = v.Interface()
	}
	return o
}

var kindName = map[untyped.Kind]string{
	untyped.Bool: "untyped bool", untyped.Int: "untyped int", untyped.Rune: "untyped rune",
	untyped.Float: "untyped float", untyped.Complex: "untyped complex", untyped.String: "untyped string",
}

// ---------------------------------------------------------------- typed values

var basicTypes = []string{"bool", "int", "int8", "int16", "int32", "int64", "uint", "uint8", "uint16", "uint32", "uint64", "uintptr",
	"float32", "float64", "complex64", "complex128", "string"}

func fromConst(v constant.Value, kind string) (interface{}, bool) {
	i64 := func() int64 { n, _ := constant.Int64Val(constant.ToInt(v)); return n }
	u64 := func() uint64 { n, _ := constant.Uint64Val(constant.ToInt(v)); return n }
	switch kind {
	case "bool":
		return constant.BoolVal(v), true
	case "string":
		return constant.StringVal(v), true
	case "int":
		return int(i64()), true
	case "int8":
		return int8(i64()), true
	case "int16":
		return int16(i64()), true
	case "int32":
		return int32(i64()), true
	case "int64":
		return i64(), true
	case "uint":
		return uint(u64()), true
	case "uint8":
		return uint8(u64()), true
	case "uint16":
		return uint16(u64()), true
	case "uint32":
		return uint32(u64()), true
	case "uint64":
		return u64(), true
	case "uintptr":
		return uintptr(u64()), true
	case "float32":
		f, _ := constant.Float32Val(v)
		return f, true
	case "float64":
		f, _ := constant.Float64Val(v)
		return f, true
	case "complex64":
		re, _ := constant.Float32Val(constant.Real(v))
		im, _ := constant.Float32Val(constant.Imag(v))
		return complex(re, im), true
	case "complex128":
		re, _ := constant.Float64Val(constant.Real(v))
		im, _ := constant.Float64Val(constant.Imag(v))
		return complex(re, im), true
	}
	return nil, false
}

func canon(x interface{}) string {
	switch v := x.(type) {
	case nil:
		return "<nil>"
	case float32:
		if v != v {
			return "float32:NaN"
		}
		return fmt.Sprintf("float32:%08x(%v)", math.Float32bits(v), v)
	case float64:
		if v != v {
			return "float64:NaN"
		}
		return fmt.Sprintf("float64:%016x(%v)", math.Float64bits(v), v)
	case complex64:
		return "complex64:(" + canon(real(v)) + "," + canon(imag(v)) + ")"
	case complex128:
		return "complex128:(" + canon(real(v)) + "," + canon(imag(v)) + ")"
	case string:
		return fmt.Sprintf("string:%q", v)
	case untyped.Lit:
		return "untyped.Lit:" + v.String()
	}
	return fmt.Sprintf("%s:%v", reflect.ValueOf(x).Kind(), x)
}

func isIntT(t string) bool   { return strings.HasPrefix(t, "int") || strings.HasPrefix(t, "uint") }
func isFloatT(t string) bool { return t == "float32" || t == "float64" }
func isCplxT(t string) bool  { return t == "complex64" || t == "complex128" }
func isNumT(t string) bool   { return isIntT(t) || isFloatT(t) || isCplxT(t) }

// ---------------------------------------------------------------- the checks on one case (also the replay)

// kase is one check in plain form.
type kase struct {
	Ctx  string `json:"ctx"`            // "untyped" | "conv" (T(e)) | "var" (var v T = e) | "big" (var b *big.X = e) | "src" (source with const decls, last expression e)
	Expr string `json:"expr"`           // the constant expression
	T    string `json:"type,omitempty"` // conv/var: basic type; big: Int, Rat or Float
	Decl string `json:"decl,omitempty"` // src: const declarations preceding the expression
}

func (k kase) bytes() []byte { b, _ := json.MarshalIndent(k, "", " "); return b }

type verdict struct {
	Label string // outcome class for the histogram
	NT    bool
	Excl  string // known finding id or documented exclusion; the case was not asserted
}

func check(ip *interp, k kase) (verdict, error) {
	switch k.Ctx {
	case "untyped":
		return checkUntyped(ip, k.Expr, k.Expr, o2(k.Expr))
	case "src":
		return checkDecl(ip, k)
	case "conv", "var":
		return checkTyped(ip, k)
	case "big":
		return checkBig(ip, k)
	case "bigshift":
		return verdict{Label: "bigshift"}, replayBigShift(ip, k)
	}
	return verdict{}, fmt.Errorf("bad case context %q", k.Ctx)
}

// compareWithO2 compares a gomacro result with O2's type and value.
func compareWithO2(src string, got outcome, want o2res) error {
	if got.Rejected || got.RunPanic {
		return fmt.Errorf("%s: valid Go constant (%s %s); gomacro failed: %s", src, want.Type, want.Value.ExactString(), got.Panic)
	}
	if lit, ok := got.Value.(untyped.Lit); ok {
		if !want.Untyped {
			return fmt.Errorf("%s: Go gives the typed constant %s %s; gomacro an untyped constant %v", src, want.Type, want.Value.ExactString(), lit)
		}
		if lit.Val.Kind() != want.Value.Kind() && !(lit.Val.Kind() == constant.Int && want.Value.Kind() == constant.Int) {
			// compare numerically below; representation kinds may legitimately differ (Int vs Float holding an integer)
		}
		eq := false
		if p := vlib.Try(func() { eq = constant.Compare(lit.Val, token.EQL, want.Value) }); p != nil {
			return fmt.Errorf("%s: gomacro %v, Go %s %s (values not comparable: %v)", src, lit, want.Type, want.Value.ExactString(), p)
		}
		if !eq {
			return fmt.Errorf("%s: value in gomacro %s, in Go %s", src, lit.Val.ExactString(), want.Value.ExactString())
		}
		if g := kindName[lit.Kind]; g != want.Type {
			return fmt.Errorf("%s: kind in gomacro %s, in Go %s (value %s)", src, g, want.Type, want.Value.ExactString())
		}
		return nil
	}
	if want.Untyped {
		if b, ok := got.Value.(bool); ok && !replaying && known("F-C04-4") && want.Type == "untyped bool" && strings.Contains(src, "len(") {
			// F-C04-4: only the typedness is masked, the value is still compared
			rec.Excluded("F-C04-4")
			if b != constant.BoolVal(want.Value) {
				return fmt.Errorf("%s: gomacro %v, Go %s", src, b, want.Value.ExactString())
			}
			return nil
		}
		return fmt.Errorf("%s: Go gives %s %s; gomacro the typed value %s", src, want.Type, want.Value.ExactString(), canon(got.Value))
	}
	exp, ok := fromConst(want.Value, want.Type)
	if !ok {
		return fmt.Errorf("internal: typed constant of type %s", want.Type)
	}
	if g, w := canon(got.Value), canon(exp); g != w {
		return fmt.Errorf("%s: gomacro %s, Go %s", src, g, w)
	}
	if got.Type != want.Type {
		return fmt.Errorf("%s: static type in gomacro %s, in Go %s", src, got.Type, want.Type)
	}
	return nil
}

func exactInt64OrFloat64(v constant.Value) bool {
	switch v.Kind() {
	case constant.Int:
		_, ok := constant.Int64Val(v)
		return ok
	case constant.Float:
		_, ok := constant.Float64Val(v)
		return ok
	case constant.Complex:
		return exactInt64OrFloat64(constant.Real(v)) && exactInt64OrFloat64(constant.Imag(v))
	}
	return true
}

func checkUntyped(ip *interp, src, expr string, want o2res) (verdict, error) {
	if !want.OK {
		return verdict{Label: "o2-rejected"}, nil // outside the domain
	}
	if want.Excl != "" {
		return verdict{Label: want.Excl, Excl: want.Excl}, nil
	}
	if id := knownUntyped(expr); id != "" {
		return verdict{Label: "known:" + id, Excl: id}, nil
	}
	got := evalSrc(ip, src)
	if err := compareWithO2(src, got, want); err != nil {
		return verdict{}, err
	}
	nt := want.NumOps >= 3 && !exactInt64OrFloat64(want.Value)
	return verdict{Label: "untyped:ok:" + want.Type, NT: nt}, nil
}

// checkDecl: const declarations (iota, implicit repetition, typed constants) then an expression.
func checkDecl(ip *interp, k kase) (verdict, error) {
	// O2: type-check a package holding the declarations and `const verifResult = expr`
	src := "package p\n" + k.Decl + "\nconst verifResult = " + k.Expr + "\n"
	f, err := parser.ParseFile(o2fset, "decl.go", src, 0)
	if err != nil {
		return verdict{Label: "o2-rejected"}, nil
	}
	conf := types.Config{Error: func(error) {}}
	info := &types.Info{Types: map[ast.Expr]types.TypeAndValue{}}
	pkg, err := conf.Check("p", o2fset, []*ast.File{f}, info)
	if err != nil {
		return verdict{Label: "o2-rejected"}, nil
	}
	c, ok := pkg.Scope().Lookup("verifResult").(*types.Const)
	if !ok || c.Val().Kind() == constant.Unknown {
		return verdict{Label: "o2-rejected"}, nil
	}
	want := o2res{OK: true, Type: c.Type().String(), Value: c.Val()}
	if b, ok := c.Type().(*types.Basic); ok && b.Info()&types.IsUntyped != 0 {
		want.Untyped = true
	}
	for e, tv := range info.Types {
		if tv.Value != nil && beyondExact(tv.Value) {
			return verdict{Label: "excluded:beyond-exactness-limit", Excl: "excluded:beyond-exactness-limit"}, nil
		}
		if b, ok := e.(*ast.BinaryExpr); ok && (b.Op == token.SHL || b.Op == token.SHR) && mayBeNonInteger(b.X) {
			return verdict{Label: "excluded:shift-of-untyped-float", Excl: "excluded:shift-of-untyped-float"}, nil
		}
		if _, ok := e.(*ast.BinaryExpr); ok {
			want.NumOps++
		}
	}
	if id := knownUntyped(k.Decl + " " + k.Expr); id != "" {
		return verdict{Label: "known:" + id, Excl: id}, nil
	}
	ip2 := newInterpNoImport() // declarations must not leak between cases
	got := evalSrc(ip2, k.Decl+"\n"+k.Expr)
	if err := compareWithO2(k.Decl+"; "+k.Expr, got, want); err != nil {
		return verdict{}, err
	}
	return verdict{Label: "decl:ok:" + want.Type, NT: want.NumOps >= 3 && !exactInt64OrFloat64(want.Value)}, nil
}

// nearBound: the constant is within 1 of a bound of the integer type / a rounding boundary of the float type.
func nearBound(v constant.Value, t string) bool {
	if v.Kind() == constant.Complex {
		v = constant.Real(v)
	}
	if v.Kind() != constant.Int && v.Kind() != constant.Float {
		return false
	}
	within := func(bound constant.Value) bool {
		d := constant.BinaryOp(v, token.SUB, bound)
		return constant.Compare(d, token.LEQ, constant.MakeInt64(1)) && constant.Compare(d, token.GEQ, constant.MakeInt64(-1))
	}
	pow := func(k uint) constant.Value { return constant.Shift(constant.MakeInt64(1), token.SHL, k) }
	bits := map[string]uint{"int8": 8, "int16": 16, "int32": 32, "int64": 64, "int": 64, "uint8": 8, "uint16": 16, "uint32": 32, "uint64": 64, "uint": 64, "uintptr": 64}
	if b, ok := bits[t]; ok {
		if strings.HasPrefix(t, "u") {
			return within(constant.MakeInt64(0)) || within(pow(b))
		}
		return within(pow(b-1)) || within(constant.UnaryOp(token.SUB, pow(b-1), 0))
	}
	abs := v
	if constant.Sign(v) < 0 {
		abs = constant.UnaryOp(token.SUB, v, 0)
	}
	switch t {
	case "float32", "complex64":
		f, _ := constant.Float32Val(abs)
		return f >= math.MaxFloat32 || (f > 0 && f <= 0x1p-126) || !exact32(abs)
	case "float64", "complex128":
		f, _ := constant.Float64Val(abs)
		return f >= math.MaxFloat64 || (f > 0 && f <= 0x1p-1022)
	}
	return false
}

func exact32(v constant.Value) bool { _, ok := constant.Float32Val(v); return ok }

func checkTyped(ip *interp, k kase) (verdict, error) {
	in := o2(k.Expr)
	if !in.OK {
		return verdict{Label: "o2-rejected"}, nil
	}
	if in.Excl != "" {
		return verdict{Label: in.Excl, Excl: in.Excl}, nil
	}
	conv := k.T + "(" + k.Expr + ")"
	want := o2(conv)
	var src string
	accept := want.OK
	if k.Ctx == "var" {
		// validity of the assignment is decided by a package check; the value is that of the conversion
		psrc := "package p\nvar v " + k.T + " = " + k.Expr + "\n"
		f, err := parser.ParseFile(o2fset, "var.go", psrc, 0)
		if err != nil {
			return verdict{Label: "o2-rejected"}, nil
		}
		conf := types.Config{Error: func(error) {}}
		_, err = conf.Check("p", o2fset, []*ast.File{f}, nil)
		accept = err == nil
		if accept && !want.OK {
			return verdict{}, fmt.Errorf("internal: Go accepts var v %s = %s but rejects the conversion: %s", k.T, k.Expr, want.Err)
		}
		src = "var verifV " + k.T + " = " + k.Expr + "; verifV"
	} else {
		src = conv
	}
	if id := knownTyped(k, in, accept); id != "" {
		return verdict{Label: "known:" + id, Excl: id}, nil
	}
	got := evalSrc(ip, src)
	nt := in.Untyped && isNumT(k.T) && nearBound(in.Value, k.T)
	if !accept {
		if got.Rejected {
			return verdict{Label: k.Ctx + ":rejected-by-both", NT: nt}, nil
		}
		if got.RunPanic {
			return verdict{}, fmt.Errorf("%s: Go rejects it; gomacro compiled it and failed only when run: %s", src, got.Panic)
		}
		return verdict{}, fmt.Errorf("%s: Go rejects it (the constant %s does not fit %s); gomacro accepted it and returned %s", src, in.Value.ExactString(), k.T, canon(got.Value))
	}
	if want.Value == nil {
		return verdict{Label: "typed:not-constant"}, nil
	}
	want.Untyped = false
	want.Type = k.T
	if err := compareWithO2(src, got, want); err != nil {
		return verdict{}, err
	}
	return verdict{Label: k.Ctx + ":ok:" + k.T, NT: nt}, nil
}

// checkBig: var b *big.T = e. The expected value is O2's exact value of e; the property demands
// exactness whenever the value is representable: any integer for Int, any rational for Rat,
// any dyadic rational for Float.
func checkBig(ip *interp, k kase) (verdict, error) {
	in := o2(k.Expr)
	if !in.OK {
		return verdict{Label: "o2-rejected"}, nil
	}
	if in.Excl != "" {
		return verdict{Label: in.Excl, Excl: in.Excl}, nil
	}
	if !in.Untyped || (in.Value.Kind() != constant.Int && in.Value.Kind() != constant.Float) {
		return verdict{Label: "big:not-a-real-number"}, nil
	}
	if id := knownUntyped(k.Expr); id != "" {
		return verdict{Label: "known:" + id, Excl: id}, nil
	}
	var exact big.Rat
	switch x := constant.Val(in.Value).(type) {
	case int64:
		exact.SetInt64(x)
	case *big.Int:
		exact.SetInt(x)
	case *big.Rat:
		exact.Set(x)
	default:
		return verdict{Label: "excluded:beyond-exactness-limit", Excl: "excluded:beyond-exactness-limit"}, nil
	}
	representable := true
	switch k.T {
	case "Int":
		representable = exact.IsInt()
	case "Float":
		d := exact.Denom()
		representable = d.BitLen() > 0 && new(big.Int).And(d, new(big.Int).Sub(d, big.NewInt(1))).Sign() == 0
	}
	if !representable {
		return verdict{Label: "big:not-representable:" + k.T}, nil
	}
	src := "var verifB *big." + k.T + " = " + k.Expr + "; verifB"
	got := evalSrc(ip, src)
	if got.Rejected || got.RunPanic {
		return verdict{}, fmt.Errorf("%s: the value %s is representable; gomacro failed: %s", src, exact.RatString(), got.Panic)
	}
	var g big.Rat
	switch v := got.Value.(type) {
	case *big.Int:
		g.SetInt(v)
	case *big.Rat:
		g.Set(v)
	case *big.Float:
		if v.IsInf() {
			return verdict{}, fmt.Errorf("%s: gomacro gives %v, exact value %s", src, v, exact.RatString())
		}
		v.Rat(&g)
	default:
		return verdict{}, fmt.Errorf("%s: gomacro returned %T", src, got.Value)
	}
	if g.Cmp(&exact) != 0 {
		gs, es := g.RatString(), exact.RatString()
		if len(gs) > 200 {
			gs = gs[:200] + "..."
		}
		if len(es) > 200 {
			es = es[:200] + "..."
		}
		return verdict{}, fmt.Errorf("%s: gomacro gives %s, exact value %s", src, gs, es)
	}
	return verdict{Label: "big:ok:" + k.T, NT: !exactInt64OrFloat64(in.Value)}, nil
}

// ---------------------------------------------------------------- known findings (exclusion by construction)

// knownUntyped: F-C04-2, real(c)/imag(c) of an untyped constant whose selected part is an integer
// yields an untyped int in gomacro (Go: untyped float), which then changes the meaning of / and the kind.
func knownUntyped(expr string) string {
	if replaying || !known("F-C04-2") {
		return ""
	}
	node, err := parser.ParseExpr(expr)
	if err != nil {
		// source with declarations: look at the text
		if strings.Contains(expr, "real(") || strings.Contains(expr, "imag(") {
			return "F-C04-2"
		}
		return ""
	}
	info := &types.Info{Types: map[ast.Expr]types.TypeAndValue{}}
	if types.CheckExpr(o2fset, nil, token.NoPos, node, info) != nil {
		return ""
	}
	found := ""
	ast.Inspect(node, func(n ast.Node) bool {
		if call, ok := n.(*ast.CallExpr); ok && len(call.Args) == 1 {
			if id, ok := call.Fun.(*ast.Ident); ok && (id.Name == "real" || id.Name == "imag") {
				if v := info.Types[call].Value; v != nil && constant.ToInt(v).Kind() == constant.Int {
					found = "F-C04-2"
				}
			}
		}
		return found == ""
	})
	return found
}

// knownTyped: F-C04-1 (same defect as F-C03-3): base/untyped/lit.go extractNumber squeezes every
// untyped constant through int64/uint64/float64 before converting it to the destination type.
func knownTyped(k kase, in o2res, accept bool) string {
	if replaying {
		return ""
	}
	if id := knownUntyped(k.Expr); id != "" {
		return id
	}
	if known("F-C04-3") && k.Ctx == "var" && k.T == "string" && in.Untyped && in.Value.Kind() == constant.Int && !accept {
		return "F-C04-3" // var s string = 65 accepted
	}
	if !known("F-C04-1") || !in.Untyped || !isNumT(k.T) {
		return ""
	}
	v := in.Value
	part := func(v constant.Value) bool {
		switch v.Kind() {
		case constant.Int:
			if isIntT(k.T) {
				return false
			}
			_, e1 := constant.Int64Val(v)
			_, e2 := constant.Uint64Val(v)
			if !e1 && !e2 {
				return true // (a) integer outside 64 bits -> float/complex: garbage
			}
		case constant.Float:
			if isIntT(k.T) {
				f, _ := constant.Float64Val(v)
				return !constant.Compare(constant.MakeFloat64(f), token.EQL, v) // (d) a float constant that float64 does not hold exactly: integer-valued ones refused, tiny ones truncated to 0
			}
			if !accept {
				return true // (b) overflow of the floating-point destination accepted as Inf
			}
		default:
			return false
		}
		if constant.Sign(v) < 0 {
			if f, _ := constant.Float64Val(v); f == 0 {
				return true // (f) negative constant underflowing to zero: -0 instead of 0
			}
			if f, _ := constant.Float32Val(v); f == 0 && (k.T == "float32" || k.T == "complex64") {
				return true
			}
		}
		if k.T == "float32" || k.T == "complex64" {
			f64, _ := constant.Float64Val(v)
			f32, _ := constant.Float32Val(v)
			if float32(f64) != f32 {
				return true // (c) rounded twice
			}
		}
		return false
	}
	hit := false
	if v.Kind() == constant.Complex {
		hit = part(constant.Real(v)) || part(constant.Imag(v))
	} else {
		hit = part(v)
	}
	if hit {
		return "F-C04-1"
	}
	return ""
}

// ---------------------------------------------------------------- replay

func replay(content []byte) error {
	var k kase
	if err := json.Unmarshal(content, &k); err != nil || k.Expr == "" {
		return nil
	}
	saved := replaying
	replaying = true
	defer func() { replaying = saved }()
	_, err := check(newInterp(), k)
	return err
}

// replaying switches the known-finding exclusions off, so that a replay file shows the defect.
var replaying bool

func TestReplays(t *testing.T) { rec.RunReplays(t, replay) }

// checkBigShift: var b *big.T = 1<<sh + d against math/big arithmetic done in the harness.
func checkBigShift(ip *interp, sh int, d int64, expr, T string) error {
	want := new(big.Int).Lsh(big.NewInt(1), uint(sh))
	want.Add(want, big.NewInt(d))
	src := "var verifB *big." + T + " = " + expr + "; verifB"
	got := evalSrc(ip, src)
	if got.Rejected || got.RunPanic {
		return fmt.Errorf("%s: representable; gomacro failed: %s", src, got.Panic)
	}
	var g big.Rat
	switch v := got.Value.(type) {
	case *big.Int:
		g.SetInt(v)
	case *big.Rat:
		g.Set(v)
	case *big.Float:
		if v.IsInf() {
			return fmt.Errorf("%s: gomacro gives %v", src, v)
		}
		v.Rat(&g)
	default:
		return fmt.Errorf("%s: gomacro returned %T", src, got.Value)
	}
	if g.Cmp(new(big.Rat).SetInt(want)) != 0 {
		return fmt.Errorf("%s: gomacro gives a value that differs from 2^%d%+d (difference %s)", src, sh, d, new(big.Rat).Sub(&g, new(big.Rat).SetInt(want)).FloatString(3))
	}
	return nil
}

func replayBigShift(ip *interp, k kase) error {
	var sh int
	var d int64
	if _, err := fmt.Sscanf(k.Expr, "1<<%d + %d", &sh, &d); err != nil {
		if _, err := fmt.Sscanf(k.Expr, "1<<%d - %d", &sh, &d); err != nil {
			return fmt.Errorf("bad bigshift case %q", k.Expr)
		}
		d = -d
	}
	return checkBigShift(ip, sh, d, k.Expr, k.T)
}

// known: the finding is registered as known and not switched off for this run
// (VERIF_IGNORE_KNOWN=F-XXX-1,F-XXX-2 disables the exclusions, e.g. to test a fix).
func known(id string) bool {
	return rec.Known(id) && !strings.Contains(","+os.Getenv("VERIF_IGNORE_KNOWN")+",", ","+id+",")
}
