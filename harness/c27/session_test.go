package c27

import (
	"bufio"
	"bytes"
	"encoding/json"
	"fmt"
	"os"
	"path/filepath"
	"sort"
	"strconv"
	"strings"
	"testing"

	"github.com/cosmos72/gomacro/base"
	"pgregory.net/rapid"

	"verif/harness/vlib"
)

// A session: one source evaluated by one entry point, holding SEVERAL offending tokens
// in different chunks. The position bookkeeping must survive failed evaluations: every
// report must carry the true position, whatever failed before it.

type Off struct {
	Item      int    `json:"item"` // index of the item holding the token
	Kind      string `json:"kind"` // undef | syntax | break | type | runtime
	Token     string `json:"token"`
	Line      int    `json:"line"`
	Col       int    `json:"col"`
	StmtFirst int    `json:"stmt_first"`
	StmtLast  int    `json:"stmt_last"`
}

type SessCase struct {
	Path      string   `json:"path"` // eval | reader | file | repl
	Items     []string `json:"items"`
	Offenders []Off    `json:"offenders"`
	// NoTrap: OptTrapPanic off, the entry point stops at the first error
	NoTrap bool `json:"no_trap"`
}

// containsToken: s holds tok not followed by a digit (tokens end in a case number)
func containsToken(s, tok string) bool {
	for i := 0; ; {
		k := strings.Index(s[i:], tok)
		if k < 0 {
			return false
		}
		end := i + k + len(tok)
		if end >= len(s) || s[end] < '0' || s[end] > '9' {
			return true
		}
		i = end
	}
}

func isError(kind string) bool { return kind != "break" }

// runSession evaluates the case; report = everything printed / returned / panicked.
func runSession(c SessCase) (report string, hits []string, fileName string, err error) {
	ir := getInterp()
	g := &ir.Comp.Globals
	var out bytes.Buffer
	g.Stdout, g.Stderr = &out, &out
	g.Options &^= base.OptShowPrompt | base.OptShowEval | base.OptShowEvalType
	if c.NoTrap {
		g.Options &^= base.OptTrapPanic
	} else {
		g.Options |= base.OptTrapPanic
	}
	d := &recorder{}
	for _, o := range c.Offenders {
		if o.Kind == "break" {
			g.Options |= base.OptDebugger
			ir.SetDebugger(d)
		}
	}
	g.Line = 0
	text := strings.Join(c.Items, "")
	fileName = "repl.go"
	var panicked interface{}
	switch c.Path {
	case "eval":
		last := c.Offenders[len(c.Offenders)-1].Item
		panicked = vlib.Try(func() {
			for _, it := range c.Items[:last] {
				if isPad(it) {
					g.IncLine(it) // as Interp.Read does for a chunk without tokens
				} else {
					ir.ParseEvalPrint(it)
				}
			}
			ir.Eval(c.Items[last])
		})
	case "reader":
		panicked = vlib.Try(func() { _, err = ir.EvalReader(strings.NewReader(text)) })
	case "file":
		dir := os.Getenv("VERIF_SCRATCH")
		if dir == "" {
			dir = os.TempDir()
		}
		fileName = filepath.Join(dir, "c27_session.go")
		if werr := os.WriteFile(fileName, []byte(text), 0o644); werr != nil {
			return "", nil, fileName, werr
		}
		panicked = vlib.Try(func() { _, err = ir.EvalFile(fileName) })
	case "repl":
		panicked = vlib.Try(func() { ir.Repl(bufio.NewReader(strings.NewReader(text))) })
	default:
		return "", nil, fileName, fmt.Errorf("bad path %q", c.Path)
	}
	if panicked != nil {
		fmt.Fprintf(&out, "%v\n", panicked) // Eval, and every entry point without OptTrapPanic, report by panicking
	}
	if err != nil {
		fmt.Fprintf(&out, "%v\n", err)
	}
	return out.String(), d.hits, fileName, nil
}

// expected returns the offenders whose report must appear: all of them when panics are
// trapped, otherwise those up to and including the first error.
func expected(c SessCase) []Off {
	if !c.NoTrap {
		return c.Offenders
	}
	for i, o := range c.Offenders {
		if isError(o.Kind) {
			return c.Offenders[:i+1]
		}
	}
	return c.Offenders
}

func checkSession(c SessCase) error {
	if len(c.Offenders) == 0 {
		return harnessError{"no offenders"}
	}
	report, hits, name, err := runSession(c)
	if err != nil {
		return harnessError{err.Error()}
	}
	exp := expected(c)
	lines := strings.Split(strings.Join(c.Items, ""), "\n")
	reports := posRe.FindAllStringSubmatch(report, -1)
	var wantHits []string
	wantSyntax := map[string][]string{} // found token -> positions
	for _, o := range exp {
		want := fmt.Sprintf("%s:%d:%d", name, o.Line, o.Col)
		switch o.Kind {
		case "undef":
			needle := "undefined identifier: " + o.Token
			found := false
			for _, m := range reports {
				if containsToken(m[4], needle) {
					found = true
					if got := m[1] + ":" + m[2] + ":" + m[3]; got != want {
						return fmt.Errorf("%s path: %q reported at %s, true position %s", c.Path, needle, got, want)
					}
				}
			}
			if !found {
				if containsToken(report, needle) {
					return fmt.Errorf("%s path: %q reported without position %s: %q", c.Path, needle, want, report)
				}
				return harnessError{fmt.Sprintf("expected report %q missing, got %q", needle, report)}
			}
		case "syntax":
			wantSyntax[o.Token] = append(wantSyntax[o.Token], want)
		case "break":
			wantHits = append(wantHits, want+"|"+lines[o.Line-1])
		default:
			if !containsToken(report, o.Token) {
				return harnessError{fmt.Sprintf("expected report mentioning %q missing, got %q", o.Token, report)}
			}
			for _, m := range reports {
				if !containsToken(m[4], o.Token) || o.Token == "index out of range" {
					continue
				}
				line, _ := strconv.Atoi(m[2])
				if m[1] != name || line < o.StmtFirst || line > o.StmtLast {
					return fmt.Errorf("%s path: %s error reported at %s:%s:%s, outside the offending statement %s lines %d-%d", c.Path, o.Kind, m[1], m[2], m[3], name, o.StmtFirst, o.StmtLast)
				}
			}
		}
	}
	for tok, want := range wantSyntax {
		needle := "found '" + tok + "'"
		var got []string
		for _, m := range reports {
			if strings.Contains(m[4], needle) {
				got = append(got, m[1]+":"+m[2]+":"+m[3])
			}
		}
		if len(got) < len(want) {
			return harnessError{fmt.Sprintf("expected %d reports %q, got %q", len(want), needle, report)}
		}
		sort.Strings(got)
		sort.Strings(want)
		if strings.Join(got, " ") != strings.Join(want, " ") {
			return fmt.Errorf("%s path: %q reported at %v, true positions %v", c.Path, needle, got, want)
		}
	}
	// breakpoints: the stops, in order, with position and source line
	if len(hits) != len(wantHits) {
		return harnessError{fmt.Sprintf("expected %d breakpoint stops, got %q (report %q)", len(wantHits), hits, report)}
	}
	for i := range wantHits {
		if hits[i] != wantHits[i] {
			return fmt.Errorf("%s path: breakpoint %d reported at %q, true position and source line %q", c.Path, i, hits[i], wantHits[i])
		}
	}
	return nil
}

func genSession(t *rapid.T) (c SessCase, labels []string, nontrivial bool) {
	k := 0
	inst := func(tm tmpl) string {
		k++
		return strings.ReplaceAll(tm.text, "K", strconv.Itoa(k))
	}
	c.Path = rapid.SampledFrom(paths).Draw(t, "path")
	c.NoTrap = rapid.IntRange(0, 4).Draw(t, "notrap") == 0
	noff := rapid.IntRange(1, 4).Draw(t, "noffenders")
	if c.Path != "eval" && c.Path != "repl" && rapid.IntRange(0, 7).Draw(t, "shebang") == 0 {
		c.Items = append(c.Items, "#!/usr/bin/env gomacro\n")
	}
	errorsBefore, failedLines := 0, 0
	for n := 0; n < noff; n++ {
		npre := rapid.IntRange(0, 3).Draw(t, "npre")
		for i := 0; i < npre; i++ {
			c.Items = append(c.Items, inst(rapid.SampledFrom(preItems).Draw(t, "pre")))
		}
		// kind first (mixed kinds with equal weight), then one of its shapes
		kind := rapid.SampledFrom([]string{"undef", "undef", "syntax", "break", "runtime", "type"}).Draw(t, "kind")
		var shapes []tmpl
		for _, tm := range offenders {
			if tm.kind == kind {
				shapes = append(shapes, tm)
			}
		}
		off := rapid.SampledFrom(shapes).Draw(t, "offender")
		otext := inst(off)
		before := strings.Join(c.Items, "")
		at := strings.IndexByte(otext, '@')
		otext = otext[:at] + otext[at+1:]
		o := Off{Item: len(c.Items), Kind: off.kind}
		c.Items = append(c.Items, otext)
		o.Line, o.Col = lineCol(before+otext, len(before)+at)
		o.StmtFirst = 1 + strings.Count(before, "\n")
		o.StmtLast = o.StmtFirst + strings.Count(otext, "\n") - 1
		rest := otext[at:]
		switch o.Kind {
		case "undef":
			o.Token = rest[:strings.IndexAny(rest, "\n,+")]
		case "syntax":
			o.Token = rest[:1]
		case "break":
			o.Token = "break"
		case "type":
			if strings.HasPrefix(rest, "\"") {
				o.Token = "str" + strconv.Itoa(k)
			} else {
				o.Token = "vnofield" + strconv.Itoa(k)
			}
		case "runtime":
			if strings.HasPrefix(rest, "panic") {
				o.Token = "boom" + strconv.Itoa(k)
			} else {
				o.Token = "index out of range"
			}
		}
		c.Offenders = append(c.Offenders, o)
		exact := o.Kind == "undef" || o.Kind == "syntax" || o.Kind == "break"
		if exact && (!c.NoTrap || errorsBefore == 0) {
			labels = append(labels, fmt.Sprintf("checked-exact:errors-before=%d", errorsBefore))
			fl := "0"
			switch {
			case failedLines >= 8:
				fl = "8+"
			case failedLines >= 4:
				fl = "4-7"
			case failedLines >= 2:
				fl = "2-3"
			case failedLines == 1:
				fl = "1"
			}
			labels = append(labels, "checked-exact:failed-lines-before="+fl)
			if errorsBefore > 0 && failedLines > 1 {
				nontrivial = true
			}
		}
		if isError(o.Kind) {
			errorsBefore++
			failedLines += strings.Count(otext, "\n")
		}
	}
	if c.Path != "eval" {
		for i := rapid.IntRange(0, 1).Draw(t, "npost"); i > 0; i-- {
			c.Items = append(c.Items, inst(rapid.SampledFrom(preItems).Draw(t, "post")))
		}
	}
	return
}

func replaySession(content []byte) error {
	var c SessCase
	if err := json.Unmarshal(content, &c); err != nil || c.Path == "" {
		return nil
	}
	interp = nil
	err := checkSession(c)
	if _, ok := err.(harnessError); ok {
		return nil
	}
	return err
}

// TestSessions: several offending tokens of mixed kinds in one session; every report exact.
func TestSessions(t *testing.T) {
	rec.Check(t, rec.Scale(600, 8000), func(t *rapid.T) {
		c, labels, nt := genSession(t)
		err := checkSession(c)
		if h, ok := err.(harnessError); ok {
			rec.Label("harness-error")
			rec.Note("harness error: %s", h.msg)
			t.Fatalf("harness error (no verdict): %s\ncase %+v", h.msg, c)
		}
		trap := "trap"
		if c.NoTrap {
			trap = "notrap"
		}
		rec.Label(fmt.Sprintf("session:%s/%s/offenders=%d", c.Path, trap, len(c.Offenders)))
		for _, l := range labels {
			rec.Label("session:" + l)
		}
		for _, o := range c.Offenders {
			rec.Label("session:kind=" + o.Kind)
		}
		if nt {
			rec.NT("session|" + strings.Join(c.Items, "") + "|" + c.Path + trap)
			rec.Sample(c)
		}
		if err != nil {
			data, _ := json.MarshalIndent(c, "", " ")
			rec.Failf(t, "sessions", data, "json", "%v", err)
		}
	})
}
