package c27

import (
	"fmt"
	"testing"
)

func TestTmpProbe(t *testing.T) {
	c := SrcCase{Path: "file", Items: []string{"var s1 = \"a // not a comment\"\n", "func h2(n int) {\n\tfor i := 0; i < n; i++ {\n\t\t_ = i\n\t}\n\t  _ = \"break\"\n}\nh2(2)\n"}, Kind: "break", Token: "break", Line: 6, Col: 4, StmtFirst: 2, StmtLast: 8, At: 1}
	for i := 0; i < 3; i++ {
		fmt.Println("run", i, checkSrc(c))
	}
	c2 := c
	c2.Path = "repl"
	fmt.Println("repl", checkSrc(c2))
	c3 := c
	c3.Items = []string{"func h2() {\n\tvar y = 1\n\t\"break\"\n\t_ = y\n}\nh2()\n"}
	c3.At, c3.Line, c3.Col = 0, 3, 2
	fmt.Println("other h2", checkSrc(c3))
	fmt.Println("again", checkSrc(c))
}
