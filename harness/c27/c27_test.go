// C27: reported source positions are exact across chunks and line offsets.
//
// (a) etoken.FileSet against its standard-library twin token.FileSet shifted by the
// file's starting line (rapid state machine). (b) multi-chunk sources with one offending
// token planted at a position known by construction, evaluated through Eval (after
// ParseEvalPrint consumed the earlier chunks), EvalReader, EvalFile and Repl; the
// reported "name:line:col:" must be the planted position.
package c27

import (
	"bufio"
	"bytes"
	"encoding/json"
	"fmt"
	"go/scanner"
	"go/token"
	"os"
	"path/filepath"
	"regexp"
	"strconv"
	"strings"
	"testing"

	"github.com/cosmos72/gomacro/base"
	"github.com/cosmos72/gomacro/fast"
	"pgregory.net/rapid"

	"verif/harness/vlib"
)

var rec *vlib.Rec

func TestMain(m *testing.M) {
	rec = vlib.Open("C27")
	rec.Rule("cases = (a) histories of etoken.FileSet operations (AddFile with random base, size and starting line; AddLine/SetLines/SetLinesForContent/AddLineColumnInfo; Position/PositionFor/File/Source queries at random Pos) compared with token.FileSet shifted by the starting line; " +
		"(b) sources of 1-12 items (declarations, statements, comment and blank lines, multi-line functions, raw strings, block comments, indentation, multi-byte text, '#!' line) holding one offending token (undefined identifier, unexpected token, \"break\" breakpoint: exact position; type error, run-time panic: position if printed must lie in the statement) evaluated through Eval after ParseEvalPrint, EvalReader, EvalFile and Repl. " +
		"(c) sessions: one source per entry point with 1-4 offending tokens of mixed kinds in different chunks, 0-3 ordinary chunks before each, OptTrapPanic on (every report checked) or off (reports up to the first error), non-trivial when an exactly checked report is preceded by at least one failed chunk spanning more than one line. " +
		"A source case is non-trivial when the offending token is not in the first chunk and is preceded by at least one comment or blank line and at least one multi-line chunk; a FileSet history is non-trivial when it holds >=2 files with different non-zero starting lines and a query in a file that is not the first; distinct = distinct source texts / histories")
	rec.Assume("the position of the offending token is known by construction (offset of the planted token in the generated text); columns are byte columns as in go/token")
	rec.Assume("only error kinds whose offending token is unambiguous are compared exactly: undefined identifier, syntax error at the unexpected token, breakpoint statement; type errors and run-time panics are only required to report, if anything, a line inside the offending statement")
	rec.Assume("Interp.Eval does not advance the line counter by design (it is the embedding API); the Eval path therefore plants the token in the single Eval call that follows the ParseEvalPrint calls")
	os.Exit(vlib.Main(m, rec))
}

// ---------------------------------------------------------------- plain case (b)

type SrcCase struct {
	Path  string   `json:"path"`  // eval | reader | file | repl
	Items []string `json:"items"` // complete items, each ends with "\n"; the source is their concatenation
	Kind  string   `json:"kind"`  // undef | syntax | break | type | runtime
	Token string   `json:"token"` // text that identifies the report (identifier name, found token, panic text)
	Line  int      `json:"line"`  // true position of the token (1-based, byte column)
	Col   int      `json:"col"`
	// extent (first and last line) of the offending statement, for the weak kinds
	StmtFirst int `json:"stmt_first"`
	StmtLast  int `json:"stmt_last"`
	// index of the item holding the token; the eval path feeds Items[:At] to ParseEvalPrint and Items[At] to Eval
	At int `json:"at"`
}

type recorder struct{ hits []string }

func (d *recorder) Breakpoint(ir *fast.Interp, env *fast.Env) fast.DebugOp {
	// what fast/debug.Debugger.Show prints: the position and the source line of the statement about to run
	g := &ir.Comp.Globals
	if env.IP < len(env.DebugPos) && g.Fileset != nil {
		src, pos := g.Fileset.Source(env.DebugPos[env.IP])
		d.hits = append(d.hits, pos.String()+"|"+src)
	} else {
		d.hits = append(d.hits, "no position")
	}
	return fast.DebugOpContinue
}
func (d *recorder) At(ir *fast.Interp, env *fast.Env) fast.DebugOp { return fast.DebugOpContinue }

var (
	interp     *fast.Interp
	interpUses int
)

// getInterp: a fresh interpreter for every case. Re-using one made cases depend on each
// other (seen once: after ~70 cases with trapped errors in one interpreter a breakpoint
// was no longer delivered), which breaks shrinking and replay.
func getInterp() *fast.Interp {
	if interp == nil || interpUses >= 1 {
		interp = fast.New()
		interpUses = 0
	}
	interpUses++
	return interp
}

var posRe = regexp.MustCompile(`(?m)^(.*?):(\d+):(\d+): (.*)$`)

// runSrc evaluates the case and returns everything that was reported.
func runSrc(c SrcCase) (report string, hits []string, fileName string, err error) {
	ir := getInterp()
	g := &ir.Comp.Globals
	var out bytes.Buffer
	saveOut, saveErr, saveOpts, saveFile := g.Stdout, g.Stderr, g.Options, g.Filepath
	defer func() {
		g.Stdout, g.Stderr, g.Options, g.Filepath = saveOut, saveErr, saveOpts, saveFile
		ir.SetDebugger(nil)
	}()
	g.Stdout, g.Stderr = &out, &out
	g.Options &^= base.OptShowPrompt | base.OptShowEval | base.OptShowEvalType
	g.Options |= base.OptTrapPanic
	d := &recorder{}
	if c.Kind == "break" {
		g.Options |= base.OptDebugger // copies the sources into the file set, as the debugger needs
		ir.SetDebugger(d)
	}
	g.Line = 0
	text := strings.Join(c.Items, "")
	fileName = "repl.go"
	var panicked interface{}
	switch c.Path {
	case "eval":
		panicked = vlib.Try(func() {
			for _, it := range c.Items[:c.At] {
				if isPad(it) {
					// a chunk without tokens is not evaluated: Interp.Read only counts its lines
					g.IncLine(it)
				} else {
					ir.ParseEvalPrint(it)
				}
			}
			ir.Eval(c.Items[c.At])
		})
		if panicked != nil {
			// Eval reports by panicking with the error
			fmt.Fprintf(&out, "%v\n", panicked)
		}
	case "reader":
		panicked = vlib.Try(func() { _, err = ir.EvalReader(strings.NewReader(text)) })
	case "file":
		dir := os.Getenv("VERIF_SCRATCH")
		if dir == "" {
			dir = os.TempDir()
		}
		fileName = filepath.Join(dir, "c27_input.go")
		if werr := os.WriteFile(fileName, []byte(text), 0o644); werr != nil {
			return "", nil, fileName, werr
		}
		panicked = vlib.Try(func() { _, err = ir.EvalFile(fileName) })
	case "repl":
		panicked = vlib.Try(func() { ir.Repl(bufio.NewReader(strings.NewReader(text))) })
	default:
		return "", nil, fileName, fmt.Errorf("bad path %q", c.Path)
	}
	if c.Path != "eval" && panicked != nil {
		fmt.Fprintf(&out, "ESCAPED PANIC: %v\n", panicked)
	}
	if err != nil {
		fmt.Fprintf(&out, "%v\n", err)
		err = nil
	}
	return out.String(), d.hits, fileName, nil
}

// isPad: the item holds only blank lines and comments
func isPad(it string) bool {
	t := strings.TrimSpace(it)
	return t == "" || strings.HasPrefix(t, "//") && !strings.Contains(t, "\n") || strings.HasPrefix(t, "/*") && strings.HasSuffix(t, "*/") && strings.Count(t, "*/") == 1
}

type harnessError struct{ msg string }

func (h harnessError) Error() string { return h.msg }

// checkSrc returns a non-nil error when the property is violated; a harnessError when
// the expected report did not appear at all (the construction, not the property, failed).
func checkSrc(c SrcCase) error {
	report, hits, name, err := runSrc(c)
	if err != nil {
		return harnessError{err.Error()}
	}
	want := fmt.Sprintf("%s:%d:%d", name, c.Line, c.Col)
	switch c.Kind {
	case "undef", "syntax":
		var needle string
		if c.Kind == "undef" {
			needle = "undefined identifier: " + c.Token
		} else {
			needle = "found '" + c.Token + "'"
		}
		for _, m := range posRe.FindAllStringSubmatch(report, -1) {
			if strings.Contains(m[4], needle) {
				got := m[1] + ":" + m[2] + ":" + m[3]
				if got != want {
					return fmt.Errorf("%s path: %q reported at %s, true position %s", c.Path, needle, got, want)
				}
				return nil
			}
		}
		if strings.Contains(report, needle) {
			return fmt.Errorf("%s path: %q reported without position %s: %q", c.Path, needle, want, report)
		}
		return harnessError{fmt.Sprintf("expected report %q missing, got %q", needle, report)}
	case "break":
		if len(hits) != 1 {
			return harnessError{fmt.Sprintf("expected exactly one breakpoint stop, got %q (report %q)", hits, report)}
		}
		lines := strings.Split(strings.Join(c.Items, ""), "\n")
		wantHit := want + "|" + lines[c.Line-1]
		{
			if hits[0] != wantHit {
				return fmt.Errorf("%s path: breakpoint reported at %q, true position and source line %q", c.Path, hits[0], wantHit)
			}
		}
		return nil
	default: // weak kinds
		if !strings.Contains(report, c.Token) {
			return harnessError{fmt.Sprintf("expected report mentioning %q missing, got %q", c.Token, report)}
		}
		for _, m := range posRe.FindAllStringSubmatch(report, -1) {
			if !strings.Contains(m[4], c.Token) {
				continue
			}
			line, _ := strconv.Atoi(m[2])
			if m[1] != name || line < c.StmtFirst || line > c.StmtLast {
				return fmt.Errorf("%s path: %s error reported at %s:%s:%s, outside the offending statement %s lines %d-%d", c.Path, c.Kind, m[1], m[2], m[3], name, c.StmtFirst, c.StmtLast)
			}
			rec.Label("weak-kind-with-position")
		}
		return nil
	}
}

func replay(content []byte) error {
	var probe map[string]json.RawMessage
	if err := json.Unmarshal(content, &probe); err != nil {
		return nil
	}
	if _, ok := probe["offenders"]; ok {
		return replaySession(content)
	}
	if _, ok := probe["ops"]; ok {
		var h fsHistory
		if err := json.Unmarshal(content, &h); err != nil {
			return nil
		}
		return runHistory(h)
	}
	var c SrcCase
	if err := json.Unmarshal(content, &c); err != nil || c.Path == "" {
		return nil
	}
	interp = nil // fresh interpreter
	err := checkSrc(c)
	if _, ok := err.(harnessError); ok {
		return nil
	}
	return err
}

func TestReplays(t *testing.T) {
	rec.RunReplays(t, replay)
}

// ---------------------------------------------------------------- generator (b)

type tmpl struct {
	text  string // K = unique number, @ = the planted token position (offenders only)
	kind  string
	multi bool
	pad   bool // comment or blank
}

var preItems = []tmpl{
	{"var vK = K\n", "decl", false, false},
	{"vK := K\n", "stmt", false, false},
	{"func fK(x int) int {\n\treturn x +\n\t\tK\n}\n", "func", true, false},
	{"// comment K\n", "comment", false, true},
	{"\n", "blank", false, true},
	{"   \n", "blank", false, true},
	{"/* multi\n   line K */\n", "block-comment", true, true},
	{"var sK = `raw\nstring\nK`\n", "rawstring", true, false},
	{"var sK = \"a // not a comment\"\n", "decl", false, false},
	{"type TK struct {\n\tA int\n\tB string\n}\n", "type", true, false},
	{"var lK = len(\n\t\"abc\",\n)\n", "call", true, false},
	{"var wK = K\nif wK > 0 {\n\twK++\n} else {\n\twK--\n}\n", "if", true, false},
	{"const (\n\tcK = iota\n\tdK\n)\n", "const", true, false},
	{"for iK := 0; iK < 2; iK++ {\n}\n", "for", true, false},
	{"/* c */ var vK = K\n", "comment-then-code", false, false},
	{"/* a\n b */ var vK = K\n", "multiline-comment-then-code", true, false},
	{"var vK = K // trailing\n", "decl", false, false},
	{"  \t  var vK = K\n", "indented", false, false},
	{"var uK = \"é√\"\n", "multibyte", false, false},
	{"var xK = 1 +\n\t2 +\n\t// inner comment\n\t3\n", "continued", true, false},
	{"func mK() (a, b int) {\n\n\t// c\n\treturn 1,\n\t\t2\n}\n", "func", true, false},
}

var offenders = []tmpl{
	{"var bK = 1 + @undefK\n", "undef", false, false},
	{"var bK = len(\n\t\"x\") +\n\t@undefK\n", "undef", true, false},
	{"func gK(x int) int {\n\tif x > 0 {\n\t\treturn @undefK\n\t}\n\treturn 0\n}\n", "undef", true, false},
	{"var bK = `raw\nstr` + @undefK\n", "undef", true, false},
	{"/* c */ var bK = @undefK\n", "undef", false, false},
	{"/* a\n b */ var bK = @undefK\n", "undef", true, false},
	{"var bK = \"é√\" + @undefK\n", "undef", false, false},
	{"var bK = []int{\n\t1,\n\t@undefK,\n}\n", "undef", true, false},
	{"\t\t@undefK++\n", "undef", false, false},
	{"var bK = 1 + @)\n", "syntax", false, false},
	{"var bK = (1 +\n\t2 @]\n", "syntax", true, false},
	{"func gK() {\n\tx := 1 +\n\t\t@}\n", "syntax", true, false},
	{"func hK() {\n\tvar y = 1\n\t@\"break\"\n\t_ = y\n}\nhK()\n", "break", true, false},
	{"func hK(n int) {\n\tfor i := 0; i < n; i++ {\n\t\t_ = i\n\t}\n\t  @_ = \"break\"\n}\nhK(2)\n", "break", true, false},
	{"var dK int = @\"strK\"\n", "type", false, false},
	{"var dK = 1 +\n\t@vnofieldK.nofield\n", "type", true, false},
	{"var jK = 7\nvar eK = []int{1}[@jK]\n", "runtime", true, false},
	{"func pK() {\n\t@panic(\"boomK\")\n}\npK()\n", "runtime", true, false},
}

var paths = []string{"eval", "reader", "file", "repl"}

func lineCol(text string, off int) (line, col int) {
	line = 1 + strings.Count(text[:off], "\n")
	col = off - strings.LastIndexByte(text[:off], '\n')
	return
}

func genSrcCase(t *rapid.T) (c SrcCase, nontrivial bool) {
	k := 0
	inst := func(tm tmpl) string {
		k++
		return strings.ReplaceAll(tm.text, "K", strconv.Itoa(k))
	}
	c.Path = rapid.SampledFrom(paths).Draw(t, "path")
	npre := rapid.IntRange(0, 9).Draw(t, "npre")
	sawPad, sawMulti := false, false
	if c.Path != "eval" && c.Path != "repl" && rapid.IntRange(0, 5).Draw(t, "shebang") == 0 {
		c.Items = append(c.Items, "#!/usr/bin/env gomacro\n")
		sawPad = true
	}
	for i := 0; i < npre; i++ {
		tm := rapid.SampledFrom(preItems).Draw(t, "pre")
		c.Items = append(c.Items, inst(tm))
		sawPad = sawPad || tm.pad
		sawMulti = sawMulti || tm.multi
		rec.Label("pre:" + tm.kind)
	}
	off := rapid.SampledFrom(offenders).Draw(t, "offender")
	otext := inst(off)
	c.Kind = off.kind
	c.At = len(c.Items)
	before := strings.Join(c.Items, "")
	at := strings.IndexByte(otext, '@')
	otext = otext[:at] + otext[at+1:]
	c.Items = append(c.Items, otext)
	c.Line, c.Col = lineCol(before+otext, len(before)+at)
	c.StmtFirst = 1 + strings.Count(before, "\n")
	c.StmtLast = c.StmtFirst + strings.Count(otext, "\n") - 1
	rest := otext[at:]
	switch c.Kind {
	case "undef":
		c.Token = rest[:strings.IndexAny(rest, "\n,+")]
	case "syntax":
		c.Token = rest[:1]
	case "break":
		c.Token = "break"
	case "type":
		if strings.HasPrefix(rest, "\"") {
			c.Token = "str" + strconv.Itoa(k)
		} else {
			c.Token = "vnofield" + strconv.Itoa(k)
		}
	case "runtime":
		if strings.HasPrefix(rest, "panic") {
			c.Token = "boom" + strconv.Itoa(k)
		} else {
			c.Token = "index out of range"
		}
	}
	if c.Path != "eval" {
		npost := rapid.IntRange(0, 2).Draw(t, "npost")
		for i := 0; i < npost; i++ {
			c.Items = append(c.Items, inst(rapid.SampledFrom(preItems).Draw(t, "post")))
		}
	}
	return c, c.At > 0 && sawPad && sawMulti
}

// firstToken returns what precedes the first token of an item: whether that holds a
// newline, and whether the token's own line has bytes before it.
func firstToken(item string) (found, newlineBefore, prefixOnLine bool, lineEnd int) {
	fset := token.NewFileSet()
	f := fset.AddFile("", fset.Base(), len(item))
	var sc scanner.Scanner
	sc.Init(f, []byte(item), nil, 0)
	pos, tok, _ := sc.Scan()
	if tok == token.EOF {
		return false, false, false, 0
	}
	off := f.Offset(pos)
	ls := strings.LastIndexByte(item[:off], '\n') + 1
	le := strings.IndexByte(item[off:], '\n')
	if le < 0 {
		le = len(item) - off
	}
	return true, ls > 0, off > ls, off + le
}

// knownShape returns the id of the registered (status known) finding whose shape the case has.
func knownShape(c SrcCase) string {
	if c.Path == "eval" || os.Getenv("VERIF_NO_EXCLUSIONS") != "" {
		return "" // VERIF_NO_EXCLUSIONS=1: validate a fix patch in a scratch tree before the finding is re-registered as fixed
	}
	firstCode := -1
	for i, it := range c.Items {
		if found, _, _, _ := firstToken(strings.Replace(it, "#!", "//", 1)); found {
			firstCode = i
			break
		}
	}
	viaEvalReader := c.Path == "reader" || c.Path == "file"
	if rec.Known("F-C27-1") {
		// a chunk read by Interp.Read whose first token is preceded by a newline (block comment, then code)
		for i := 0; i <= c.At && i < len(c.Items); i++ {
			if _, nl, _, _ := firstToken(c.Items[i]); nl && !(viaEvalReader && i == firstCode) {
				return "F-C27-1"
			}
		}
	}
	if rec.Known("F-C27-2") && viaEvalReader && c.At == firstCode {
		// the first evaluated chunk of EvalReader, token on the line of the first token, bytes before the first token on that line
		it := c.Items[c.At]
		_, _, prefix, lineEnd := firstToken(it)
		before := strings.Join(c.Items[:c.At], "")
		tokOff := offsetOf(before+it, c.Line, c.Col) - len(before)
		if prefix && tokOff < lineEnd {
			return "F-C27-2"
		}
	}
	return ""
}

func offsetOf(text string, line, col int) int {
	off := 0
	for l := 1; l < line; l++ {
		off += strings.IndexByte(text[off:], '\n') + 1
	}
	return off + col - 1
}

func TestSourcePositions(t *testing.T) {
	rec.Check(t, rec.Scale(450, 8000), func(t *rapid.T) {
		c, nt := genSrcCase(t)
		if id := knownShape(c); id != "" {
			rec.Excluded(id)
			return
		}
		err := checkSrc(c)
		if h, ok := err.(harnessError); ok {
			// the construction failed: not a verdict about the property
			rec.Label("harness-error")
			rec.Note("harness error: %s", h.msg)
			t.Fatalf("harness error (no verdict): %s\ncase %+v", h.msg, c)
		}
		rec.Label("path:" + c.Path + "/" + c.Kind)
		if nt {
			rec.NT(strings.Join(c.Items, "") + "|" + c.Path)
			rec.Sample(c)
		}
		if err != nil {
			data, _ := json.MarshalIndent(c, "", " ")
			rec.Failf(t, "source-positions", data, "json", "%v", err)
		}
	})
}
