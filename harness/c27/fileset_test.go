package c27

import (
	"encoding/json"
	"fmt"
	"go/token"
	"strings"
	"testing"

	etoken "github.com/cosmos72/gomacro/go/etoken"
	"pgregory.net/rapid"

	"verif/harness/vlib"
)

// fsOp is one step of a FileSet history in plain form.
type fsOp struct {
	Op      string `json:"op"` // addfile | addline | setlines | content | lineinfo | query
	File    int    `json:"file,omitempty"`
	Name    string `json:"name,omitempty"`
	Base    int    `json:"base,omitempty"` // -1: next free base
	Size    int    `json:"size,omitempty"`
	Line    int    `json:"line,omitempty"` // starting line of the file / line of a //line directive
	Col     int    `json:"col,omitempty"`
	Offset  int    `json:"offset,omitempty"`
	Lines   []int  `json:"lines,omitempty"`
	Content string `json:"content,omitempty"`
	Pos     int    `json:"pos,omitempty"`
}

type fsHistory struct {
	Ops []fsOp `json:"ops"`
}

func shifted(p token.Position, by int) token.Position {
	if p.IsValid() {
		p.Line += by
	}
	return p
}

// runHistory applies the history to etoken.FileSet and to the twin token.FileSet.
func runHistory(h fsHistory) (err error) {
	if p := vlib.Try(func() { err = runHistory0(h) }); p != nil {
		return fmt.Errorf("panic: %v", p)
	}
	return err
}

func runHistory0(h fsHistory) error {
	real := etoken.NewFileSet()
	twin := token.NewFileSet()
	var rfiles []*etoken.File
	var tfiles []*token.File
	var starts []int
	var contents []string
	for i, op := range h.Ops {
		switch op.Op {
		case "addfile":
			base := op.Base
			if base >= 0 && base < twin.Base() {
				base = twin.Base()
			}
			tf := twin.AddFile(op.Name, base, op.Size)
			rf := real.AddFile(op.Name, base, op.Size, op.Line)
			if rf.Base() != tf.Base() || rf.Size() != tf.Size() || rf.Name() != tf.Name() {
				return fmt.Errorf("step %d: AddFile gives base/size/name %d/%d/%q, twin %d/%d/%q", i, rf.Base(), rf.Size(), rf.Name(), tf.Base(), tf.Size(), tf.Name())
			}
			rfiles, tfiles, starts, contents = append(rfiles, rf), append(tfiles, tf), append(starts, op.Line), append(contents, "")
		case "addline":
			rfiles[op.File].AddLine(op.Offset)
			tfiles[op.File].AddLine(op.Offset)
		case "setlines":
			a := rfiles[op.File].SetLines(append([]int(nil), op.Lines...))
			b := tfiles[op.File].SetLines(append([]int(nil), op.Lines...))
			if a != b {
				return fmt.Errorf("step %d: SetLines returns %v, twin %v", i, a, b)
			}
		case "content":
			rfiles[op.File].SetLinesForContent([]byte(op.Content))
			tfiles[op.File].SetLinesForContent([]byte(op.Content))
			rfiles[op.File].SetSourceForContent([]byte(op.Content))
			contents[op.File] = op.Content
		case "lineinfo":
			rfiles[op.File].AddLineColumnInfo(op.Offset, op.Name, op.Line, op.Col)
			tfiles[op.File].AddLineColumnInfo(op.Offset, op.Name, op.Line, op.Col)
		case "query":
			p := token.Pos(op.Pos)
			tf := twin.File(p)
			rf := real.File(p)
			if (tf == nil) != (rf == nil) {
				return fmt.Errorf("step %d: File(%d) nil=%v, twin nil=%v", i, p, rf == nil, tf == nil)
			}
			start := 0
			idx := -1
			if tf != nil {
				for k := range tfiles {
					if tfiles[k] == tf {
						idx = k
					}
				}
				if rfiles[idx] != rf {
					return fmt.Errorf("step %d: File(%d) is not file %d (%s)", i, p, idx, tf.Name())
				}
				start = starts[idx]
			}
			for _, adjusted := range []bool{true, false} {
				want := shifted(twin.PositionFor(p, adjusted), start)
				if got := real.PositionFor(p, adjusted); got != want {
					return fmt.Errorf("step %d: FileSet.PositionFor(%d,%v) = %v, twin shifted by %d = %v", i, p, adjusted, got, start, want)
				}
				if rf != nil {
					if got := rf.PositionFor(p, adjusted); got != want {
						return fmt.Errorf("step %d: File.PositionFor(%d,%v) = %v, twin shifted by %d = %v", i, p, adjusted, got, start, want)
					}
				}
			}
			want := shifted(twin.Position(p), start)
			if got := real.Position(p); got != want {
				return fmt.Errorf("step %d: FileSet.Position(%d) = %v, twin shifted by %d = %v", i, p, got, start, want)
			}
			if rf != nil {
				if got := rf.Position(p); got != want {
					return fmt.Errorf("step %d: File.Position(%d) = %v, twin shifted = %v", i, p, got, want)
				}
			}
			// Source: the text of the line holding p, when the source was stored and no //line directive interferes
			line, spos := real.Source(p)
			if spos != want {
				return fmt.Errorf("step %d: Source(%d) position %v, want %v", i, p, spos, want)
			}
			if idx >= 0 && contents[idx] != "" && !hasLineInfo(h.Ops[:i], idx) {
				// the text of line number n of the stored content, n = the twin's (unshifted) line of p
				n := twin.PositionFor(p, false).Line
				lines := strings.Split(contents[idx], "\n")
				if k := len(lines); lines[k-1] == "" {
					lines = lines[:k-1]
				}
				wantLine := ""
				if n >= 1 && n <= len(lines) {
					wantLine = lines[n-1]
				}
				if line != wantLine {
					return fmt.Errorf("step %d: Source(%d) = %q, line %d of the stored content is %q", i, p, line, n, wantLine)
				}
			}
		default:
			return fmt.Errorf("bad op %q", op.Op)
		}
	}
	return nil
}

func hasLineInfo(ops []fsOp, file int) bool {
	for _, o := range ops {
		if (o.Op == "lineinfo" || o.Op == "addline" || o.Op == "setlines") && o.File == file {
			return true
		}
	}
	return false
}

func TestFileSetTwin(t *testing.T) {
	rec.Check(t, rec.Scale(3000, 80000), func(t *rapid.T) {
		var h fsHistory
		type finfo struct{ base, size, start, lastLine int }
		var files []finfo
		nextBase := 1
		nops := rapid.IntRange(1, 40).Draw(t, "nops")
		queriedLater := false
		for i := 0; i < nops; i++ {
			k := rapid.IntRange(0, 9).Draw(t, "op")
			switch {
			case k <= 1 || len(files) == 0:
				size := rapid.IntRange(0, 120).Draw(t, "size")
				base := -1
				if rapid.Bool().Draw(t, "explicit-base") {
					base = nextBase + rapid.IntRange(0, 20).Draw(t, "gap")
				}
				start := rapid.SampledFrom([]int{0, 0, 1, 3, 10, 999, 100000}).Draw(t, "startline")
				if rapid.IntRange(0, 3).Draw(t, "rndstart") == 0 {
					start = rapid.IntRange(0, 5000).Draw(t, "startline2")
				}
				h.Ops = append(h.Ops, fsOp{Op: "addfile", Name: fmt.Sprintf("f%d.go", len(files)), Base: base, Size: size, Line: start})
				b := base
				if b < 0 {
					b = nextBase
				}
				files = append(files, finfo{b, size, start, 0})
				nextBase = b + size + 1
			case k == 2:
				f := rapid.IntRange(0, len(files)-1).Draw(t, "file")
				fi := &files[f]
				if fi.lastLine+1 >= fi.size {
					continue
				}
				off := rapid.IntRange(fi.lastLine+1, fi.size-1).Draw(t, "lineoff")
				fi.lastLine = off
				h.Ops = append(h.Ops, fsOp{Op: "addline", File: f, Offset: off})
			case k == 3:
				f := rapid.IntRange(0, len(files)-1).Draw(t, "file")
				fi := &files[f]
				lines := []int{0}
				for o := 0; ; {
					o += rapid.IntRange(1, 30).Draw(t, "linelen")
					if o >= fi.size {
						break
					}
					lines = append(lines, o)
				}
				fi.lastLine = lines[len(lines)-1]
				h.Ops = append(h.Ops, fsOp{Op: "setlines", File: f, Lines: lines})
			case k == 4:
				f := rapid.IntRange(0, len(files)-1).Draw(t, "file")
				fi := &files[f]
				content := rapid.StringOfN(rapid.SampledFrom([]rune{'a', 'b', ' ', '\n', '\n', 'x', '\t'}), fi.size, fi.size, -1).Draw(t, "content")
				if len(content) != fi.size {
					continue
				}
				fi.lastLine = strings.LastIndexByte(content, '\n') + 1
				h.Ops = append(h.Ops, fsOp{Op: "content", File: f, Content: content})
			case k == 5 && rapid.IntRange(0, 2).Draw(t, "rare") == 0:
				f := rapid.IntRange(0, len(files)-1).Draw(t, "file")
				fi := files[f]
				if fi.size < 2 {
					continue
				}
				h.Ops = append(h.Ops, fsOp{Op: "lineinfo", File: f, Offset: rapid.IntRange(0, fi.size-1).Draw(t, "lioff"),
					Name: rapid.SampledFrom([]string{"", "other.go"}).Draw(t, "liname"), Line: rapid.IntRange(1, 50).Draw(t, "liline"), Col: rapid.IntRange(0, 9).Draw(t, "licol")})
			default:
				var p int
				switch rapid.IntRange(0, 9).Draw(t, "poskind") {
				case 0:
					p = 0 // NoPos
				case 1:
					p = nextBase + rapid.IntRange(0, 50).Draw(t, "beyond")
				default:
					f := rapid.IntRange(0, len(files)-1).Draw(t, "qfile")
					fi := files[f]
					p = fi.base + rapid.IntRange(0, fi.size).Draw(t, "qoff")
					if f > 0 && fi.start != 0 {
						queriedLater = true
					}
				}
				h.Ops = append(h.Ops, fsOp{Op: "query", Pos: p})
				rec.Label("fileset:query")
			}
		}
		data, _ := json.Marshal(h)
		distinctStarts := map[int]bool{}
		for _, f := range files {
			if f.start != 0 {
				distinctStarts[f.start] = true
			}
		}
		if len(distinctStarts) >= 2 && queriedLater {
			rec.NT(string(data))
		}
		if err := runHistory(h); err != nil {
			pretty, _ := json.MarshalIndent(h, "", " ")
			rec.Failf(t, "fileset-twin", pretty, "json", "%v", err)
		}
	})
}
