// C21: ~quote and ~quasiquote build the documented syntax trees in both interpreters,
// and every evaluation of a quasiquote returns a fresh tree.
//
// Oracles: (1) textual substitution: the result must equal, up to norm, the parse of
// the template text in which every active hole is replaced by the text of the tree
// its expression evaluates to (parsed by the standard library's go/parser whenever the
// expected text is plain Go); (2) fast == classic; (3) freshness of repeated
// evaluation of the same compiled quasiquote.
package c21

import (
	"encoding/json"
	"fmt"
	"go/ast"
	stdparser "go/parser"
	"go/token"
	"io"
	"os"
	"reflect"
	"sort"
	"strings"
	"testing"

	"github.com/cosmos72/gomacro/classic"
	"github.com/cosmos72/gomacro/fast"
	"pgregory.net/rapid"

	"verif/harness/vlib"
)

var rec *vlib.Rec

func TestMain(m *testing.M) {
	rec = vlib.Open("C21")
	rec.Rule("cases = quasiquote templates generated as text with holes (~unquote / ~unquote_splice of variables bound to, or inline, ~quote{T} of known text T) over a Go expression/statement grammar, " +
		"nesting depth 1..3 with stacked unquotes, partial unquotes and ~quote inside ~quasiquote; plus plain ~quote{T}. " +
		"non-trivial = template with an ~unquote_splice into a non-statement list (call arguments, composite elements, return/case/assignment lists) or quasiquote nesting depth >= 2; distinct = distinct template source text")
	rec.Assume("norm: every ParenExpr is transparent; at the top of a result single-statement blocks, ExprStmt and DeclStmt wrappers are transparent (the wrappers the property allows to be removed); positions, Obj, Scope, comments ignored; nil FieldList == empty FieldList inside FuncType")
	rec.Assume("expected trees come from go/parser (standard library) for plain-Go expected text and from gomacro's parser (no macro expansion, no evaluation) when the expected text itself contains quote syntax (depth >= 2)")
	rec.Assume("freshness is required of ~quasiquote only (nodes of the values inserted by ~unquote are shared by design, and ~quote returns its literal tree)")
	rec.Assume("harness go.mod: go 1.23 with godebug default=go1.18 (the settings of gomacro's own module)")
	os.Exit(vlib.Main(m, rec))
}

// ---------------------------------------------------------------- interpreters

func newFast() *fast.Interp {
	ir := fast.New()
	ir.Comp.Globals.Stdout = io.Discard
	ir.Comp.Globals.Stderr = io.Discard
	return ir
}

func newClassic() *classic.Interp {
	ir := classic.New()
	ir.Stdout = io.Discard
	ir.Stderr = io.Discard
	return ir
}

type evaluator func(src string) (interface{}, interface{})

func fastEval(ir *fast.Interp) evaluator {
	return func(src string) (res interface{}, p interface{}) {
		p = vlib.Try(func() {
			vs, _ := ir.Eval(src)
			if len(vs) > 0 && vs[0].IsValid() && vs[0].CanInterface() {
				res = vs[0].Interface()
			}
		})
		return
	}
}

func classicEval(ir *classic.Interp) evaluator {
	return func(src string) (res interface{}, p interface{}) {
		p = vlib.Try(func() {
			v, _ := ir.Eval(src)
			if v.IsValid() && v.CanInterface() {
				res = v.Interface()
			}
		})
		return
	}
}

// ---------------------------------------------------------------- expected tree

var (
	parserInterp *fast.Interp // used for ParseBytes only
	parserUsed   int
)

func parseExpected(c *qcase) (ast.Node, error) {
	if c.ExpParser == "gomacro" {
		if parserInterp == nil || parserUsed > 2000 {
			parserInterp, parserUsed = newFast(), 0
		}
		parserUsed++
		ir := parserInterp
		var nodes []ast.Node
		p := vlib.Try(func() { nodes = ir.Comp.ParseBytes([]byte("~quote{" + c.Exp + "\n}")) })
		if p != nil {
			return nil, fmt.Errorf("gomacro parser on expected text: %v", p)
		}
		if len(nodes) != 1 {
			return nil, fmt.Errorf("gomacro parser on expected text: %d nodes", len(nodes))
		}
		u, ok := nodes[0].(*ast.UnaryExpr)
		if !ok {
			if es, ok2 := nodes[0].(*ast.ExprStmt); ok2 {
				u, ok = es.X.(*ast.UnaryExpr)
			}
		}
		if !ok {
			return nil, fmt.Errorf("gomacro parser on expected text: %T", nodes[0])
		}
		return u.X.(*ast.FuncLit).Body, nil
	}
	fset := token.NewFileSet()
	f, err := stdparser.ParseFile(fset, "exp.go", "package p\nfunc _() {\n"+c.Exp+"\n}\n", stdparser.SkipObjectResolution)
	if err != nil {
		return nil, fmt.Errorf("go/parser on expected text: %v", err)
	}
	return f.Decls[0].(*ast.FuncDecl).Body, nil
}

// topNorm removes the wrappers the property allows to vanish at the top of a result.
func topNorm(n ast.Node) ast.Node {
	for {
		switch x := n.(type) {
		case *ast.BlockStmt:
			switch len(x.List) {
			case 0:
				return &ast.EmptyStmt{}
			case 1:
				n = x.List[0]
				continue
			}
			return n
		case *ast.ExprStmt:
			n = x.X
		case *ast.DeclStmt:
			n = x.Decl
		case *ast.ParenExpr:
			n = x.X
		default:
			return n
		}
	}
}

func canon(n ast.Node) string {
	return dumpNode(topNorm(n), dumpOpt{stripParens: true})
}

// ---------------------------------------------------------------- pointer sets (freshness)

var tNode = reflect.TypeOf((*ast.Node)(nil)).Elem()

func ptrSet(n interface{}, into map[uintptr]interface{}) {
	var walk func(v reflect.Value)
	walk = func(v reflect.Value) {
		switch v.Kind() {
		case reflect.Interface:
			if !v.IsNil() {
				walk(v.Elem())
			}
		case reflect.Ptr:
			if v.IsNil() {
				return
			}
			switch v.Type() {
			case tObj, tScope, tCG:
				return
			}
			if _, seen := into[v.Pointer()]; seen {
				return
			}
			into[v.Pointer()] = v.Interface()
			walk(v.Elem())
		case reflect.Slice:
			for i := 0; i < v.Len(); i++ {
				walk(v.Index(i))
			}
		case reflect.Struct:
			for i := 0; i < v.NumField(); i++ {
				walk(v.Field(i))
			}
		}
	}
	walk(reflect.ValueOf(n))
}

// scribble overwrites every identifier and literal of the tree except nodes in keep.
func scribble(n ast.Node, keep map[uintptr]interface{}, leaves bool) {
	ast.Inspect(n, func(m ast.Node) bool {
		if m == nil {
			return true
		}
		v := reflect.ValueOf(m)
		if v.Kind() == reflect.Ptr {
			if _, ok := keep[v.Pointer()]; ok {
				return false
			}
		}
		switch m := m.(type) {
		case *ast.Ident:
			if leaves {
				m.Name = "SCRIBBLED"
			}
		case *ast.BasicLit:
			if leaves {
				m.Value = "0xDEAD"
			}
		case *ast.BlockStmt:
			if _, ok := keep[reflect.ValueOf(m).Pointer()]; !ok && len(m.List) > 0 {
				m.List = m.List[:len(m.List)-1]
			}
		case *ast.CallExpr:
			if len(m.Args) > 0 {
				m.Args[0] = &ast.Ident{Name: "SCRIBBLED"}
			}
		case *ast.BinaryExpr:
			m.Op = token.ILLEGAL
		}
		return true
	})
}

// ---------------------------------------------------------------- the check of one case

type verdict struct {
	violation string // non-empty: the property is violated
	excluded  string // non-empty: the case is outside the domain (counted)
	infra     string // non-empty: harness problem (never a violation)
}

func isParseError(p interface{}) bool {
	s := fmt.Sprint(p)
	return strings.Contains(s, "expected ") || strings.Contains(s, "go/parser internal error") || strings.Contains(s, "must be invoked in")
}

func asNode(x interface{}) (ast.Node, bool) {
	n, ok := x.(ast.Node)
	if !ok || n == nil || reflect.ValueOf(n).Kind() == reflect.Ptr && reflect.ValueOf(n).IsNil() {
		return nil, false
	}
	return n, true
}

// strict: no known-finding exclusion is applied (replays).
func checkCase(c *qcase, strict bool) verdict {
	return checkCaseWith(c, strict, fastEval(newFast()), classicEval(newClassic()))
}

// Shared interpreters: fast.New() costs 0.2 s on the loaded machine, so generated cases
// reuse one pair (renewed every 300 cases); every case rebinds all the names it uses.
// A violation seen on the shared pair is confirmed on a fresh pair before it is
// reported (the replay uses a fresh pair too).
var shared struct {
	f, c evaluator
	used int
}

func checkCaseShared(c *qcase) verdict {
	if shared.f == nil || shared.used >= 300 {
		shared.f, shared.c, shared.used = fastEval(newFast()), classicEval(newClassic()), 0
	}
	shared.used++
	v := checkCaseWith(c, false, shared.f, shared.c)
	if v.violation != "" {
		shared.f = nil // do not trust the state after a failure
		v2 := checkCase(c, false)
		if v2.violation == "" {
			return verdict{infra: "violation seen only on the shared interpreter pair, not on a fresh pair: " + v.violation}
		}
		return v2
	}
	return v
}

func checkCaseWith(c *qcase, strict bool, fe, ce evaluator) verdict {
	expTree, err := parseExpected(c)
	if err != nil {
		return verdict{infra: err.Error()}
	}
	want := canon(expTree)

	type side struct {
		name string
		eval evaluator
	}
	sides := []side{{"fast", fe}, {"classic", ce}}
	var got [2]string
	var failed [2]string
	for i, s := range sides {
		for _, st := range c.Setup {
			if _, p := s.eval(st); p != nil {
				if isParseError(p) {
					return verdict{infra: fmt.Sprintf("%s: setup %q rejected by the parser: %v", s.name, st, p)}
				}
				return verdict{violation: fmt.Sprintf("%s: evaluating %q failed: %v", s.name, st, p)}
			}
		}
		x, p := s.eval(c.Src)
		if p != nil {
			failed[i] = fmt.Sprint(p)
			continue
		}
		n, ok := asNode(x)
		if !ok {
			failed[i] = fmt.Sprintf("result is %T, not a syntax tree", x)
			continue
		}
		got[i] = canon(n)
	}
	if failed[0] != "" && failed[1] != "" && isParseError(failed[0]) && isParseError(failed[1]) {
		return verdict{excluded: "parse-error"}
	}
	for i, s := range sides {
		if failed[i] != "" {
			return verdict{violation: fmt.Sprintf("%s: evaluating the template failed: %s\n(other interpreter: %s)\nwant %s", s.name, failed[i], orOK(failed[1-i], got[1-i]), want)}
		}
	}
	for i, s := range sides {
		if got[i] != want {
			return verdict{violation: fmt.Sprintf("%s returned a different tree than the substitution text\n got  %s\n want %s\n(other interpreter %s)", s.name, got[i], want, agree(got[1-i] == want))}
		}
	}
	if c.Fresh && strings.HasPrefix(c.Src, "~") && isQuasi(c.Src) {
		for _, s := range sides {
			lenient := !strict && s.name == "classic" && rec.Known("F-C21-1")
			if msg := freshness(c, s.name, s.eval, want, lenient); msg != "" {
				return verdict{violation: msg}
			}
		}
	}
	return verdict{}
}

func orOK(failed, got string) string {
	if failed != "" {
		return "failed: " + failed
	}
	return "returned " + got
}

func agree(b bool) string {
	if b {
		return "agrees with the text"
	}
	return "differs too"
}

func isQuasi(src string) bool {
	return strings.HasPrefix(src, "~quasiquote") || strings.HasPrefix(src, "~\"")
}

// freshness: the same compiled quasiquote, evaluated three times through a function.
// lenientLeaves: known finding F-C21-1 (the classic interpreter returns the template's
// own Ident / BasicLit / EmptyStmt nodes): shared leaves are tolerated and counted, and
// the mutation leaves them alone, so that every other node is still checked.
func freshness(c *qcase, name string, eval evaluator, want string, lenientLeaves bool) string {
	if _, p := eval("func qfresh() interface{} { return " + c.Src + " }"); p != nil {
		return fmt.Sprintf("%s: declaring a function that returns the template failed: %v", name, p)
	}
	call := func() (ast.Node, string) {
		x, p := eval("qfresh()")
		if p != nil {
			return nil, fmt.Sprintf("%s: calling the function that returns the template failed: %v", name, p)
		}
		n, ok := asNode(x)
		if !ok {
			return nil, fmt.Sprintf("%s: function returned %T", name, x)
		}
		return n, ""
	}
	n1, msg := call()
	if msg != "" {
		return msg
	}
	n2, msg := call()
	if msg != "" {
		return msg
	}
	if g := canon(n1); g != want {
		return fmt.Sprintf("%s: template evaluated inside a function differs from the substitution text\n got  %s\n want %s", name, g, want)
	}
	if g := canon(n2); g != want {
		return fmt.Sprintf("%s: second evaluation differs from the first\n got  %s\n want %s", name, g, want)
	}
	keep := map[uintptr]interface{}{}
	for _, h := range c.HoleVars {
		x, p := eval(h)
		if p != nil {
			return fmt.Sprintf("%s: reading %s failed: %v", name, h, p)
		}
		ptrSet(x, keep)
	}
	p1, p2 := map[uintptr]interface{}{}, map[uintptr]interface{}{}
	ptrSet(n1, p1)
	ptrSet(n2, p2)
	var shared []string
	leaves := 0
	for p, t := range p1 {
		if _, ok := p2[p]; ok {
			if _, ok := keep[p]; !ok {
				if lenientLeaves && childless(t) {
					leaves++
					continue
				}
				shared = append(shared, fmt.Sprintf("%T", t))
			}
		}
	}
	if len(shared) > 0 {
		sort.Strings(shared)
		return fmt.Sprintf("%s: two evaluations of the same quasiquote share %d nodes that do not belong to an unquoted value: %v", name, len(shared), compact(shared))
	}
	if leaves > 0 {
		rec.Excluded("F-C21-1")
	}
	scribble(n1, keep, !lenientLeaves)
	if g := canon(n2); g != want {
		return fmt.Sprintf("%s: mutating the first result changed the second\n got  %s\n want %s", name, g, want)
	}
	n3, msg := call()
	if msg != "" {
		return msg
	}
	if g := canon(n3); g != want {
		return fmt.Sprintf("%s: mutating a result changed what the quasiquote returns next\n got  %s\n want %s", name, g, want)
	}
	return ""
}

// childless: the nodes for which ast2's Size() is 0, i.e. what classic's
// evalQuasiquoteAst returns without cloning (known finding F-C21-1).
func childless(n interface{}) bool {
	switch n := n.(type) {
	case *ast.Ident, *ast.BasicLit, *ast.EmptyStmt, *ast.BadExpr, *ast.BadStmt, *ast.BadDecl:
		return true
	case *ast.BlockStmt:
		return len(n.List) == 0
	case *ast.FieldList:
		return len(n.List) == 0
	case *ast.ReturnStmt:
		return len(n.Results) == 0
	case *ast.GenDecl:
		return len(n.Specs) == 0
	}
	return false
}

func compact(ss []string) string {
	m := map[string]int{}
	for _, s := range ss {
		m[s]++
	}
	keys := make([]string, 0, len(m))
	for k := range m {
		keys = append(keys, k)
	}
	sort.Strings(keys)
	var b strings.Builder
	for _, k := range keys {
		fmt.Fprintf(&b, "%s x%d ", k, m[k])
	}
	return b.String()
}

// ---------------------------------------------------------------- generation

func genCase(t *rapid.T) (*qcase, map[string]int) {
	c := &qcase{ExpParser: "std", Fresh: true, Depth: 1}
	x := &g{t: t, c: c, holes: true, labels: map[string]int{}}
	x.inline = x.pct(40, "inline-mode")
	x.maxDepth = 1 + x.intn(3, "maxdepth")
	x.deep = x.maxDepth > 1 && x.pct(70, "deep-mode")
	x.holeP = []int{8, 15, 25}[x.intn(3, "holeP")]
	x.avoidEmptyList = rec.Known("F-C21-2")
	// VERIF_C21_ASSUME_FIXED=F-C21-3 switches this exclusion off, to try a proposed fix
	// in a scratch worktree before known_findings.json changes
	x.avoidVarCount = rec.Known("F-C21-3") && !strings.Contains(","+os.Getenv("VERIF_C21_ASSUME_FIXED")+",", ",F-C21-3,")
	x.excluded = rec.Excluded
	x.known = rec.Known
	d := 1 + x.intn(3, "size")
	if x.deep && d < 2 {
		d = 2
	}
	kind := x.intn(10, "topkind")
	switch {
	case kind == 0:
		// plain ~quote of hole-free text
		x.holes = false
		c.Fresh = false
		if x.pct(50, "quote-expr") {
			s, _ := x.expr(d, 1, false)
			c.Src, c.Exp = x.pick("quoteform", "~quote{", "~'{")+s+"}", s
		} else {
			s, _ := x.stmtList(d, 1, 0, 3)
			c.Src, c.Exp = x.pick("quoteform", "~quote{", "~'{")+s+"}", s
		}
		x.lab("top:quote")
	case kind <= 2:
		// directly nested unquote chains at depth 2-3 (see chainTemplate)
		s, e := x.chainTemplate()
		c.Src, c.Exp = x.pick("qqform", "~quasiquote{", "~\"{")+s+"}", e
	case kind <= 4:
		s, e := x.expr(d, 1, false)
		c.Src, c.Exp = x.pick("qqform", "~quasiquote{", "~\"{")+s+"}", e
		x.lab("top:quasiquote-expr")
	default:
		s, e := x.stmtList(d, 1, 0, 4)
		c.Src, c.Exp = x.pick("qqform", "~quasiquote{", "~\"{")+s+"}", e
		x.lab("top:quasiquote-stmts")
	}
	return c, x.labels
}

func (c *qcase) bytes() []byte {
	b, _ := json.MarshalIndent(c, "", " ")
	return b
}

func TestQuasiquote(t *testing.T) {
	ran, want := 0, rec.Scale(600, 4000)
	defer func() {
		// rapid stops early when the test deadline is near: never report that as "held"
		if !rec.ReplayOnly() && !t.Failed() && ran < want {
			t.Fatalf("inconclusive: only %d of %d cases ran before the deadline", ran, want)
		}
	}()
	rec.Check(t, want, func(rt *rapid.T) {
		ran++
		c, labels := genCase(rt)
		v := checkCaseShared(c)
		if v.infra != "" {
			// a generator / harness problem is never reported as a violation
			rec.Label("infra-problem")
			rt.Fatalf("harness problem (not a violation): %s\nsrc: %s\nexp: %s", v.infra, c.Src, c.Exp)
		}
		if v.excluded != "" {
			rec.Label("excluded:" + v.excluded)
			return
		}
		for k, n := range labels {
			rec.LabelN(k, n)
		}
		rec.Label(fmt.Sprintf("depth:%d", c.Depth))
		rec.Label("expected-parser:" + c.ExpParser)
		if c.Fresh && isQuasi(c.Src) {
			rec.Label("freshness-checked")
		}
		if len(c.HoleVars) == 0 && c.Fresh && isQuasi(c.Src) {
			rec.Label("template-without-holes")
		}
		if c.SpliceInExpr || c.Depth >= 2 {
			rec.NT(c.Src + "\x00" + strings.Join(c.Setup, "\x00"))
		}
		if c.SpliceInExpr {
			rec.Label("nt:splice-in-expr-list")
		}
		if c.Depth >= 2 {
			rec.Label("nt:depth>=2")
		}
		rec.Sample(map[string]interface{}{"setup": c.Setup, "src": c.Src, "exp": c.Exp})
		if v.violation != "" {
			rec.Failf(rt, "quasiquote", c.bytes(), "json", "C21 violated: %s\nsetup: %s\nsrc: %s\nexp: %s", v.violation, strings.Join(c.Setup, " ; "), c.Src, c.Exp)
		}
	})
}

// ---------------------------------------------------------------- replay

func replay(content []byte) error {
	var c qcase
	if err := json.Unmarshal(content, &c); err != nil {
		return fmt.Errorf("bad replay file: %v", err)
	}
	v := checkCase(&c, true)
	if v.infra != "" {
		panic("replay: harness problem: " + v.infra)
	}
	if v.violation != "" {
		return fmt.Errorf("%s", v.violation)
	}
	return nil
}

func TestReplays(t *testing.T) { rec.RunReplays(t, replay) }
