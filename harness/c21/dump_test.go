package c21

import (
	"fmt"
	"go/ast"
	"go/token"
	"reflect"
	"strings"

	etoken "github.com/cosmos72/gomacro/go/etoken"
)

// Canonical, position-insensitive dump of a go/ast tree. Ignored: every token.Pos
// (except the three that carry syntax: CallExpr.Ellipsis, TypeSpec.Assign as
// booleans), Obj, Scope, Unresolved, comments, Incomplete, Implicit. nil and empty
// slices are the same; a nil *FieldList equals an empty one in FuncType.Params /
// Results / TypeParams (both print the same source), but not in FuncDecl.Recv, where
// empty-non-nil is gomacro's encoding of a macro declaration.
type dumpOpt struct {
	stripParens bool
}

var (
	tPos      = reflect.TypeOf(token.NoPos)
	tTok      = reflect.TypeOf(token.ADD)
	tObj      = reflect.TypeOf((*ast.Object)(nil))
	tScope    = reflect.TypeOf((*ast.Scope)(nil))
	tCG       = reflect.TypeOf((*ast.CommentGroup)(nil))
	tCGs      = reflect.TypeOf([]*ast.CommentGroup(nil))
	tFL       = reflect.TypeOf((*ast.FieldList)(nil))
	tParenPtr = reflect.TypeOf((*ast.ParenExpr)(nil))
)

func dumpNode(n interface{}, o dumpOpt) string {
	var b strings.Builder
	if n == nil {
		return "nil"
	}
	dumpValue(&b, reflect.ValueOf(n), o)
	return b.String()
}

func tokString(t token.Token) string {
	return etoken.String(t)
}

func dumpValue(b *strings.Builder, v reflect.Value, o dumpOpt) {
	if !v.IsValid() {
		b.WriteString("nil")
		return
	}
	switch v.Kind() {
	case reflect.Interface:
		if v.IsNil() {
			b.WriteString("nil")
			return
		}
		dumpValue(b, v.Elem(), o)
	case reflect.Ptr:
		if v.IsNil() {
			b.WriteString("nil")
			return
		}
		if o.stripParens && v.Type() == tParenPtr {
			dumpValue(b, v.Elem().FieldByName("X"), o)
			return
		}
		dumpValue(b, v.Elem(), o)
	case reflect.Slice:
		b.WriteString("[")
		for i := 0; i < v.Len(); i++ {
			if i > 0 {
				b.WriteString(" ")
			}
			dumpValue(b, v.Index(i), o)
		}
		b.WriteString("]")
	case reflect.Struct:
		t := v.Type()
		b.WriteString(t.Name())
		b.WriteString("{")
		first := true
		for i := 0; i < t.NumField(); i++ {
			f := t.Field(i)
			fv := v.Field(i)
			name := f.Name
			switch f.Type {
			case tPos:
				if (t.Name() == "CallExpr" && name == "Ellipsis") || (t.Name() == "TypeSpec" && name == "Assign") {
					if fv.Int() != 0 {
						if !first {
							b.WriteString(" ")
						}
						first = false
						b.WriteString(name + ":set")
					}
				}
				continue
			case tObj, tScope, tCG, tCGs:
				continue
			}
			if name == "Incomplete" || name == "Implicit" || name == "Unresolved" {
				continue
			}
			if !first {
				b.WriteString(" ")
			}
			first = false
			b.WriteString(name)
			b.WriteString(":")
			if f.Type == tFL && t.Name() == "FuncType" && fv.IsNil() {
				b.WriteString("FieldList{List:[]}")
				continue
			}
			dumpValue(b, fv, o)
		}
		b.WriteString("}")
	case reflect.String:
		fmt.Fprintf(b, "%q", v.String())
	case reflect.Bool:
		fmt.Fprintf(b, "%v", v.Bool())
	case reflect.Int, reflect.Int8, reflect.Int16, reflect.Int32, reflect.Int64:
		if v.Type() == tTok {
			b.WriteString(tokString(token.Token(v.Int())))
		} else {
			fmt.Fprintf(b, "%d", v.Int())
		}
	default:
		fmt.Fprintf(b, "<%s>", v.Kind())
	}
}
