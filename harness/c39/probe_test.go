package c39

import (
	"fmt"
	"os"
	"testing"

	"github.com/cosmos72/gomacro/cmd"
	"pgregory.net/rapid"
	"verif/harness/gobatch"
)

func TestProbe(t *testing.T) {
	f := os.Getenv("PROBE")
	if f == "" {
		t.Skip()
	}
	c := cmd.New()
	err := c.Main([]string{"-m", "-w", "-f", f})
	fmt.Println("err:", err)
}

func TestDumpInvalid(t *testing.T) {
	if os.Getenv("C39_DUMP") == "" {
		t.Skip()
	}
	n := 0
	rec.Check(t, 30, func(rt *rapid.T) {
		n++
		c := Generate(rt, fmt.Sprintf("P%d_", n))
		if err := gobatch.Vet(c.Want); err != nil {
			fmt.Println("VET ERROR:", err)
			fmt.Println(c.Want.Source("p"))
			rt.Fatalf("stop")
		}
	})
}
