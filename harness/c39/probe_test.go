package c39

import (
	"fmt"
	"os"
	"testing"

	"github.com/cosmos72/gomacro/cmd"
)

func TestProbe(t *testing.T) {
	f := os.Getenv("PROBE")
	if f == "" {
		t.Skip()
	}
	c := cmd.New()
	err := c.Main([]string{"-m", "-w", "-f", f})
	fmt.Println("err:", err)
}
