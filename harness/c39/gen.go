package c39

import (
	"fmt"
	"strings"

	"pgregory.net/rapid"

	"verif/harness/c05"
	"verif/harness/gobatch"
	"verif/harness/progen"
)

// Case is one preprocessor-mode input.
type Case struct {
	Src     string          `json:"src"`     // text of the .gomacro file
	Want    gobatch.Program `json:"want"`    // what the source means as plain Go (macro-free: the same declarations; with macros: the expansion)
	Imports []string        `json:"imports"` // expected import paths, in order ("alias path" when renamed)
	Macros  bool            `json:"macros"`
	Tags    []string        `json:"tags,omitempty"`
	NT      string          `json:"nt,omitempty"`
}

// known reports whether a finding is listed as known (set by TestMain).
var known = func(string) bool { return false }

// excluded counts a shape left out because of a known finding (set by TestMain).
var excluded = func(string) {}

type gen struct {
	*progen.G
	imports map[string]bool
	sens    int // printer-sensitive shapes emitted
	methods int
}

func (g *gen) use(path string) { g.imports[path] = true }

// extras builds a struct type with methods and a function whose statements are the
// shapes the printer has to get right: parenthesised receivers, method expressions,
// conversions with parenthesised types, nested unary operators, composite literals in
// statement headers, precedence-carrying parentheses.
func (g *gen) extras() (decls []string, fn string) {
	T := g.Top("T")
	decls = append(decls, fmt.Sprintf("type %s struct {\n\tA int\n\tB string\n}", T))
	get, add := "Get"+fmt.Sprint(g.Int(1, 9, "mname")), "Add"
	decls = append(decls, fmt.Sprintf("func (t %s) %s() int { return t.A }", T, get))
	decls = append(decls, fmt.Sprintf("func (t *%s) %s(n int) int {\n\tt.A += n\n\treturn t.A\n}", T, add))
	g.methods += 2
	var b strings.Builder
	fmt.Fprintf(&b, "v := %s{A: %d, B: %q}\np := &v\n_, _ = v, p\n", T, g.Int(-3, 9, "v.A"), g.OneOf("v.B", "x", "", "ab"))
	n := g.Int(3, 9, "n-extras")
	for i := 0; i < n; i++ {
		k := g.Int(1, 9, "k")
		ev := g.Ev()
		switch g.Pick(16, "extra") {
		case 0:
			fmt.Fprintf(&b, "rec.E(%d, (%s{A: %d}).%s())\n", ev, T, k, get)
			g.sens++
			g.Tag("shape:paren-composite-receiver")
		case 1:
			fmt.Fprintf(&b, "rec.E(%d, (*%s).%s(&v, %d), (%s).%s(v))\n", ev, T, add, k, T, get)
			g.sens++
			g.Tag("shape:method-expression")
		case 2:
			fmt.Fprintf(&b, "rec.E(%d, (&v).%s(%d), (*p).%s(), (*(&v)).A)\n", ev, add, k, get)
			g.sens++
			g.Tag("shape:paren-pointer-receiver")
		case 3:
			if known("F-C39-1") {
				excluded("F-C39-1")
				fmt.Fprintf(&b, "rec.E(%d)\n", ev)
				break
			}
			switch g.Pick(4, "header") {
			case 0:
				fmt.Fprintf(&b, "if v == (%s{A: %d, B: v.B}) {\n\trec.E(%d)\n}\n", T, k, ev)
			case 1:
				fmt.Fprintf(&b, "for _, e := range ([]%s{{A: %d}}) {\n\trec.E(%d, e.A)\n}\n", T, k, ev)
			case 2:
				fmt.Fprintf(&b, "switch (%s{A: %d}).A {\ncase %d:\n\trec.E(%d)\n}\n", T, k, k, ev)
			default:
				fmt.Fprintf(&b, "if w := (%s{A: %d}); w.A > 0 {\n\trec.E(%d, w.A)\n}\n", T, k, ev)
			}
			g.sens++
			g.Tag("shape:composite-literal-in-header")
		case 4:
			g.use("strings")
			fmt.Fprintf(&b, "rec.E(%d, strings.ToUpper(v.B), strings.Repeat(\"ab\", %d))\n", ev, k%3)
		case 5:
			g.use("strconv")
			fmt.Fprintf(&b, "rec.E(%d, strconv.Itoa(v.A*%d))\n", ev, k)
		case 6:
			if known("F-C39-2") {
				excluded("F-C39-2")
				fmt.Fprintf(&b, "rec.E(%d)\n", ev)
				break
			}
			fmt.Fprintf(&b, "{\n\tc := make(chan int, 1)\n\tc <- %d\n\trec.E(%d, <-(<-chan int)(c), cap((chan<- int)(c)))\n}\n", k, ev)
			g.sens++
			g.Tag("shape:paren-channel-type-conversion")
		case 7:
			fmt.Fprintf(&b, "rec.E(%d, (v.A+%d)*%d, v.A+(%d*2), -(-v.A), ^(^v.A), !(!(v.A > %d)))\n", ev, k, k, k, k)
			g.sens++
			g.Tag("shape:precedence-parens")
		case 8:
			fmt.Fprintf(&b, "rec.E(%d, (*int)(nil) == nil, ([]int)(nil) == nil, (func())(nil) == nil, (interface{})(v.A), (map[string]int)(nil) == nil)\n", ev)
			g.sens++
			g.Tag("shape:paren-type-conversion")
		case 9:
			fmt.Fprintf(&b, "(*p).A = %d\n*(&v.A) += %d\nrec.E(%d, v.A, *&v.A)\n", k, k, ev)
			g.sens++
			g.Tag("shape:deref-lvalues")
		case 10:
			fmt.Fprintf(&b, "func() {\n\tdefer func() {\n\t\trec.R(\"r%d\", recover())\n\t}()\n\tvar m map[string]int\n\tm[\"a\"] = %d\n}()\n", ev, k)
			g.Tag("shape:defer-recover")
		case 11:
			fmt.Fprintf(&b, "{\n\tvar i interface{} = v\n\tif w, ok := i.(%s); ok {\n\t\trec.E(%d, w.A)\n\t}\n\tswitch x := i.(type) {\n\tcase *%s:\n\t\trec.E(%d, x.A)\n\tcase %s, int:\n\t\trec.E(%d)\n\t}\n}\n", T, ev, T, g.Ev(), T, g.Ev())
			g.Tag("shape:type-switch")
		case 12:
			fmt.Fprintf(&b, "{\n\ts := []int{%d, 2, 3, 4}\n\trec.E(%d, s[1:3], s[:2:3], (s)[1], [...]int{2: %d}, map[string][]int{\"a\": {1}}, struct{ X, Y int }{1, %d})\n}\n", k, ev, k, k)
			g.Tag("shape:composites")
		case 13:
			fmt.Fprintf(&b, "{\n\tf := func(a int, bs ...string) (n int, err error) {\n\t\tn = a + len(bs)\n\t\treturn\n\t}\n\tn, _ := f(%d, []string{\"a\"}...)\n\trec.E(%d, n)\n}\n", k, ev)
			g.Tag("shape:func-literal-variadic")
		case 14:
			fmt.Fprintf(&b, "{\n\tconst (\n\t\tc0 = iota * %d\n\t\tc1\n\t\tc2 = \"s\"\n\t)\n\tvar (\n\t\tx, y = c0, c1\n\t\tz    float64\n\t)\n\ttype pt *%s\n\trec.E(%d, x, y, z, c2, pt(p).A)\n}\n", k, T, ev)
			g.Tag("shape:grouped-decls")
		default:
			fmt.Fprintf(&b, "L%d:\n\tfor i := 0; i < 3; i++ {\n\t\tselect {\n\t\tdefault:\n\t\t\tif i == %d {\n\t\t\t\tbreak L%d\n\t\t\t}\n\t\t\tcontinue L%d\n\t\t}\n\t}\nrec.E(%d)\n", ev, k%3, ev, ev, ev)
			g.Tag("shape:labels-select")
		}
	}
	fn = g.Top("Extra")
	decls = append(decls, fmt.Sprintf("func %s() {\n%s}", fn, progen.Indent(b.String())))
	return decls, fn
}

// ---------------------------------------------------------------- macros

type macro struct {
	name   string
	nparam int
	def    string                       // ':macro ...' line
	expand func(args []string) []string // expansion as a list of statements
}

// macroFamily declares 2-4 macros whose expansion is known by construction: the result is
// always a list of plain statements (never a return, never a declaration: F-C20-2), made
// of the arguments and of fixed recorder calls.
func (g *gen) macroFamily() []macro {
	var ms []macro
	n := g.Int(2, 4, "n-macros")
	for i := 0; i < n; i++ {
		name := g.Top("m")
		ev := g.Ev() + 1000
		switch g.Pick(5, "macro-kind") {
		case 0:
			ms = append(ms, macro{name, 2, fmt.Sprintf(":macro %s(a, b ast.Node) ast.Node { return ~\"{ ~,b; ~,a } }", name),
				func(a []string) []string { return []string{a[1], a[0]} }})
		case 1:
			ms = append(ms, macro{name, 1, fmt.Sprintf(":macro %s(a ast.Node) ast.Node { return ~\"{ ~,a; ~,a } }", name),
				func(a []string) []string { return []string{a[0], a[0]} }})
		case 2:
			ms = append(ms, macro{name, 1, fmt.Sprintf(":macro %s(a ast.Node) ast.Node { return ~\"{ rec.E(%d); ~,a } }", name, ev),
				func(a []string) []string { return []string{fmt.Sprintf("rec.E(%d)", ev), a[0]} }})
		case 3:
			ms = append(ms, macro{name, 3, fmt.Sprintf(":macro %s(a, b, c ast.Node) ast.Node { return ~\"{ ~,c; rec.E(%d); ~,a; ~,b; ~,c } }", name, ev),
				func(a []string) []string { return []string{a[2], fmt.Sprintf("rec.E(%d)", ev), a[0], a[1], a[2]} }})
		default:
			if len(ms) == 0 {
				ms = append(ms, macro{name, 1, fmt.Sprintf(":macro %s(a ast.Node) ast.Node { return ~\"{ ~,a; rec.E(%d) } }", name, ev),
					func(a []string) []string { return []string{a[0], fmt.Sprintf("rec.E(%d)", ev)} }})
				break
			}
			// a macro whose expansion calls an earlier macro
			inner := ms[g.Pick(len(ms), "macro-inner")]
			np := inner.nparam
			params := []string{"a", "b", "c"}[:np]
			var uq []string
			for _, p := range params {
				uq = append(uq, "~,"+p)
			}
			ms = append(ms, macro{name, np, fmt.Sprintf(":macro %s(%s ast.Node) ast.Node { return ~\"{ rec.E(%d); %s; %s } }", name, strings.Join(params, ", "), ev, inner.name, strings.Join(uq, "; ")),
				func(a []string) []string {
					return append([]string{fmt.Sprintf("rec.E(%d)", ev)}, inner.expand(a)...)
				}})
			g.Tag("macro:calls-macro")
		}
	}
	return ms
}

// macroFunc builds a function whose body mixes plain statements and macro calls, in two
// renderings: the source (with calls) and the expansion.
func (g *gen) macroFunc(ms []macro) (src, exp, name string) {
	name = g.Top("Mac")
	plain := func() string {
		k := g.Int(1, 9, "mk")
		switch g.Pick(4, "mstmt") {
		case 0:
			return fmt.Sprintf("x += %d", k)
		case 1:
			return fmt.Sprintf("x *= %d", k%3+2)
		case 2:
			return fmt.Sprintf("rec.E(%d, x)", g.Ev())
		default:
			return "x--"
		}
	}
	var list func(depth int) (s, e []string)
	list = func(depth int) (s, e []string) {
		n := g.Int(2, 5, "mlist-n")
		for i := 0; i < n; i++ {
			switch {
			case g.Chance(2, 5, "mcall"):
				m := ms[g.Pick(len(ms), "mwhich")]
				args := make([]string, m.nparam)
				for j := range args {
					args[j] = plain()
				}
				s = append(s, m.name)
				s = append(s, args...)
				e = append(e, m.expand(args)...)
				g.Tag("macro:call")
			case depth < 2 && g.Chance(1, 4, "mnest"):
				is, ie := list(depth + 1)
				// a nested list never consists of a macro call alone (F-C20-1): a plain
				// statement closes it
				p := plain()
				is, ie = append(is, p), append(ie, p)
				head := g.OneOf("mnest-kind", "if x > -1000 {", "for i := 0; i < 2; i++ {", "{")
				s = append(s, head+"\n"+progen.Indent(strings.Join(is, "\n"))+"}")
				e = append(e, head+"\n"+progen.Indent(strings.Join(ie, "\n"))+"}")
				g.Tag("macro:call-in-nested-block")
			default:
				p := plain()
				s, e = append(s, p), append(e, p)
			}
		}
		return
	}
	s, e := list(0)
	wrap := func(l []string) string {
		return fmt.Sprintf("func %s() {\n\tx := %d\n%s\trec.E(%d, x)\n}", name, 1, progen.Indent(strings.Join(l, "\n")), 999)
	}
	return wrap(s), wrap(e), name
}

// Generate builds one case.
func Generate(t *rapid.T, px string) Case {
	base := c05.Generate(t, px)
	for i, d := range base.Decls {
		// progen.IntExpr negates negative literals as "(--1)", which is a syntax error
		base.Decls[i] = strings.ReplaceAll(d, "(--", "(- -")
	}
	g := &gen{G: progen.New(t, px+"x", 0), imports: map[string]bool{}}
	var c Case
	decls := append([]string{}, base.Decls...)
	want := append([]string{}, base.Decls...)
	calls := []string{base.Entry + "()"}
	if g.Chance(3, 4, "with-extras") {
		d, fn := g.extras()
		decls, want = append(decls, d...), append(want, d...)
		calls = append(calls, fn+"()")
	}
	var defs []string
	if g.Chance(1, 3, "with-macros") {
		c.Macros = true
		ms := g.macroFamily()
		for _, m := range ms {
			defs = append(defs, m.def)
		}
		for i, n := 0, g.Int(1, 2, "n-macro-funcs"); i < n; i++ {
			s, e, fn := g.macroFunc(ms)
			decls, want = append(decls, s), append(want, e)
			calls = append(calls, fn+"()")
		}
	}
	entry := g.Top("Entry")
	ed := fmt.Sprintf("func %s() {\n%s}", entry, progen.Indent(strings.Join(calls, "\n")+"\n"))
	decls, want = append(decls, ed), append(want, ed)

	var imps []string
	for _, p := range []string{"strconv", "strings"} {
		if g.imports[p] {
			imps = append(imps, p)
		}
	}
	var b strings.Builder
	b.WriteString("// generated case " + px + "\npackage p\n\nimport \"verif/rec\"\n")
	switch {
	case len(imps) == 2 && g.Bool("grouped-import"):
		b.WriteString("import (\n\t\"strconv\"\n\t\"strings\"\n)\n")
		g.Tag("imports:grouped")
	default:
		for _, p := range imps {
			b.WriteString("import " + fmt.Sprintf("%q", p) + "\n")
		}
	}
	b.WriteString("\nvar _ = rec.E\n")
	if c.Macros {
		b.WriteString("\n:import \"go/ast\"\n")
		for _, d := range defs {
			b.WriteString("\n" + d + "\n")
		}
	}
	for _, d := range decls {
		b.WriteString("\n" + d + "\n")
	}
	c.Src = b.String()
	c.Want = gobatch.Program{Imports: imps, Decls: want, Entry: entry}
	c.Imports = append([]string{"verif/rec"}, imps...)
	if c.Macros {
		g.Tag("macros")
	} else {
		g.Tag("macro-free")
	}
	if len(imps) >= 1 && g.methods >= 1 && g.sens >= 1 {
		c.NT = "import+method+printer-sensitive-shape"
	} else if c.Macros {
		c.NT = "macro-calls-expanded"
	}
	c.Tags = append(base.Tags, g.TagList()...)
	return c
}
