// C39: preprocessor mode (gomacro -m -w -f file.gomacro) writes the collected
// declarations as equivalent, compilable Go.
// Oracles: the standard go/parser (the written file must parse), structural equality up
// to norm (astx) of its package clause, imports and declarations with the source's (for
// sources with macros: with the expansion known by construction), and the Go toolchain:
// the written file and the source (or its expansion) are both built and run in batches and
// their traces must be equal.
package c39

import (
	"bytes"
	"encoding/json"
	"fmt"
	"go/ast"
	"go/parser"
	"go/token"
	"os"
	"path/filepath"
	"sort"
	"strconv"
	"strings"
	"testing"

	"github.com/cosmos72/gomacro/cmd"
	"pgregory.net/rapid"

	"verif/harness/astx"
	"verif/harness/gobatch"
	"verif/harness/vlib"
)

var rec *vlib.Rec

func TestMain(m *testing.M) {
	rec = vlib.Open("C39")
	known = rec.Known
	excluded = rec.Excluded
	rec.Rule("cases = .gomacro files: package clause, 1-3 imports (single and grouped), the declarations of a C05 control-flow program (functions with all statement kinds), " +
		"in 3 of 4 cases a struct type with value and pointer methods and a function of printer-sensitive shapes (parenthesised composite / pointer receivers, method expressions, " +
		"parenthesised type conversions, precedence-carrying and redundant parentheses, composite literals in if/for/switch headers, labels, select, type switches, grouped const/var/type, " +
		"variadic function literals, defer/recover), in 1 of 3 cases 2-4 ':macro' definitions (permuting, duplicating, wrapping, calling earlier macros) and functions whose " +
		"statement lists (nesting <= 2) call them; each file goes through cmd.Cmd.Main(-m -w -f); non-trivial = file with >= 1 import, >= 1 method and >= 1 printer-sensitive shape, " +
		"or with expanded macro calls; distinct = distinct source texts")
	rec.Assume("oracle: gc toolchain (language go1.18) for 'compiles and behaves the same'; standard go/parser + astx.Norm equality for 'same imports and declarations' (norm: ParenExpr, one-statement blocks transparent)")
	rec.Assume("macros are defined with the ':' force-evaluation prefix (':macro', ':import'), the only way preprocessor mode defines one (gomacro's own *.gomacro files do the same); a plain 'macro' declaration is only collected-and-skipped in -m mode")
	rec.Assume("expected expansion of a macro call is known by construction (templates of ~quasiquote with ~unquote of whole statements); shapes of the C20 findings (call alone in a nested block, return as result) are not generated")
	os.Exit(vlib.Main(m, rec))
}

func scratch() string {
	d := os.Getenv("VERIF_SCRATCH")
	if d == "" {
		d = os.TempDir()
	}
	return d
}

// preprocess runs preprocessor mode on src and returns the text of the written .go file
// and what gomacro printed.
func preprocess(src string) (out string, msgs string, err error) {
	dir, err := os.MkdirTemp(scratch(), "c39-")
	if err != nil {
		return "", "", err
	}
	defer os.RemoveAll(dir)
	in := filepath.Join(dir, "case.gomacro")
	if err := os.WriteFile(in, []byte(src), 0o644); err != nil {
		return "", "", err
	}
	var buf bytes.Buffer
	var mainErr error
	pv := vlib.Try(func() {
		c := cmd.New()
		g := &c.Interp.Comp.Globals
		g.Stdout, g.Stderr = &buf, &buf
		mainErr = c.Main([]string{"-m", "-w", "-f", in})
	})
	if pv != nil {
		return "", buf.String(), fmt.Errorf("preprocessor mode panicked: %v", pv)
	}
	if mainErr != nil {
		return "", buf.String(), fmt.Errorf("preprocessor mode failed: %v", mainErr)
	}
	data, err := os.ReadFile(filepath.Join(dir, "case.go"))
	if err != nil {
		return "", buf.String(), fmt.Errorf("no file written: %v", err)
	}
	return string(data), buf.String(), nil
}

type parsed struct {
	pkg     string
	imports []string
	decls   []ast.Node
	texts   []string // source text of each non-import declaration
}

func parseFile(src string) (*parsed, error) {
	fset := token.NewFileSet()
	f, err := parser.ParseFile(fset, "x.go", src, 0)
	if err != nil {
		return nil, err
	}
	p := &parsed{pkg: f.Name.Name}
	for _, d := range f.Decls {
		if gd, ok := d.(*ast.GenDecl); ok && gd.Tok == token.IMPORT {
			for _, s := range gd.Specs {
				is := s.(*ast.ImportSpec)
				path, _ := strconv.Unquote(is.Path.Value)
				if is.Name != nil {
					path = is.Name.Name + " " + path
				}
				p.imports = append(p.imports, path)
			}
			continue
		}
		p.decls = append(p.decls, d)
		p.texts = append(p.texts, src[fset.Position(d.Pos()).Offset:fset.Position(d.End()).Offset])
	}
	return p, nil
}

// static performs the in-process part of the check: the written file parses with the
// standard parser and has the package clause, imports and (up to norm) declarations the
// source means. It returns the written file as a program for the toolchain.
func static(c Case) (out gobatch.Program, err error) {
	text, msgs, err := preprocess(c.Src)
	if err != nil {
		return out, fmt.Errorf("%v\ngomacro output: %s", err, msgs)
	}
	got, err := parseFile(text)
	if err != nil {
		return out, fmt.Errorf("the written file is not valid Go syntax: %v\ngomacro output: %s\n--- written file\n%s", err, msgs, text)
	}
	want, err := parseFile(c.Want.Source("p"))
	if err != nil {
		return out, vlib.Inconclusive("generator: expected program does not parse: " + err.Error())
	}
	if got.pkg != "p" {
		return out, fmt.Errorf("package clause: written %q, source says p", got.pkg)
	}
	if strings.Join(got.imports, ";") != strings.Join(c.Imports, ";") {
		return out, fmt.Errorf("imports: written %q, source has %q\n--- written file\n%s", got.imports, c.Imports, text)
	}
	if err := astx.EqualNodes(astx.NormNodes(want.decls), astx.NormNodes(got.decls), astx.Structural); err != nil {
		return out, fmt.Errorf("declarations differ from the source's (expansion's): %v\ngomacro output: %s\n--- written file\n%s", err, msgs, text)
	}
	if strings.TrimSpace(msgs) != "" {
		return out, fmt.Errorf("gomacro reported problems on a valid source: %s", msgs)
	}
	out = gobatch.Program{Imports: c.Want.Imports, Decls: got.texts, Entry: c.Want.Entry}
	return out, nil
}

func TestPreprocess(t *testing.T) {
	if rec.ReplayOnly() {
		return
	}
	type stored struct {
		c   Case
		out gobatch.Program
	}
	var cases []stored
	seen := map[string]bool{}
	seq := 0
	n := rec.Scale(80, 1000)
	if k, _ := strconv.Atoi(os.Getenv("C39_N")); k > 0 {
		n = k // development only
	}
	rec.Check(t, n, func(rt *rapid.T) {
		seq++
		c := Generate(rt, fmt.Sprintf("S%dN%d_", rec.Shard(), seq))
		if seen[c.Src] {
			rec.Label("duplicate-program")
			return
		}
		seen[c.Src] = true
		if err := gobatch.Vet(c.Want); err != nil {
			rec.Label("gen-invalid(go/types rejects)")
			rec.Note("generator produced invalid Go: %v", err)
			return
		}
		for _, tag := range c.Tags {
			rec.Label("tag:" + tag)
		}
		if c.NT != "" {
			rec.NT(c.Src)
			rec.Label("nontrivial:" + c.NT)
		}
		out, err := static(c)
		if err != nil {
			if _, inc := err.(vlib.InconclusiveError); inc {
				rt.Fatalf("%v", err)
			}
			replay, _ := json.MarshalIndent(c, "", " ")
			rec.Failf(rt, "c39-static", replay, "json", "%v", err)
		}
		cases = append(cases, stored{c, out})
		if len(cases)%40 == 1 {
			rec.Sample(map[string]interface{}{"source": c.Src})
		}
	})
	if len(cases) == 0 || t.Failed() {
		return
	}
	// toolchain: the written files and the sources, one batch each
	a, b := map[string]gobatch.Program{}, map[string]gobatch.Program{}
	for i, s := range cases {
		id := fmt.Sprintf("c%d", i)
		a[id], b[id] = s.c.Want, s.out
	}
	wantRes, rejA, err := gobatch.OracleBatch(filepath.Join(scratch(), "c39-src"), a)
	if err != nil {
		t.Fatalf("INCONCLUSIVE: source batch: %v", err)
	}
	gotRes, rejB, err := gobatch.OracleBatch(filepath.Join(scratch(), "c39-out"), b)
	if err != nil {
		t.Fatalf("INCONCLUSIVE: written-file batch: %v", err)
	}
	if len(rejA) > 0 {
		rec.LabelN("gen-invalid(gc rejects source)", len(rejA))
		if len(rejA)*100 > len(cases) {
			t.Fatalf("INCONCLUSIVE: gc rejects %d of %d generated sources", len(rejA), len(cases))
		}
	}
	ids := make([]string, 0, len(a))
	for id := range a {
		ids = append(ids, id)
	}
	sort.Strings(ids)
	bad := 0
	for _, id := range ids {
		if _, rej := rejA[id]; rej {
			continue
		}
		i, _ := strconv.Atoi(id[1:])
		c := cases[i].c
		replay, _ := json.MarshalIndent(c, "", " ")
		if msg, rej := rejB[id]; rej {
			bad++
			if bad <= 3 {
				rec.Violation(fmt.Sprintf("c39-build-%d", bad), replay, "json", "the written file does not compile: %s", msg)
			}
			continue
		}
		rec.Label("programs-built-and-run-both-ways")
		if !gotRes[id].Equal(wantRes[id]) {
			bad++
			if bad <= 3 {
				rec.Violation(fmt.Sprintf("c39-run-%d", bad), replay, "json", "the written file behaves differently from the source\n%s", gobatch.Diff(gotRes[id], wantRes[id]))
			}
		}
	}
	if bad > 0 {
		t.Errorf("%d of %d written files do not compile or behave differently", bad, len(cases))
	}
}

// replay re-checks one case (JSON of Case) without rapid.
func replay(content []byte) error {
	var c Case
	if err := json.Unmarshal(content, &c); err != nil {
		return nil
	}
	if err := gobatch.Vet(c.Want); err != nil {
		return nil // outside the property
	}
	out, err := static(c)
	if err != nil {
		return err
	}
	want, err := gobatch.OracleOne(scratch(), c.Want)
	if err != nil {
		return vlib.Inconclusive("source does not build: " + err.Error())
	}
	got, err := gobatch.OracleOne(scratch(), out)
	if err != nil {
		return fmt.Errorf("the written file does not compile: %v", err)
	}
	if !got.Equal(want) {
		return fmt.Errorf("the written file behaves differently from the source\n%s", gobatch.Diff(got, want))
	}
	return nil
}

func TestReplays(t *testing.T) { rec.RunReplays(t, replay) }
