// Package gobatch is the batch differential engine of the group-A properties: programs
// are generated with rapid, run in gomacro, then ALL of them are compiled into one
// Go module by the real toolchain (`go 1.18` language level) and run; traces are
// compared; the first disagreement is shrunk by re-running rapid with an oracle that
// compiles single candidates.
package gobatch

import (
	_ "embed"
	"bytes"
	"encoding/json"
	"flag"
	"fmt"
	"go/ast"
	"go/importer"
	"go/parser"
	"go/token"
	"go/types"
	"os"
	"os/exec"
	"path/filepath"
	"reflect"
	"regexp"
	"sort"
	"strconv"
	"strings"
	"sync"
	"sync/atomic"
	"testing"
	"time"

	"github.com/cosmos72/gomacro/base"
	"github.com/cosmos72/gomacro/classic"
	"github.com/cosmos72/gomacro/fast"
	"github.com/cosmos72/gomacro/imports"
	"pgregory.net/rapid"

	"verif/harness/gobatch/rec"
	"verif/harness/vlib"
)

//go:embed rec/rec.go
var recSource string

// Program is one generated case. All package-level names must start with the prefix
// handed to the generator (cases share a package in the oracle module).
type Program struct {
	Imports []string `json:"imports,omitempty"` // standard-library import paths used (verif/rec is implicit)
	Decls   []string `json:"decls"`             // top-level declarations in dependency order; one Eval each
	Entry   string   `json:"entry"`             // name of the entry function: func <Entry>()
	Tags    []string `json:"tags,omitempty"`    // generator feature tags (evidence histogram, finding signatures)
	NT      string   `json:"nt,omitempty"`      // non-empty: the case is non-trivial; value = class of non-triviality
	Interp  string   `json:"interp,omitempty"`  // "fast" (default) or "classic"
	Options uint64   `json:"options,omitempty"` // extra base.Options bits to switch on in the interpreter
	OneEval bool     `json:"one_eval,omitempty"` // feed all Decls to a single Eval (C16: exercises the sorter)
	Meta    map[string]string `json:"meta,omitempty"` // generator data for Config.NTFunc / Known
}

func (p Program) HasTag(tag string) bool {
	for _, t := range p.Tags {
		if t == tag {
			return true
		}
	}
	return false
}

// Source renders the program as one Go file of package pkg.
func (p Program) Source(pkg string) string {
	var b strings.Builder
	b.WriteString("package " + pkg + "\n\nimport \"verif/rec\"\n")
	for _, imp := range p.Imports {
		b.WriteString("import " + strconv.Quote(imp) + "\n")
	}
	b.WriteString("\nvar _ = rec.E\n")
	for _, d := range p.Decls {
		b.WriteString("\n" + d + "\n")
	}
	return b.String()
}

// Replay text: a JSON header line followed by the source, for human readers.
func (p Program) Replay() []byte {
	h, _ := json.Marshal(p)
	return []byte("//gobatch:" + string(h) + "\n" + p.Source("p"))
}

func ParseReplay(content []byte) (Program, bool) {
	var p Program
	line := content
	if i := bytes.IndexByte(content, '\n'); i >= 0 {
		line = content[:i]
	}
	if !bytes.HasPrefix(line, []byte("//gobatch:")) {
		return p, false
	}
	if err := json.Unmarshal(line[len("//gobatch:"):], &p); err != nil {
		return p, false
	}
	return p, true
}

// Result of running a program on one side.
type Result struct {
	Trace []string
	Panic string // "" or canonical text of the panic that escaped the entry function
	Err   string // interpreter side only: compile error / hang text ("" if none)
}

func (r Result) String() string {
	s := strings.Join(r.Trace, "\n")
	if r.Panic != "" {
		s += "\nESCAPED " + r.Panic
	}
	if r.Err != "" {
		s += "\nERROR " + r.Err
	}
	return s
}

// Diff renders the first disagreement between the interpreter's and the oracle's result.
func Diff(got, want Result) string {
	var b strings.Builder
	if got.Err != want.Err {
		fmt.Fprintf(&b, "gomacro error: %q, compiled Go: %q\n", got.Err, want.Err)
	}
	if got.Panic != want.Panic {
		fmt.Fprintf(&b, "escaped panic: gomacro %q, compiled Go %q\n", got.Panic, want.Panic)
	}
	n := len(got.Trace)
	if len(want.Trace) < n {
		n = len(want.Trace)
	}
	k := 0
	for k < n && got.Trace[k] == want.Trace[k] {
		k++
	}
	if k < n || len(got.Trace) != len(want.Trace) {
		fmt.Fprintf(&b, "traces (gomacro %d events, compiled Go %d events) first differ at event index %d\n", len(got.Trace), len(want.Trace), k)
		lo := k - 4
		if lo < 0 {
			lo = 0
		}
		for i := lo; i < k+4; i++ {
			g, w := "<end>", "<end>"
			if i < len(got.Trace) {
				g = got.Trace[i]
			}
			if i < len(want.Trace) {
				w = want.Trace[i]
			}
			mark := "  "
			if g != w {
				mark = "!="
			}
			fmt.Fprintf(&b, "  [%d] gomacro: %-30s %s compiled Go: %s\n", i, g, mark, w)
			if i >= len(got.Trace) && i >= len(want.Trace) {
				break
			}
		}
	}
	return b.String()
}

func (r Result) Equal(o Result) bool {
	return r.Panic == o.Panic && r.Err == o.Err && reflect.DeepEqual(r.Trace, o.Trace)
}

// ---------------------------------------------------------------- interpreter side

var registerOnce sync.Once

func registerRec() {
	registerOnce.Do(func() {
		imports.Packages["verif/rec"] = imports.Package{
			Name: "rec",
			Binds: map[string]reflect.Value{
				"E":     reflect.ValueOf(rec.E),
				"R":     reflect.ValueOf(rec.R),
				"F":     reflect.ValueOf(rec.F),
				"P":     reflect.ValueOf(rec.P),
				"Yield": reflect.ValueOf(rec.Yield),
				"Par":   reflect.ValueOf(rec.Par),
				"Seq":   reflect.ValueOf(rec.Seq),
				"Apply": reflect.ValueOf(rec.Apply),
				"Fold":  reflect.ValueOf(rec.Fold),
				"Str":   reflect.ValueOf(rec.Str),
				"Err":   reflect.ValueOf(rec.Err),
			},
		}
	})
}

var poisoned atomic.Bool

// Poisoned reports that a program of this process is still running after its time budget
// and an interrupt (only possible with the classic interpreter or a gomacro defect): the
// shared trace recorder is no longer reliable, later programs are not run.
func Poisoned() bool { return poisoned.Load() }

// EvalTimeout bounds one interpreted program (safety net, see DESIGN.md 2.4).
var EvalTimeout = 90 * time.Second

// RunInterp evaluates the program in a fresh interpreter.
func RunInterp(p Program) Result {
	if Poisoned() {
		return Result{Err: "not run: an earlier program of this process could not be stopped and may still write to the trace recorder"}
	}
	r := runInterpT(p, EvalTimeout)
	if strings.HasPrefix(r.Err, "hang") && !Poisoned() {
		// a time budget is never an oracle: on a busy machine a slow run looks like a hang.
		// Only a program that is still running after a second, 20x longer budget, alone,
		// is reported as not terminating.
		r = runInterpT(p, 20*EvalTimeout)
	}
	return r
}

func runInterpT(p Program, timeout time.Duration) Result {
	registerRec()
	rec.Reset()
	done := make(chan Result, 1)
	var interrupt func()
	go func() {
		var r Result
		defer func() { done <- r }()
		if p.Interp == "classic" {
			r = runClassic(p)
		} else {
			r = runFast(p, &interrupt)
		}
	}()
	select {
	case r := <-done:
		return r
	case <-time.After(timeout):
	}
	if interrupt != nil {
		interrupt()
	}
	select {
	case r := <-done:
		r.Err = "hang (interrupted after " + timeout.String() + ")"
		return r // keeps the partial trace: it shows where the program was looping
	case <-time.After(120 * time.Second): // generous: on an overloaded machine the poll of the interrupt flag can be seconds away
	}
	poisoned.Store(true)
	return Result{Err: "hang (not interruptible)", Trace: rec.Take()}
}

func panicText(p interface{}) string {
	// gomacro reports compile errors by panicking with an error carrying positions
	return rec.P(p)
}

func runFast(p Program, interrupt *func()) (r Result) {
	ir := fast.New()
	g := &ir.Comp.Globals
	var sink bytes.Buffer
	g.Stdout, g.Stderr = &sink, &sink
	g.Options |= base.Options(p.Options)
	*interrupt = func() { ir.Interrupt(os.Interrupt) }
	stage := "compile"
	defer func() {
		if pv := recover(); pv != nil {
			if stage == "compile" {
				r.Err = "compile: " + fmt.Sprint(pv)
				r.Trace = nil
			} else {
				r.Trace = rec.Take()
				r.Panic = panicText(pv)
			}
		}
	}()
	ir.Eval(`import "verif/rec"`)
	for _, imp := range p.Imports {
		ir.Eval("import " + strconv.Quote(imp))
	}
	if p.OneEval {
		ir.Eval(strings.Join(p.Decls, "\n"))
	} else {
		for _, d := range p.Decls {
			ir.Eval(d)
		}
	}
	stage = "run"
	rec.Reset()
	ir.Eval(p.Entry + "()")
	r.Trace = rec.Take()
	return r
}

func runClassic(p Program) (r Result) {
	ir := classic.New()
	var sink bytes.Buffer
	ir.Stdout, ir.Stderr = &sink, &sink
	stage := "compile"
	defer func() {
		if pv := recover(); pv != nil {
			if stage == "compile" {
				r.Err = "compile: " + fmt.Sprint(pv)
				r.Trace = nil
			} else {
				r.Trace = rec.Take()
				r.Panic = panicText(pv)
			}
		}
	}()
	ir.Eval(`import "verif/rec"`)
	for _, imp := range p.Imports {
		ir.Eval("import " + strconv.Quote(imp))
	}
	for _, d := range p.Decls {
		ir.Eval(d)
	}
	stage = "run"
	rec.Reset()
	ir.Eval(p.Entry + "()")
	r.Trace = rec.Take()
	return r
}

// ---------------------------------------------------------------- vetting with go/types (O2)

var (
	vetMu       sync.Mutex
	vetFset     = token.NewFileSet()
	vetImporter types.Importer
	recPkg      *types.Package
)

type vetImp struct{ std types.Importer }

func (v vetImp) Import(path string) (*types.Package, error) {
	if path == "verif/rec" {
		return recPkg, nil
	}
	return v.std.Import(path)
}

func initVet() {
	if vetImporter != nil {
		return
	}
	std := importer.ForCompiler(vetFset, "source", nil)
	f, err := parser.ParseFile(vetFset, "rec.go", recSource, 0)
	if err != nil {
		panic(err)
	}
	conf := types.Config{Importer: std}
	recPkg, err = conf.Check("verif/rec", vetFset, []*ast.File{f}, nil)
	if err != nil {
		panic(err)
	}
	vetImporter = vetImp{std}
}

// Vet type-checks the program with go/types at language level go1.18. A program it
// rejects is outside "valid Go" and is a generator bug, not a case.
func Vet(p Program) error {
	vetMu.Lock()
	defer vetMu.Unlock()
	initVet()
	fset := token.NewFileSet()
	f, err := parser.ParseFile(fset, "case.go", p.Source("p"), 0)
	if err != nil {
		return err
	}
	conf := types.Config{Importer: vetImporter, GoVersion: "go1.18"}
	_, err = conf.Check("p", fset, []*ast.File{f}, nil)
	return err
}

// ---------------------------------------------------------------- oracle module (O1)

func goCmd(dir string, args ...string) ([]byte, error) {
	cmd := exec.Command("go", args...)
	cmd.Dir = dir
	cmd.Env = append(os.Environ(), "GOFLAGS=-mod=mod", "GOPROXY=off", "GOSUMDB=off", "GOTOOLCHAIN=local", "GOWORK=off", "GO111MODULE=on")
	return cmd.CombinedOutput()
}

const oracleMain = `package main

import (
	"fmt"
	"os"
	"bufio"
	"verif/rec"
%s)

var out = bufio.NewWriter(os.Stdout)

func run(id string, f func()) {
	rec.Reset()
	esc := ""
	func() {
		defer func() {
			if p := recover(); p != nil {
				esc = rec.P(p)
			}
		}()
		f()
	}()
	fmt.Fprintf(out, "#CASE %%s\n", id)
	for _, l := range rec.Take() {
		fmt.Fprintf(out, " %%s\n", l)
	}
	if esc != "" {
		fmt.Fprintf(out, "!%%s\n", esc)
	}
}

func main() {
	defer out.Flush()
%s}
`

type caseRef struct {
	id string
	p  Program
}

// runOracle builds one module holding all cases and runs it. Cases that gc rejects are
// returned in rejected (id -> compiler message).
func runOracle(dir string, cases []caseRef) (map[string]Result, map[string]string, error) {
	rejected := map[string]string{}
	const npk = 16
	for attempt := 0; attempt < 4; attempt++ {
		os.RemoveAll(dir)
		if err := os.MkdirAll(filepath.Join(dir, "rec"), 0o755); err != nil {
			return nil, nil, err
		}
		os.WriteFile(filepath.Join(dir, "go.mod"), []byte("module verif\n\ngo 1.18\n"), 0o644)
		os.WriteFile(filepath.Join(dir, "rec", "rec.go"), []byte(recSource), 0o644)
		var imps, calls strings.Builder
		used := map[int]bool{}
		n := 0
		for _, c := range cases {
			if _, bad := rejected[c.id]; bad {
				continue
			}
			k := n % npk
			n++
			pk := fmt.Sprintf("p%02d", k)
			if !used[k] {
				used[k] = true
				os.MkdirAll(filepath.Join(dir, pk), 0o755)
				fmt.Fprintf(&imps, "\t\"verif/%s\"\n", pk)
			}
			os.WriteFile(filepath.Join(dir, pk, "case_"+c.id+"_x.go"), []byte(c.p.Source(pk)), 0o644)
			fmt.Fprintf(&calls, "\trun(%q, %s.%s)\n", c.id, pk, c.p.Entry)
		}
		os.WriteFile(filepath.Join(dir, "main.go"), []byte(fmt.Sprintf(oracleMain, imps.String(), calls.String())), 0o644)
		outb, err := goCmd(dir, "build", "-gcflags=-e", "-o", "oracle.bin", ".")
		if err != nil {
			// attribute compiler errors to cases
			re := regexp.MustCompile(`case_([A-Za-z0-9]+)_x\.go:\d+:\d+: (.*)`)
			found := false
			for _, m := range re.FindAllStringSubmatch(string(outb), -1) {
				if _, ok := rejected[m[1]]; !ok {
					rejected[m[1]] = m[2]
					found = true
				}
			}
			if !found {
				return nil, rejected, fmt.Errorf("oracle build failed: %v\n%s", err, tailStr(string(outb), 3000))
			}
			continue
		}
		cmd := exec.Command(filepath.Join(dir, "oracle.bin"))
		cmd.Dir = dir
		var stdout, stderr bytes.Buffer
		cmd.Stdout, cmd.Stderr = &stdout, &stderr
		if err := runWithTimeout(cmd, 10*time.Minute); err != nil {
			return nil, rejected, fmt.Errorf("oracle run failed: %v\n%s", err, tailStr(stderr.String(), 3000))
		}
		return parseOracle(stdout.String()), rejected, nil
	}
	return nil, rejected, fmt.Errorf("oracle build: too many rounds of rejected cases")
}

func runWithTimeout(cmd *exec.Cmd, d time.Duration) error {
	if err := cmd.Start(); err != nil {
		return err
	}
	done := make(chan error, 1)
	go func() { done <- cmd.Wait() }()
	select {
	case err := <-done:
		return err
	case <-time.After(d):
		cmd.Process.Kill()
		return fmt.Errorf("timeout after %v", d)
	}
}

func tailStr(s string, n int) string {
	if len(s) > n {
		return "..." + s[len(s)-n:]
	}
	return s
}

func parseOracle(s string) map[string]Result {
	res := map[string]Result{}
	var cur string
	var r Result
	flush := func() {
		if cur != "" {
			res[cur] = r
		}
	}
	for _, line := range strings.Split(s, "\n") {
		switch {
		case strings.HasPrefix(line, "#CASE "):
			flush()
			cur = strings.TrimPrefix(line, "#CASE ")
			r = Result{}
		case strings.HasPrefix(line, " "):
			r.Trace = append(r.Trace, line[1:])
		case strings.HasPrefix(line, "!"):
			r.Panic = line[1:]
		}
	}
	flush()
	return res
}

// OracleOne compiles and runs a single program (used while shrinking and for replays).
func OracleOne(scratch string, p Program) (Result, error) {
	dir, err := os.MkdirTemp(scratch, "one-")
	if err != nil {
		return Result{}, err
	}
	defer os.RemoveAll(dir)
	res, rej, err := runOracle(filepath.Join(dir, "m"), []caseRef{{"c0", p}})
	if err != nil {
		return Result{}, err
	}
	if msg, ok := rej["c0"]; ok {
		return Result{}, fmt.Errorf("rejected by gc: %s", msg)
	}
	return res["c0"], nil
}

// ---------------------------------------------------------------- the engine

// Config of one differential run.
type Config struct {
	Rec  *vlib.Rec
	Name string // key prefix for violations / scratch dirs
	N    int    // programs per shard
	// Gen builds one program; px is the prefix every package-level name must carry.
	Gen func(t *rapid.T, px string) Program
	// Known classifies a disagreement: return the id of the known finding it belongs
	// to ("" if none). Only consulted for ids listed as "known" in known_findings.json.
	Known func(p Program, interp, oracle Result) string
	// Skip lets a check exclude a generated program by construction (return the finding
	// id or a label starting with "excluded:"); "" keeps it.
	Skip func(p Program) string
	// NTFunc, if set, decides non-triviality from the program and its interpreter run
	// (e.g. "a jump was actually taken"); it overrides Program.NT.
	NTFunc func(p Program, interp Result) string
	// Interp, if set, replaces RunInterp as the interpreter-side runner (REPL histories,
	// generic text, preprocessor mode ...). It must be deterministic and isolated.
	Interp func(p Program) Result
	// OracleOf, if set, maps a program to the program that the Go toolchain compiles
	// and runs as its oracle (e.g. the hand-specialised copy of a generic template, or a
	// REPL history rendered as one function). Default: the program itself.
	OracleOf func(p Program) Program
	// ShrinkSeconds bounds pass B (default 60 quick / 240 thorough).
	ShrinkSeconds int
}

func scratchDir() string {
	d := os.Getenv("VERIF_SCRATCH")
	if d == "" {
		d = os.TempDir()
	}
	return d
}

type stored struct {
	id     string
	p      Program
	interp Result
}

// Run executes pass A (generate + interpret), the oracle build, the comparison and, on
// disagreement, pass B (shrink).
func Run(t *testing.T, cfg Config) {
	r := cfg.Rec
	if r.ReplayOnly() {
		return
	}
	var cases []stored
	seen := map[string]bool{}
	seq := 0
	gen := func(rt *rapid.T) (Program, string, bool) {
		seq++
		px := fmt.Sprintf("S%dN%d_", r.Shard(), seq)
		p := cfg.Gen(rt, px)
		if cfg.Skip != nil {
			if why := cfg.Skip(p); why != "" {
				if strings.HasPrefix(why, "excluded:") {
					r.Label(why)
				} else {
					r.Excluded(why)
				}
				return p, px, false
			}
		}
		return p, px, true
	}
	r.Check(t, cfg.N, func(rt *rapid.T) {
		p, _, ok := gen(rt)
		if !ok {
			return
		}
		if err := Vet(cfg.oracleOf(p)); err != nil {
			r.Label("gen-invalid(go/types rejects)")
			r.Note("generator produced invalid Go: %v\n%s", err, tailStr(p.Source("p"), 1500))
			return
		}
		src := p.Source("p")
		if seen[src] {
			r.Label("duplicate-program")
			return
		}
		seen[src] = true
		res := cfg.runInterp(p)
		id := fmt.Sprintf("%dx%d", r.Shard(), len(cases))
		cases = append(cases, stored{id, p, res})
		for _, tag := range p.Tags {
			r.Label("tag:" + tag)
		}
		nt := p.NT
		if cfg.NTFunc != nil {
			nt = cfg.NTFunc(p, res)
		}
		if nt != "" {
			r.NT(src)
			r.Label("nontrivial:" + nt)
		}
		if len(cases)%50 == 1 {
			r.Sample(map[string]interface{}{"program": src, "trace": res.Trace, "escaped_panic": res.Panic})
		}
	})
	if len(cases) == 0 {
		return
	}
	refs := make([]caseRef, len(cases))
	for i, c := range cases {
		refs[i] = caseRef{c.id, cfg.oracleOf(c.p)}
	}
	dir := filepath.Join(scratchDir(), "oracle-"+cfg.Name)
	t0 := time.Now()
	want, rejected, err := runOracle(dir, refs)
	os.RemoveAll(dir)
	if err != nil {
		t.Fatalf("INCONCLUSIVE: %v", err)
	}
	r.Extra("oracle_build_run_s", time.Since(t0).Seconds())
	r.LabelN("programs-compared-with-gc", len(cases)-len(rejected))
	if len(rejected) > 0 {
		r.LabelN("gen-invalid(gc rejects, go/types accepted)", len(rejected))
		ids := make([]string, 0, len(rejected))
		for id := range rejected {
			ids = append(ids, id)
		}
		sort.Strings(ids)
		r.Note("gc rejected %d programs, e.g. %s: %s", len(rejected), ids[0], rejected[ids[0]])
		if len(rejected)*200 > len(cases) && len(rejected) > 3 {
			t.Fatalf("INCONCLUSIVE: gc rejects %d of %d programs that go/types accepted", len(rejected), len(cases))
		}
	}
	table := map[string]Result{}
	var bad []stored
	for _, c := range cases {
		if _, rej := rejected[c.id]; rej {
			continue
		}
		w, ok := want[c.id]
		if !ok {
			t.Fatalf("INCONCLUSIVE: oracle produced no output for case %s", c.id)
		}
		table[c.p.Source("p")] = w
		if c.interp.Panic != "" || w.Panic != "" {
			r.Label("escaped-panic")
		}
		if strings.HasPrefix(c.interp.Err, "not run:") {
			r.Label("not-compared(process poisoned by a non-interruptible hang)")
			continue
		}
		if !c.interp.Equal(w) {
			if cfg.Known != nil {
				if id := cfg.Known(c.p, c.interp, w); id != "" && r.Known(id) {
					r.Excluded(id)
					continue
				}
			}
			bad = append(bad, c)
		}
	}
	if len(bad) == 0 {
		return
	}
	// report up to 3 unshrunk disagreements, then shrink the first
	for i, c := range bad {
		if i >= 3 {
			break
		}
		w := table[c.p.Source("p")]
		r.Violation(fmt.Sprintf("%s-mismatch-%d", cfg.Name, i), c.p.Replay(), "go",
			"interpreter and compiled Go disagree\n%s", Diff(c.interp, w))
	}
	t.Errorf("%d of %d programs disagree with compiled Go", len(bad), len(cases))
	shrink := cfg.ShrinkSeconds
	if shrink == 0 {
		shrink = r.Scale(60, 240)
	}
	passB(t, cfg, table, shrink)
}

func passB(t *testing.T, cfg Config, table map[string]Result, seconds int) {
	r := cfg.Rec
	seq := 0
	memo := map[string]Result{}
	deadline := time.Now().Add(time.Duration(seconds) * time.Second)
	t.Run("shrink", func(t *testing.T) {
		flag.Set("rapid.shrinktime", fmt.Sprintf("%ds", seconds))
		r.Check(t, cfg.N, func(rt *rapid.T) {
			seq++
			px := fmt.Sprintf("S%dN%d_", r.Shard(), seq)
			p := cfg.Gen(rt, px)
			if cfg.Skip != nil && cfg.Skip(p) != "" {
				return
			}
			if Vet(cfg.oracleOf(p)) != nil {
				return
			}
			src := p.Source("p")
			w, ok := table[src]
			if !ok {
				w, ok = memo[src]
			}
			if !ok {
				if time.Now().After(deadline) {
					return // budget exhausted: treat unknown candidates as passing
				}
				var err error
				w, err = OracleOne(scratchDir(), cfg.oracleOf(p))
				if err != nil {
					return
				}
				memo[src] = w
			}
			got := cfg.runInterp(p)
			if strings.HasPrefix(got.Err, "not run:") {
				return // process poisoned by a non-interruptible hang: not a disagreement
			}
			if !got.Equal(w) {
				if cfg.Known != nil {
					if id := cfg.Known(p, got, w); id != "" && r.Known(id) {
						return
					}
				}
				r.Failf(rt, cfg.Name+"-mismatch-0", p.Replay(), "go",
					"interpreter and compiled Go disagree (shrunk)\n%s", Diff(got, w))
			}
		})
	})
}

func (cfg *Config) runInterp(p Program) Result {
	if cfg.Interp != nil {
		return cfg.Interp(p)
	}
	return RunInterp(p)
}

func (cfg *Config) oracleOf(p Program) Program {
	if cfg.OracleOf != nil {
		return cfg.OracleOf(p)
	}
	return p
}

// OracleBatch compiles and runs many programs in one module (keys are case ids made of
// letters and digits only); rejected maps the ids gc refused to its message.
func OracleBatch(dir string, progs map[string]Program) (results map[string]Result, rejected map[string]string, err error) {
	ids := make([]string, 0, len(progs))
	for id := range progs {
		ids = append(ids, id)
	}
	sort.Strings(ids)
	refs := make([]caseRef, len(ids))
	for i, id := range ids {
		refs[i] = caseRef{id, progs[id]}
	}
	defer os.RemoveAll(dir)
	return runOracle(dir, refs)
}

// ReplayerWith is Replayer for checks that use Config.Interp / Config.OracleOf.
func ReplayerWith(cfg Config) vlib.Replayer {
	return func(content []byte) error {
		p, ok := ParseReplay(content)
		if !ok {
			return nil
		}
		o := cfg.oracleOf(p)
		if err := Vet(o); err != nil {
			return nil
		}
		w, err := OracleOne(scratchDir(), o)
		if err != nil {
			return vlib.Inconclusive("oracle: " + err.Error())
		}
		got := cfg.runInterp(p)
		if strings.HasPrefix(got.Err, "not run:") {
			return vlib.Inconclusive(got.Err)
		}
		if !got.Equal(w) {
			return fmt.Errorf("interpreter and compiled Go disagree\n%s", Diff(got, w))
		}
		return nil
	}
}

// Replayer returns the replay function of a gobatch-based check.
func Replayer(known func(p Program, interp, oracle Result) string) vlib.Replayer {
	return func(content []byte) error {
		p, ok := ParseReplay(content)
		if !ok {
			return nil
		}
		if err := Vet(p); err != nil {
			return nil // not valid Go: outside the property
		}
		w, err := OracleOne(scratchDir(), p)
		if err != nil {
			return vlib.Inconclusive("oracle: " + err.Error())
		}
		got := RunInterp(p)
		if strings.HasPrefix(got.Err, "not run:") {
			return vlib.Inconclusive(got.Err)
		}
		if !got.Equal(w) {
			return fmt.Errorf("interpreter and compiled Go disagree\n%s", Diff(got, w))
		}
		return nil
	}
}
