package gobatch

// RegisterRec makes the package "verif/rec" importable by interpreters of this
// process (idempotent). RunInterp does it implicitly.
func RegisterRec() { registerRec() }
