// Package rec is the execution-trace recorder shared, from the very same source, by
// the compiled oracle program and (through gomacro's import table) by the interpreted
// program. All formatting happens here, in compiled code, on both sides.
package rec

import (
	"fmt"
	"math"
	"reflect"
	"runtime"
	"sort"
	"strings"
	"sync"
)

var (
	mu  sync.Mutex
	buf []string
)

// Reset clears the trace.
func Reset() { mu.Lock(); buf = nil; mu.Unlock() }

// Take returns the trace recorded so far and clears it.
func Take() []string {
	mu.Lock()
	b := buf
	buf = nil
	mu.Unlock()
	return b
}

// E records one event: the canonical text of every value.
func E(vals ...interface{}) {
	parts := make([]string, len(vals))
	for i, v := range vals {
		parts[i] = F(v)
	}
	s := strings.Join(parts, " ")
	mu.Lock()
	if len(buf) < 20000 {
		buf = append(buf, s)
	}
	mu.Unlock()
}

// Yield is a scheduling point that generated concurrent programs may call.
func Yield() { runtime.Gosched() }

// F is the canonical, type-name-free text of a value.
func F(v interface{}) string {
	if v == nil {
		return "nil"
	}
	if e, ok := v.(error); ok {
		if _, ok := v.(runtime.Error); ok {
			return "rterr:" + Class(e.Error())
		}
		return "error(" + fmt.Sprintf("%q", e.Error()) + ")"
	}
	return fv(reflect.ValueOf(v), 0)
}

func fv(v reflect.Value, depth int) string {
	if !v.IsValid() {
		return "nil"
	}
	if depth > 6 {
		return "..."
	}
	switch v.Kind() {
	case reflect.Bool:
		if v.Bool() {
			return "true"
		}
		return "false"
	case reflect.Int, reflect.Int8, reflect.Int16, reflect.Int32, reflect.Int64:
		return fmt.Sprintf("%d", v.Int())
	case reflect.Uint, reflect.Uint8, reflect.Uint16, reflect.Uint32, reflect.Uint64, reflect.Uintptr:
		return fmt.Sprintf("%du", v.Uint())
	case reflect.Float32:
		return ff(v.Float(), 32)
	case reflect.Float64:
		return ff(v.Float(), 64)
	case reflect.Complex64:
		c := v.Complex()
		return "(" + ff(real(c), 32) + "," + ff(imag(c), 32) + "i)"
	case reflect.Complex128:
		c := v.Complex()
		return "(" + ff(real(c), 64) + "," + ff(imag(c), 64) + "i)"
	case reflect.String:
		if s := v.String(); len(s) > 96 {
			// long strings (generated programs may double a string in a loop): prefix,
			// suffix, length and a checksum identify the value without megabyte traces
			var sum uint32
			for i := 0; i < len(s); i++ {
				sum = sum*31 + uint32(s[i])
			}
			return fmt.Sprintf("%q...%q(len=%d,sum=%08x)", s[:32], s[len(s)-16:], len(s), sum)
		}
		return fmt.Sprintf("%q", v.String())
	case reflect.Slice:
		if v.IsNil() {
			return "[]nil"
		}
		return fmt.Sprintf("[%d/%d]", v.Len(), v.Cap()) + seq(v, depth)
	case reflect.Array:
		return seq(v, depth)
	case reflect.Map:
		if v.IsNil() {
			return "map-nil"
		}
		items := make([]string, 0, v.Len())
		it := v.MapRange()
		for it.Next() {
			items = append(items, fv(it.Key(), depth+1)+":"+fv(it.Value(), depth+1))
		}
		sort.Strings(items)
		return "map[" + strings.Join(items, " ") + "]"
	case reflect.Struct:
		items := make([]string, v.NumField())
		for i := range items {
			items[i] = fv(v.Field(i), depth+1)
		}
		return "{" + strings.Join(items, " ") + "}"
	case reflect.Ptr:
		if v.IsNil() {
			return "ptr-nil"
		}
		return "&" + fv(v.Elem(), depth+1)
	case reflect.Interface:
		if v.IsNil() {
			return "nil"
		}
		return fv(v.Elem(), depth)
	case reflect.Func:
		if v.IsNil() {
			return "func-nil"
		}
		return "func"
	case reflect.Chan:
		if v.IsNil() {
			return "chan-nil"
		}
		return fmt.Sprintf("chan(%d/%d)", v.Len(), v.Cap())
	}
	return "?" + v.Kind().String()
}

func seq(v reflect.Value, depth int) string {
	items := make([]string, v.Len())
	for i := range items {
		items[i] = fv(v.Index(i), depth+1)
	}
	return "[" + strings.Join(items, " ") + "]"
}

func ff(f float64, bits int) string {
	if f != f {
		return "NaN"
	}
	if bits == 32 {
		return fmt.Sprintf("f32:%08x", math.Float32bits(float32(f)))
	}
	return fmt.Sprintf("f64:%016x", math.Float64bits(f))
}

// Class maps the message of a run-time error (Go runtime's or reflect's wording) to
// the class of the error; classes, not texts, are compared.
func Class(msg string) string {
	m := strings.ToLower(msg)
	has := func(s string) bool { return strings.Contains(m, s) }
	switch {
	case has("divide by zero"):
		return "div0"
	case has("negative shift"):
		return "negshift"
	case has("nil map"):
		return "nilmap"
	case has("slice bounds out of range"), has("slice index out of bounds"), has("slice3"), has("slice of unaddressable"):
		return "slicebounds"
	case has("index out of range"):
		return "index"
	case has("len > cap"), has("len larger than cap"):
		return "makesize"
	case has("nil pointer dereference"), has("invalid memory address"), has("on zero value"), has("nil pointer"), has("call of nil function"):
		return "nilptr"
	case has("interface conversion"), has("type assertion"):
		return "typeassert"
	case has("close of closed channel"):
		return "closeclosed"
	case has("close of nil channel"):
		return "closenil"
	case has("send on closed channel"):
		return "sendclosed"
	case has("makeslice"), has("makechan"), has("makemap"), has("len out of range"), has("cap out of range"), has("negative len"), has("negative cap"):
		return "makesize"
	case has("hash of unhashable"), has("unhashable"):
		return "unhashable"
	case has("comparing uncomparable"), has("uncomparable"):
		return "uncomparable"
	case has("cannot convert slice with length"):
		return "slice2array"
	}
	return "other:" + msg
}

// P is the canonical text of a value recovered from a panic: run-time errors are
// reduced to their class whatever their Go type (the interpreter raises many of them
// through reflect, as strings or *reflect.ValueError), user values are kept.
func P(p interface{}) string {
	if p == nil {
		return "panic(nil)"
	}
	var msg string
	switch x := p.(type) {
	case runtime.Error:
		return "panic(rterr:" + Class(x.Error()) + ")"
	case error:
		msg = x.Error()
	case string:
		msg = x
	case fmt.Stringer:
		func() {
			defer func() { recover() }()
			msg = x.String()
		}()
	}
	if msg != "" {
		if c := Class(msg); !strings.HasPrefix(c, "other:") {
			return "panic(rterr:" + c + ")"
		}
	}
	return "panic(" + F(p) + ")"
}

// R records the result of a recover() call.
func R(tag string, p interface{}) {
	if p == nil {
		E(tag, "recovered-nil")
		return
	}
	s := P(p)
	mu.Lock()
	buf = append(buf, F(tag)+" "+s)
	mu.Unlock()
}

// Par calls f(0) .. f(n-1), each from its own fresh goroutine, all released at the same
// moment, and returns the results in index order. A panic of f is returned as -1.
func Par(n int, f func(int) int) []int {
	res := make([]int, n)
	var wg sync.WaitGroup
	start := make(chan struct{})
	for i := 0; i < n; i++ {
		wg.Add(1)
		go func(i int) {
			defer wg.Done()
			defer func() {
				if recover() != nil {
					res[i] = -1
				}
			}()
			<-start
			res[i] = f(i)
		}(i)
	}
	close(start)
	wg.Wait()
	return res
}

// Seq calls f(0) .. f(n-1) from one fresh goroutine (not the caller's) and returns the results.
func Seq(n int, f func(int) int) []int {
	res := make([]int, n)
	done := make(chan struct{})
	go func() {
		defer close(done)
		for i := 0; i < n; i++ {
			res[i] = f(i)
		}
	}()
	<-done
	return res
}

// Apply calls a callback taking and returning a string, from compiled code.
func Apply(f func(string) string, s string) string { return f(s) }

// Fold calls f left to right over xs from compiled code.
func Fold(f func(acc, x int) int, xs []int) int {
	acc := 0
	for _, x := range xs {
		acc = f(acc, x)
	}
	return acc
}

// Str and Err receive an interpreted value through a compiled interface type, which is
// how compiled code can see the methods of an interpreted type (through the proxy).
func Str(s fmt.Stringer) string { return fmt.Sprint(s) + "|" + s.String() }
func Err(e error) string       { return fmt.Sprintf("%v|%s", e, e.Error()) }
