// Lockstep comparison of a standard-library go/types description (the original)
// with gomacro's go/types fork (the converted copy).
package c30

import (
	"fmt"
	"go/constant"
	"go/token"
	gt "go/types"
	"regexp"
	"sort"
	"strings"

	xt "github.com/cosmos72/gomacro/go/types"
)

// comparer walks an original type and its converted twin in lockstep. It keeps the
// correspondence original named type -> converted named type, which must be a
// bijection (type identity is preserved: one original named type is always the same
// converted object, two different originals never share one).
type comparer struct {
	fwd   map[*gt.Named]*xt.Named
	rev   map[*xt.Named]*gt.Named
	errs  []string
	stats map[string]int
	excl  map[string]int // known finding id -> cases masked
}

// known is set by the test: is finding id registered as "known" (not fixed)?
var known = func(id string) bool { return false }

func (c *comparer) masked(id string) bool {
	if known(id) {
		c.excl[id]++
		return true
	}
	return false
}

func newComparer() *comparer {
	return &comparer{fwd: map[*gt.Named]*xt.Named{}, rev: map[*xt.Named]*gt.Named{}, stats: map[string]int{}, excl: map[string]int{}}
}

func (c *comparer) errf(format string, args ...interface{}) {
	if len(c.errs) < 20 {
		c.errs = append(c.errs, fmt.Sprintf(format, args...))
	}
}

func (c *comparer) count(label string) { c.stats[label]++ }

// isGenericNode reports whether the original type node belongs to the generic part of
// the language that the converter does not support by design ("importing generic
// functions or types is not supported yet"): the comparison stops at such a node.
func isGenericNode(g gt.Type) bool {
	switch g := g.(type) {
	case *gt.TypeParam, *gt.Union:
		return true
	case *gt.Named:
		if g.TypeArgs().Len() > 0 || g.TypeParams().Len() > 0 {
			return true
		}
		if g.Obj().Pkg() == nil && g.Obj().Name() == "comparable" {
			return true
		}
	case *gt.Signature:
		return g.TypeParams().Len() > 0 || g.RecvTypeParams().Len() > 0
	case *gt.Interface:
		return !g.IsMethodSet() || g.IsComparable()
	}
	return false
}

// shallowGeneric: does the printed form of g (which stops at named types) show a generic node?
func shallowGeneric(g gt.Type, depth int) bool {
	if g == nil || depth > 30 {
		return false
	}
	if isGenericNode(g) {
		return true
	}
	switch g := g.(type) {
	case *gt.Array:
		return shallowGeneric(g.Elem(), depth+1)
	case *gt.Slice:
		return shallowGeneric(g.Elem(), depth+1)
	case *gt.Pointer:
		return shallowGeneric(g.Elem(), depth+1)
	case *gt.Chan:
		return shallowGeneric(g.Elem(), depth+1)
	case *gt.Map:
		return shallowGeneric(g.Key(), depth+1) || shallowGeneric(g.Elem(), depth+1)
	case *gt.Tuple:
		for i := 0; i < g.Len(); i++ {
			if shallowGeneric(g.At(i).Type(), depth+1) {
				return true
			}
		}
	case *gt.Signature:
		return shallowGeneric(g.Params(), depth+1) || shallowGeneric(g.Results(), depth+1)
	case *gt.Struct:
		for i := 0; i < g.NumFields(); i++ {
			if shallowGeneric(g.Field(i).Type(), depth+1) {
				return true
			}
		}
	case *gt.Interface:
		for i := 0; i < g.NumExplicitMethods(); i++ {
			if shallowGeneric(g.ExplicitMethod(i).Type(), depth+1) {
				return true
			}
		}
		for i := 0; i < g.NumEmbeddeds(); i++ {
			if shallowGeneric(g.EmbeddedType(i), depth+1) {
				return true
			}
		}
	}
	return false
}

// embedsGeneric: is a generic node reachable from g through embedded fields / embedded
// interfaces only (what decides the method set)?
func embedsGeneric(g gt.Type, seen map[gt.Type]bool) bool {
	if g == nil || seen[g] {
		return false
	}
	seen[g] = true
	if isGenericNode(g) {
		return true
	}
	if p, ok := g.(*gt.Pointer); ok {
		return embedsGeneric(p.Elem(), seen)
	}
	switch u := g.Underlying().(type) {
	case *gt.Struct:
		for i := 0; i < u.NumFields(); i++ {
			if f := u.Field(i); f.Embedded() && embedsGeneric(f.Type(), seen) {
				return true
			}
		}
	case *gt.Interface:
		if isGenericNode(u) {
			return true
		}
		for i := 0; i < u.NumEmbeddeds(); i++ {
			if embedsGeneric(u.EmbeddedType(i), seen) {
				return true
			}
		}
	}
	return false
}

func pkgPath(p *gt.Package) string {
	if p == nil {
		return "<nil>"
	}
	return p.Path() + " (" + p.Name() + ")"
}
func xpkgPath(p *xt.Package) string {
	if p == nil {
		return "<nil>"
	}
	return p.Path() + " (" + p.Name() + ")"
}

// universe objects have a nil package in go/types; the converter keeps them in the
// package with empty path that Converter.Init creates.
func samePkg(g *gt.Package, x *xt.Package) bool {
	if g == nil {
		return x == nil || x.Path() == ""
	}
	return x != nil && g.Path() == x.Path() && g.Name() == x.Name()
}

func (c *comparer) typ(at string, g gt.Type, x xt.Type) {
	if g == nil || x == nil {
		if (g == nil) != (x == nil) {
			c.errf("%s: original type %v, converted type %v", at, g, x)
		}
		return
	}
	g = gt.Unalias(g)
	if isGenericNode(g) {
		c.count("excluded:generic-node")
		return
	}
	switch g := g.(type) {
	case *gt.Basic:
		xb, ok := x.(*xt.Basic)
		if !ok {
			c.errf("%s: original %v is basic, converted is %T %v", at, g, x, x)
			return
		}
		c.count("node:basic")
		if int(g.Kind()) != int(xb.Kind()) || int(g.Info()) != int(xb.Info()) {
			c.errf("%s: basic type %v (kind %d info %d) converted to %v (kind %d info %d)", at, g, g.Kind(), g.Info(), xb, xb.Kind(), xb.Info())
		}
		// byte/rune are alias spellings of uint8/int32: not a type difference (counted)
		if g.Name() != xb.Name() {
			if (g.Name() == "byte" && xb.Name() == "uint8") || (g.Name() == "rune" && xb.Name() == "int32") {
				c.count("alias-spelling:" + g.Name() + "->" + xb.Name())
			} else {
				c.errf("%s: basic type %q converted to %q", at, g.Name(), xb.Name())
			}
		}
	case *gt.Named:
		xn, ok := x.(*xt.Named)
		if !ok {
			c.errf("%s: original %v is a named type, converted is %T %v", at, g, x, x)
			return
		}
		c.named(at, g, xn)
	case *gt.Pointer:
		xp, ok := x.(*xt.Pointer)
		if !ok {
			c.errf("%s: original %v is a pointer, converted is %T %v", at, g, x, x)
			return
		}
		c.count("node:pointer")
		c.typ(at+".elem", g.Elem(), xp.Elem())
	case *gt.Slice:
		xs, ok := x.(*xt.Slice)
		if !ok {
			c.errf("%s: original %v is a slice, converted is %T %v", at, g, x, x)
			return
		}
		c.count("node:slice")
		c.typ(at+".elem", g.Elem(), xs.Elem())
	case *gt.Array:
		xa, ok := x.(*xt.Array)
		if !ok {
			c.errf("%s: original %v is an array, converted is %T %v", at, g, x, x)
			return
		}
		c.count("node:array")
		if g.Len() != xa.Len() {
			c.errf("%s: array length %d converted to %d", at, g.Len(), xa.Len())
		}
		c.typ(at+".elem", g.Elem(), xa.Elem())
	case *gt.Chan:
		xc, ok := x.(*xt.Chan)
		if !ok {
			c.errf("%s: original %v is a chan, converted is %T %v", at, g, x, x)
			return
		}
		c.count(fmt.Sprintf("node:chan-dir%d", g.Dir()))
		// SendRecv, SendOnly, RecvOnly are declared in the same order in both packages
		gd := map[gt.ChanDir]string{gt.SendRecv: "chan", gt.SendOnly: "chan<-", gt.RecvOnly: "<-chan"}[g.Dir()]
		xd := map[xt.ChanDir]string{xt.SendRecv: "chan", xt.SendOnly: "chan<-", xt.RecvOnly: "<-chan"}[xc.Dir()]
		if gd != xd {
			c.errf("%s: channel direction %q converted to %q", at, gd, xd)
		}
		c.typ(at+".elem", g.Elem(), xc.Elem())
	case *gt.Map:
		xm, ok := x.(*xt.Map)
		if !ok {
			c.errf("%s: original %v is a map, converted is %T %v", at, g, x, x)
			return
		}
		c.count("node:map")
		c.typ(at+".key", g.Key(), xm.Key())
		c.typ(at+".elem", g.Elem(), xm.Elem())
	case *gt.Struct:
		xs, ok := x.(*xt.Struct)
		if !ok {
			c.errf("%s: original %v is a struct, converted is %T %v", at, g, x, x)
			return
		}
		c.count("node:struct")
		if g.NumFields() != xs.NumFields() {
			c.errf("%s: struct with %d fields converted to %d fields", at, g.NumFields(), xs.NumFields())
			return
		}
		for i := 0; i < g.NumFields(); i++ {
			gf, xf := g.Field(i), xs.Field(i)
			fat := fmt.Sprintf("%s.field[%d:%s]", at, i, gf.Name())
			if gf.Name() != xf.Name() || gf.Embedded() != xf.Embedded() || gf.Exported() != xf.Exported() || !xf.IsField() {
				c.errf("%s: field %s embedded=%v converted to %s embedded=%v isField=%v", fat, gf.Name(), gf.Embedded(), xf.Name(), xf.Embedded(), xf.IsField())
			}
			if !samePkg(gf.Pkg(), xf.Pkg()) && !(gf.Exported() && c.masked("F-C30-2")) {
				// (F-C30-2: identical struct types of two packages, e.g. go/token.Position and
				// text/scanner.Position, share one converted struct, so the package recorded
				// for their exported fields is the one converted first)
				c.errf("%s: field package %s converted to %s", fat, pkgPath(gf.Pkg()), xpkgPath(xf.Pkg()))
			}
			if g.Tag(i) != xs.Tag(i) {
				c.errf("%s: tag %q converted to %q", fat, g.Tag(i), xs.Tag(i))
			}
			if gf.Embedded() {
				c.count("field:embedded")
			}
			if g.Tag(i) != "" {
				c.count("field:tagged")
			}
			c.typ(fat, gf.Type(), xf.Type())
		}
	case *gt.Tuple:
		xtup, ok := x.(*xt.Tuple)
		if !ok {
			c.errf("%s: original %v is a tuple, converted is %T %v", at, g, x, x)
			return
		}
		c.tuple(at, g, xtup)
	case *gt.Signature:
		xs, ok := x.(*xt.Signature)
		if !ok {
			c.errf("%s: original %v is a func, converted is %T %v", at, g, x, x)
			return
		}
		c.signature(at, g, xs)
	case *gt.Interface:
		xi, ok := x.(*xt.Interface)
		if !ok {
			c.errf("%s: original %v is an interface, converted is %T %v", at, g, x, x)
			return
		}
		c.iface(at, g, xi)
	default:
		c.errf("%s: unexpected original type %T", at, g)
	}
}

func (c *comparer) tuple(at string, g *gt.Tuple, x *xt.Tuple) {
	if g.Len() != x.Len() {
		c.errf("%s: tuple of %d converted to tuple of %d", at, g.Len(), x.Len())
		return
	}
	for i := 0; i < g.Len(); i++ {
		gv, xv := g.At(i), x.At(i)
		if gv.Name() != xv.Name() && !c.masked("F-C30-2") {
			c.errf("%s[%d]: parameter name %q converted to %q", at, i, gv.Name(), xv.Name())
		}
		c.typ(fmt.Sprintf("%s[%d]", at, i), gv.Type(), xv.Type())
	}
}

func (c *comparer) signature(at string, g *gt.Signature, x *xt.Signature) {
	c.count("node:func")
	if g.Variadic() != x.Variadic() {
		c.errf("%s: variadic=%v converted to variadic=%v", at, g.Variadic(), x.Variadic())
	}
	if g.Variadic() {
		c.count("node:func-variadic")
	}
	c.tuple(at+".params", g.Params(), x.Params())
	c.tuple(at+".results", g.Results(), x.Results())
}

func funcID(pkg interface{ Path() string }, isNil bool, name string) string {
	if token.IsExported(name) || isNil {
		return name
	}
	return pkg.Path() + "." + name
}

func gid(f gt.Object) string { return funcID(f.Pkg(), f.Pkg() == nil, f.Name()) }
func xid(f xt.Object) string { return funcID(f.Pkg(), f.Pkg() == nil, f.Name()) }

func (c *comparer) iface(at string, g *gt.Interface, x *xt.Interface) {
	c.count("node:interface")
	if g.NumExplicitMethods() != x.NumExplicitMethods() {
		c.errf("%s: %d explicit methods converted to %d", at, g.NumExplicitMethods(), x.NumExplicitMethods())
	} else {
		for i := 0; i < g.NumExplicitMethods(); i++ {
			gm, xm := g.ExplicitMethod(i), x.ExplicitMethod(i)
			if gid(gm) != xid(xm) {
				c.errf("%s: explicit method %d %s converted to %s", at, i, gid(gm), xid(xm))
				continue
			}
			c.typ(at+"."+gm.Name(), gm.Type(), xm.Type())
		}
	}
	if g.NumEmbeddeds() != x.NumEmbeddeds() {
		c.errf("%s: %d embedded types converted to %d", at, g.NumEmbeddeds(), x.NumEmbeddeds())
	} else {
		// the order of embedded types is not part of the type (the fork sorts them by name,
		// go/types 1.23 keeps source order): pair them by printed form
		var ge []gt.Type
		var xe []xt.Type
		for i := 0; i < g.NumEmbeddeds(); i++ {
			ge = append(ge, g.EmbeddedType(i))
			xe = append(xe, x.EmbeddedType(i))
		}
		sort.SliceStable(ge, func(i, j int) bool {
			return normString(gt.TypeString(ge[i], nil)) < normString(gt.TypeString(ge[j], nil))
		})
		sort.SliceStable(xe, func(i, j int) bool {
			return normString(xt.TypeString(xe[i], nil)) < normString(xt.TypeString(xe[j], nil))
		})
		for i := range ge {
			c.count("iface:embedded")
			c.typ(fmt.Sprintf("%s.embedded[%d]", at, i), ge[i], xe[i])
		}
	}
	// the completed method list
	if embedsGeneric(g, map[gt.Type]bool{}) {
		c.count("excluded:iface-embeds-generic")
		return
	}
	var gl, xl []string
	gm := map[string]*gt.Func{}
	xm := map[string]*xt.Func{}
	for i := 0; i < g.NumMethods(); i++ {
		m := g.Method(i)
		gl = append(gl, gid(m))
		gm[gid(m)] = m
	}
	var p interface{}
	func() {
		defer func() { p = recover() }()
		for i := 0; i < x.NumMethods(); i++ {
			m := x.Method(i)
			xl = append(xl, xid(m))
			xm[xid(m)] = m
		}
	}()
	if p != nil {
		c.errf("%s: converted interface panics on NumMethods/Method (not completed?): %v", at, p)
		return
	}
	sort.Strings(gl)
	sort.Strings(xl)
	if len(xl) == 0 && len(gl) > 0 && c.masked("F-C30-1") {
		return // interface first reached while methods were being added: left incomplete
	}
	if strings.Join(gl, ",") != strings.Join(xl, ",") && strings.Join(gl, ",") == strings.Join(dedup(xl), ",") && c.masked("F-C30-4") {
		xl = dedup(xl) // methods shared by two embedded interfaces are listed twice
	}
	if strings.Join(gl, ",") != strings.Join(xl, ",") {
		c.errf("%s: interface methods [%s] converted to [%s]", at, strings.Join(gl, ","), strings.Join(xl, ","))
		return
	}
	for _, id := range gl {
		c.typ(at+".all."+id, gm[id].Type(), xm[id].Type())
	}
}

func isPtr(t interface{}) bool {
	switch t.(type) {
	case *gt.Pointer, *xt.Pointer:
		return true
	}
	return false
}

func (c *comparer) named(at string, g *gt.Named, x *xt.Named) {
	if prev, ok := c.fwd[g]; ok {
		if prev != x {
			c.errf("%s: named type %v converted to two different objects (%p %v, %p %v): identity lost", at, g, prev, prev, x, x)
		}
		return
	}
	if prev, ok := c.rev[x]; ok && prev != g {
		c.errf("%s: two different named types %v and %v converted to one object %v", at, prev, g, x)
		return
	}
	c.fwd[g] = x
	c.rev[x] = g
	c.count("node:named")
	gobj, xobj := g.Obj(), x.Obj()
	if xobj == nil {
		c.errf("%s: converted named type %v has no type name", at, g)
		return
	}
	if gobj.Name() != xobj.Name() || !samePkg(gobj.Pkg(), xobj.Pkg()) {
		c.errf("%s: named type %s.%s converted to %s.%s", at, pkgPath(gobj.Pkg()), gobj.Name(), xpkgPath(xobj.Pkg()), xobj.Name())
		return
	}
	at = gobj.Name()
	if gobj.Pkg() != nil {
		at = gobj.Pkg().Path() + "." + at
	}
	if x.Underlying() == nil {
		c.errf("%s: converted named type has nil underlying type", at)
		return
	}
	if xobj.Type() != xt.Type(x) {
		c.errf("%s: converted type name points to %v, not to its named type", at, xobj.Type())
	}
	c.typ(at+".underlying", g.Underlying(), x.Underlying())
	// declared methods
	xmeth := map[string]*xt.Func{}
	for i := 0; i < x.NumMethods(); i++ {
		m := x.Method(i)
		if _, dup := xmeth[xid(m)]; dup {
			c.errf("%s: converted type declares method %s twice", at, xid(m))
		}
		xmeth[xid(m)] = m
	}
	if g.NumMethods() > 0 {
		c.count("named:with-methods")
	}
	if g.NumMethods() > 0 && x.NumMethods() == 0 && c.masked("F-C30-1") {
		return // named type first reached while methods were being added: its own methods are postponed
	}
	for i := 0; i < g.NumMethods(); i++ {
		gm := g.Method(i)
		xm := xmeth[gid(gm)]
		if xm == nil {
			c.errf("%s: method %s missing in converted type (has %d of %d methods)", at, gid(gm), x.NumMethods(), g.NumMethods())
			continue
		}
		delete(xmeth, gid(gm))
		mat := at + "." + gm.Name()
		if !samePkg(gm.Pkg(), xm.Pkg()) {
			c.errf("%s: method package %s converted to %s", mat, pkgPath(gm.Pkg()), xpkgPath(xm.Pkg()))
		}
		gs := gm.Type().(*gt.Signature)
		xs, ok := xm.Type().(*xt.Signature)
		if !ok {
			c.errf("%s: converted method has type %v", mat, xm.Type())
			continue
		}
		if gs.Recv() == nil || xs.Recv() == nil {
			if (gs.Recv() == nil) != (xs.Recv() == nil) {
				c.errf("%s: receiver %v converted to %v", mat, gs.Recv(), xs.Recv())
			}
		} else {
			gp, xp := isPtr(gs.Recv().Type()), isPtr(xs.Recv().Type())
			if gp != xp {
				c.errf("%s: pointer receiver = %v converted to pointer receiver = %v", mat, gp, xp)
			}
			if gp {
				c.count("method:ptr-recv")
			} else {
				c.count("method:value-recv")
			}
			c.typ(mat+".recv", gs.Recv().Type(), xs.Recv().Type())
		}
		c.signature(mat, gs, xs)
	}
	for id := range xmeth {
		c.errf("%s: converted type has extra method %s", at, id)
	}
}

// methodSets compares go/types' method sets of T and *T with the fork's.
func (c *comparer) methodSets(at string, g gt.Type, x xt.Type) {
	if embedsGeneric(g, map[gt.Type]bool{}) {
		c.count("excluded:methodset-embeds-generic")
		return
	}
	for pass := 0; pass < 2; pass++ {
		gT, xT := g, x
		pat := at
		if pass == 1 {
			gT, xT = gt.NewPointer(g), xt.NewPointer(x)
			pat = "*" + at
		}
		gms := gt.NewMethodSet(gT)
		var xms *xt.MethodSet
		if p := try(func() { xms = xt.NewMethodSet(xT) }); p != nil {
			c.errf("method set of %s: fork NewMethodSet panics: %v", pat, p)
			continue
		}
		if gms.Len() != xms.Len() && c.methodSetMasked(g, x, gms, xms) {
			continue
		}
		if gms.Len() != xms.Len() {
			c.errf("method set of %s: %d methods, converted %d: original %v converted %v", pat, gms.Len(), xms.Len(), gms, xms)
			continue
		}
		if gms.Len() > 0 {
			c.count("methodset:nonempty")
		}
		for i := 0; i < gms.Len(); i++ {
			gs, xs := gms.At(i), xms.At(i) // both sorted by unique Id
			mat := fmt.Sprintf("method set of %s entry %s", pat, gs.Obj().Name())
			if gid(gs.Obj()) != xid(xs.Obj()) {
				c.errf("%s: converted entry is %s", mat, xid(xs.Obj()))
				continue
			}
			if gs.Indirect() != xs.Indirect() || fmt.Sprint(gs.Index()) != fmt.Sprint(xs.Index()) {
				c.errf("%s: indirect=%v index=%v converted to indirect=%v index=%v", mat, gs.Indirect(), gs.Index(), xs.Indirect(), xs.Index())
			}
			if len(gs.Index()) > 1 {
				c.count("methodset:promoted")
			}
			c.typ(mat, gs.Type(), xs.Type())
		}
	}
}

func try(f func()) (p interface{}) {
	defer func() { p = recover() }()
	f()
	return nil
}

var reAny = regexp.MustCompile(`\bany\b`)
var reByte = regexp.MustCompile(`\bbyte\b`)
var reRune = regexp.MustCompile(`\brune\b`)

// normString maps the spellings that differ between go/types 1.23 and the fork without
// denoting different types: "any" for the empty interface, byte/rune for uint8/int32.
// Applied to both sides.
func normString(s string) string {
	s = reAny.ReplaceAllString(s, "interface{}")
	s = reByte.ReplaceAllString(s, "uint8")
	s = reRune.ReplaceAllString(s, "int32")
	return s
}

func (c *comparer) strings(at string, g gt.Type, x xt.Type) {
	if shallowGeneric(g, 0) {
		c.count("excluded:string-generic")
		return
	}
	var xs string
	if p := try(func() { xs = xt.TypeString(x, nil) }); p != nil {
		c.errf("%s: TypeString of the converted type panics: %v", at, p)
		return
	}
	gs := gt.TypeString(g, nil)
	if gs != xs {
		if normString(gs) == normString(xs) {
			c.count("string:equal-after-alias-spelling")
		} else if sortInterfaces(normString(gs)) == sortInterfaces(normString(xs)) {
			c.count("string:equal-after-sorting-embedded-interfaces")
		} else if known("F-C30-2") && stripParamNames(gs, g, x) == stripParamNames(xs, g, x) {
			c.excl["F-C30-2"]++
		} else {
			c.errf("%s: printed form %q converted to %q", at, gs, xs)
		}
	} else {
		c.count("string:equal")
	}
}

// isGenericDecl: the declaration itself is generic (or a constraint interface)
func isGenericDecl(obj gt.Object) bool {
	switch obj := obj.(type) {
	case *gt.Func:
		return isGenericNode(obj.Type())
	case *gt.TypeName:
		t := gt.Unalias(obj.Type())
		if isGenericNode(t) {
			return true
		}
		if u := t.Underlying(); u != nil && isGenericNode(u) {
			return true
		}
	}
	return false
}

func class(o interface{}) string {
	switch o.(type) {
	case *gt.Const, *xt.Const:
		return "const"
	case *gt.Var, *xt.Var:
		return "var"
	case *gt.Func, *xt.Func:
		return "func"
	case *gt.TypeName, *xt.TypeName:
		return "type"
	case *gt.Builtin, *xt.Builtin:
		return "builtin"
	case nil:
		return "missing"
	}
	return fmt.Sprintf("%T", o)
}

// comparePackage checks every exported object of the original against the converted package.
func (c *comparer) comparePackage(g *gt.Package, x *xt.Package) {
	if x == nil {
		c.errf("package %s: converted package is nil", g.Path())
		return
	}
	if g.Path() != x.Path() || g.Name() != x.Name() {
		c.errf("package %s (%s) converted to %s (%s)", g.Path(), g.Name(), x.Path(), x.Name())
	}
	gscope, xscope := g.Scope(), x.Scope()
	for _, name := range gscope.Names() {
		if !token.IsExported(name) {
			continue
		}
		gobj := gscope.Lookup(name)
		if _, ok := gobj.(*gt.Builtin); ok { // package unsafe
			c.count("excluded:builtin")
			continue
		}
		if isGenericDecl(gobj) {
			c.count("excluded:generic-decl")
			continue
		}
		at := g.Path() + "." + name
		xobj := xscope.Lookup(name)
		if xobj == nil {
			c.errf("%s (%s): missing in the converted package", at, class(gobj))
			continue
		}
		if class(gobj) != class(xobj) {
			c.errf("%s: %s converted to %s", at, class(gobj), class(xobj))
			continue
		}
		c.count("object:" + class(gobj))
		if xobj.Name() != name || !samePkg(gobj.Pkg(), xobj.Pkg()) || !xobj.Exported() {
			c.errf("%s: converted object is %s in package %s", at, xobj.Name(), xpkgPath(xobj.Pkg()))
		}
		if xobj.Type() == nil {
			c.errf("%s: converted object has nil type", at)
			continue
		}
		c.typ(at, gobj.Type(), xobj.Type())
		c.strings(at, gobj.Type(), xobj.Type())
		switch gobj := gobj.(type) {
		case *gt.Const:
			xv := xobj.(*xt.Const).Val()
			gv := gobj.Val()
			if xv == nil || gv.Kind() != xv.Kind() || !constant.Compare(gv, token.EQL, xv) || gv.ExactString() != xv.ExactString() {
				c.errf("%s: constant value %v converted to %v", at, gv, xv)
			}
			c.count("const:" + gv.Kind().String())
		case *gt.TypeName:
			xtn := xobj.(*xt.TypeName)
			if gobj.IsAlias() != xtn.IsAlias() {
				// alias to a basic type keeps IsAlias (name differs); alias to byte/rune is spelled uint8/int32
				c.errf("%s: IsAlias=%v converted to IsAlias=%v", at, gobj.IsAlias(), xtn.IsAlias())
			}
			if gobj.IsAlias() {
				c.count("type:alias")
			}
			gu, xu := gobj.Type().Underlying(), xobj.Type().Underlying()
			if xu == nil {
				c.errf("%s: converted type has nil underlying type", at)
				continue
			}
			c.strings(at+" underlying", gu, xu)
			c.methodSets(at, gobj.Type(), xobj.Type())
		}
	}
	// no exported object invented
	for _, name := range xscope.Names() {
		if !token.IsExported(name) {
			continue
		}
		gobj := gscope.Lookup(name)
		if gobj == nil {
			c.errf("%s.%s: converted package has an exported %s that the original lacks", g.Path(), name, class(xscope.Lookup(name)))
		}
	}
}

// sortInterfaces rewrites every "interface{a; b; c}" of a printed type with its items
// sorted (recursively), because the order of embedded interfaces is not part of the type.
func sortInterfaces(s string) string {
	const kw = "interface{"
	var out strings.Builder
	for {
		i := strings.Index(s, kw)
		if i < 0 {
			out.WriteString(s)
			return out.String()
		}
		out.WriteString(s[:i+len(kw)])
		s = s[i+len(kw):]
		// find the matching brace
		depth, end := 1, -1
		for j := 0; j < len(s); j++ {
			switch s[j] {
			case '{':
				depth++
			case '}':
				depth--
			case '"', '`': // struct tag: skip the quoted text
				q := s[j]
				for j++; j < len(s) && s[j] != q; j++ {
					if q == '"' && s[j] == '\\' {
						j++
					}
				}
			}
			if depth == 0 {
				end = j
				break
			}
		}
		if end < 0 {
			out.WriteString(s)
			return out.String()
		}
		body := s[:end]
		// split at top level "; "
		var items []string
		d, start := 0, 0
		for j := 0; j < len(body); j++ {
			switch body[j] {
			case '{', '(', '[':
				d++
			case '}', ')', ']':
				d--
			case ';':
				if d == 0 {
					items = append(items, strings.TrimSpace(body[start:j]))
					start = j + 1
				}
			}
		}
		items = append(items, strings.TrimSpace(body[start:]))
		for k := range items {
			items[k] = sortInterfaces(items[k])
		}
		sort.Strings(items)
		out.WriteString(strings.Join(items, "; "))
		out.WriteString("}")
		s = s[end+1:]
	}
}

func dedup(sorted []string) []string {
	var out []string
	for i, s := range sorted {
		if i == 0 || s != sorted[i-1] {
			out = append(out, s)
		}
	}
	return out
}

// unprocessed: some named type in the embedding chain of g was converted without its
// methods / left incomplete (finding F-C30-1)
func unprocessed(g gt.Type, x xt.Type, depth int) bool {
	if depth > 20 || g == nil || x == nil {
		return false
	}
	if gp, ok := g.(*gt.Pointer); ok {
		if xp, ok := x.(*xt.Pointer); ok {
			return unprocessed(gp.Elem(), xp.Elem(), depth+1)
		}
		return false
	}
	if gn, ok := g.(*gt.Named); ok {
		xn, ok := x.(*xt.Named)
		if !ok {
			return false
		}
		if gn.NumMethods() > 0 && xn.NumMethods() == 0 {
			return true
		}
	}
	switch gu := g.Underlying().(type) {
	case *gt.Struct:
		xu, ok := x.Underlying().(*xt.Struct)
		if !ok || xu.NumFields() != gu.NumFields() {
			return false
		}
		for i := 0; i < gu.NumFields(); i++ {
			if gu.Field(i).Embedded() && unprocessed(gu.Field(i).Type(), xu.Field(i).Type(), depth+1) {
				return true
			}
		}
	case *gt.Interface:
		xu, ok := x.Underlying().(*xt.Interface)
		if !ok {
			return false
		}
		if gu.NumMethods() > 0 && xu.NumMethods() == 0 {
			return true
		}
	}
	return false
}

// fieldNames collects the field names of the struct g and of its embedded structs
func fieldNames(g gt.Type, into map[string]bool, depth int) {
	if depth > 20 || g == nil {
		return
	}
	if p, ok := g.(*gt.Pointer); ok {
		g = p.Elem()
	}
	if st, ok := g.Underlying().(*gt.Struct); ok {
		for i := 0; i < st.NumFields(); i++ {
			into[st.Field(i).Name()] = true
			if st.Field(i).Embedded() {
				fieldNames(st.Field(i).Type(), into, depth+1)
			}
		}
	}
}

// methodSetMasked decides whether a method-set size mismatch is one of the known findings.
func (c *comparer) methodSetMasked(g gt.Type, x xt.Type, gms *gt.MethodSet, xms *xt.MethodSet) bool {
	if known("F-C30-1") && unprocessed(g, x, 0) {
		c.excl["F-C30-1"]++
		return true
	}
	if known("F-C30-3") && xms.Len() > gms.Len() {
		// the fork's NewMethodSet keeps promoted methods hidden by a shallower field of the same name
		orig := map[string]bool{}
		for i := 0; i < gms.Len(); i++ {
			orig[gid(gms.At(i).Obj())] = true
		}
		fields := map[string]bool{}
		fieldNames(g, fields, 0)
		extra, found := 0, 0
		for i := 0; i < xms.Len(); i++ {
			id := xid(xms.At(i).Obj())
			if orig[id] {
				found++
			} else if fields[xms.At(i).Obj().Name()] {
				extra++
			} else {
				return false
			}
		}
		if found == gms.Len() && extra == xms.Len()-gms.Len() {
			c.excl["F-C30-3"]++
			return true
		}
	}
	return false
}

// paramNames collects the parameter/result names that the printed form of g / x shows
func paramNamesG(g gt.Type, into map[string]bool, depth int) {
	if g == nil || depth > 30 {
		return
	}
	switch g := g.(type) {
	case *gt.Array:
		paramNamesG(g.Elem(), into, depth+1)
	case *gt.Slice:
		paramNamesG(g.Elem(), into, depth+1)
	case *gt.Pointer:
		paramNamesG(g.Elem(), into, depth+1)
	case *gt.Chan:
		paramNamesG(g.Elem(), into, depth+1)
	case *gt.Map:
		paramNamesG(g.Key(), into, depth+1)
		paramNamesG(g.Elem(), into, depth+1)
	case *gt.Tuple:
		for i := 0; i < g.Len(); i++ {
			into[g.At(i).Name()] = true
			paramNamesG(g.At(i).Type(), into, depth+1)
		}
	case *gt.Signature:
		paramNamesG(g.Params(), into, depth+1)
		paramNamesG(g.Results(), into, depth+1)
	case *gt.Struct:
		for i := 0; i < g.NumFields(); i++ {
			paramNamesG(g.Field(i).Type(), into, depth+1)
		}
	case *gt.Interface:
		for i := 0; i < g.NumExplicitMethods(); i++ {
			paramNamesG(g.ExplicitMethod(i).Type(), into, depth+1)
		}
	}
}

func paramNamesX(x xt.Type, into map[string]bool, depth int) {
	if x == nil || depth > 30 {
		return
	}
	switch x := x.(type) {
	case *xt.Array:
		paramNamesX(x.Elem(), into, depth+1)
	case *xt.Slice:
		paramNamesX(x.Elem(), into, depth+1)
	case *xt.Pointer:
		paramNamesX(x.Elem(), into, depth+1)
	case *xt.Chan:
		paramNamesX(x.Elem(), into, depth+1)
	case *xt.Map:
		paramNamesX(x.Key(), into, depth+1)
		paramNamesX(x.Elem(), into, depth+1)
	case *xt.Tuple:
		for i := 0; i < x.Len(); i++ {
			into[x.At(i).Name()] = true
			paramNamesX(x.At(i).Type(), into, depth+1)
		}
	case *xt.Signature:
		paramNamesX(x.Params(), into, depth+1)
		paramNamesX(x.Results(), into, depth+1)
	case *xt.Struct:
		for i := 0; i < x.NumFields(); i++ {
			paramNamesX(x.Field(i).Type(), into, depth+1)
		}
	case *xt.Interface:
		for i := 0; i < x.NumExplicitMethods(); i++ {
			paramNamesX(x.ExplicitMethod(i).Type(), into, depth+1)
		}
	}
}

// stripParamNames removes "name " after "(" or ", " for every parameter name seen on
// either side, then applies the spelling normalisations (used only under finding F-C30-2).
func stripParamNames(s string, g gt.Type, x xt.Type) string {
	names := map[string]bool{}
	paramNamesG(g, names, 0)
	paramNamesX(x, names, 0)
	var list []string
	for n := range names {
		if n != "" {
			list = append(list, regexp.QuoteMeta(n))
		}
	}
	if len(list) > 0 {
		sort.Strings(list)
		re := regexp.MustCompile(`([(]|, )(` + strings.Join(list, "|") + `) `)
		s = re.ReplaceAllString(s, "$1")
	}
	// a single named result "(n int)" is printed with parentheses, unnamed without
	s = reSingleResult.ReplaceAllString(s, ") $1")
	return sortInterfaces(normString(s))
}

var reSingleResult = regexp.MustCompile(`\) \(([^(),]*)\)`)
