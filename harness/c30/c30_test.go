// C30: converting standard-library go/types information into gomacro's go/types fork
// preserves every exported object.
// Oracle: the original *go/types.Package (standard library twin), walked in lockstep
// with the converted package.
package c30

import (
	"bytes"
	"encoding/json"
	"fmt"
	"go/importer"
	"go/token"
	gt "go/types"
	"io"
	"os"
	"os/exec"
	"reflect"
	"sort"
	"strings"
	"sync"
	"testing"
	"unsafe"

	xt "github.com/cosmos72/gomacro/go/types"
	"github.com/cosmos72/gomacro/xreflect"
	"pgregory.net/rapid"

	"verif/harness/vlib"
)

var rec *vlib.Rec

func TestMain(m *testing.M) {
	rec = vlib.Open("C30")
	rec.Rule("cases = (sequence of standard-library packages converted by one Converter, package checked): every package of `go list std` with export data " +
		"alone in a fresh Converter (exhaustive over the list), rapid-drawn sequences of 2-10 packages (with repeats) through one shared Converter as xreflect.Importer does, " +
		"each package re-checked after every later conversion, and a stratified sample through xreflect.DefaultImporter().ImportFrom; every exported object is compared. " +
		"A case is non-trivial when the checked package declares >= 1 named type with methods; distinct = distinct (package, set of packages converted before it)")
	rec.Assume("oracle: go/types of the standard library reading gc export data (importer.ForCompiler with the export files listed by `go list -export std`, and importer.Default for the xreflect.Importer path)")
	rec.Assume("generic declarations, constraint interfaces and every type node that mentions a type parameter / instantiated generic type / comparable are outside the property (converter documents: importing generic functions or types is not supported yet); the lockstep comparison stops at such nodes and counts them")
	rec.Assume("byte/rune vs uint8/int32 and any vs interface{} are spellings of identical types; printed forms are compared after mapping these spellings on both sides")
	// VERIF_C30_IGNORE_KNOWN="F-C30-1,F-C30-5" (or "all") switches exclusions off: used to
	// show in a scratch worktree that a fix patch removes the finding
	known = func(id string) bool {
		ign := os.Getenv("VERIF_C30_IGNORE_KNOWN")
		if ign == "all" || strings.Contains(","+ign+",", ","+id+",") {
			return false
		}
		return rec.Known(id) && id != unmask
	}
	os.Exit(vlib.Main(m, rec))
}

// ---------------------------------------------------------------- package list + standard importer

type stdInfo struct {
	paths  []string          // packages with export data, sorted
	export map[string]string // import path -> export data file
	nofile []string
}

var (
	stdOnce sync.Once
	std     stdInfo
	stdErr  error
)

func loadStd() (stdInfo, error) {
	stdOnce.Do(func() {
		cmd := exec.Command("go", "list", "-export", "-f", "{{.ImportPath}}\t{{.Export}}", "std")
		cmd.Dir = os.TempDir()
		var errb bytes.Buffer
		cmd.Stderr = &errb
		out, err := cmd.Output()
		if err != nil {
			stdErr = fmt.Errorf("go list -export std: %v: %s", err, errb.String())
			return
		}
		std.export = map[string]string{}
		for _, line := range strings.Split(strings.TrimSpace(string(out)), "\n") {
			f := strings.SplitN(line, "\t", 2)
			if len(f) != 2 || f[1] == "" {
				std.nofile = append(std.nofile, f[0])
				continue
			}
			std.export[f[0]] = f[1]
			std.paths = append(std.paths, f[0])
		}
		sort.Strings(std.paths)
	})
	return std, stdErr
}

// newStdImporter returns a go/types importer reading the export files; one importer
// keeps one *types.Package per path, like importer.Default does.
func newStdImporter() gt.Importer {
	lookup := func(path string) (io.ReadCloser, error) {
		f, ok := std.export[path]
		if !ok {
			return nil, fmt.Errorf("no export data for %q", path)
		}
		return os.Open(f)
	}
	return importer.ForCompiler(token.NewFileSet(), "gc", lookup)
}

var (
	sharedOnce sync.Once
	sharedImp  gt.Importer
)

// the original packages are immutable: one importer serves every history of this process
func sharedStdImporter() gt.Importer {
	sharedOnce.Do(func() { sharedImp = newStdImporter() })
	return sharedImp
}

// fastXreflectImporter: xreflect.DefaultImporter() obtains the go/types description from
// importer.Default(), which runs one `go list -export` per package and per dependency
// (0.3-1 s each, several seconds on a loaded machine). The harness swaps that
// standard-library importer (not gomacro code) for an equivalent one that reads the same
// gc export data located by the single `go list -export std` run; everything after it
// (Importer.ImportFrom -> Converter.Package) is gomacro's code, unchanged.
func fastXreflectImporter() *xreflect.Importer {
	imp := xreflect.DefaultImporter()
	f := reflect.ValueOf(imp).Elem().FieldByName("from")
	if f.IsValid() {
		if from, ok := newStdImporter().(gt.ImporterFrom); ok {
			reflect.NewAt(f.Type(), unsafe.Pointer(f.UnsafeAddr())).Elem().Set(reflect.ValueOf(from))
		}
	}
	return imp
}

// hasMethods: the package declares >= 1 exported named type with methods
func hasMethods(g *gt.Package) bool {
	sc := g.Scope()
	for _, n := range sc.Names() {
		if tn, ok := sc.Lookup(n).(*gt.TypeName); ok && !tn.IsAlias() {
			if nt, ok := tn.Type().(*gt.Named); ok {
				if nt.NumMethods() > 0 {
					return true
				}
				if it, ok := nt.Underlying().(*gt.Interface); ok && it.NumMethods() > 0 {
					return true
				}
			}
		}
	}
	return false
}

// ---------------------------------------------------------------- one case in plain form

// history: packages converted in this order through ONE converter; after each
// conversion the new package is compared with its original, at the end all are.
type history struct {
	Via      string   `json:"via"` // "converter" (types.Converter directly) or "xreflect" (xreflect.DefaultImporter)
	Packages []string `json:"packages"`
	// Unmask names the known finding this file is the replay of: its exclusion is switched
	// off while the file is replayed (the exclusions of other known findings stay on).
	Unmask string `json:"unmask,omitempty"`
}

var unmask string

// flushes: under known finding F-C30-1 (types first reached while methods are added keep
// no methods / stay incomplete until the NEXT Converter.Package call) the harness makes
// those next calls itself, with an empty package, so that everything else about such
// types is still compared.
const flushes = 8

var emptyPkg = gt.NewPackage("verif/empty", "empty")

var aloneCache = map[string]bool{}

// panicsAlone: does converting this package in a fresh Converter panic with the
// "generic ... not supported" message?
func panicsAlone(path string) bool {
	if v, ok := aloneCache[path]; ok {
		return v
	}
	g, err := sharedStdImporter().Import(path)
	res := false
	if err == nil {
		var conv xt.Converter
		conv.Init(xt.Universe)
		res = isGenericPanic(try(func() { conv.Package(g) }))
	}
	aloneCache[path] = res
	return res
}

func isGenericPanic(p interface{}) bool {
	return p != nil && strings.Contains(fmt.Sprint(p), "generic functions or types is not supported")
}

func runHistory(h history, label bool) error {
	if _, err := loadStd(); err != nil {
		return nil // infrastructure, not a violation; the sweep test reports it
	}
	var conv xt.Converter
	var ximp *xreflect.Importer
	var simp gt.Importer
	if h.Via == "xreflect" {
		ximp = fastXreflectImporter()
		simp = sharedStdImporter()
	} else {
		conv.Init(xt.Universe)
		simp = sharedStdImporter()
	}
	type done struct {
		g *gt.Package
		x *xt.Package
	}
	var all []done
	seen := map[string]bool{}
	for i, path := range h.Packages {
		g, err := simp.Import(path)
		if err != nil || g == nil {
			if label {
				rec.Label("skipped:std-importer-cannot-load")
			}
			continue
		}
		var x *xt.Package
		var cerr error
		p := try(func() {
			if ximp != nil {
				x, cerr = ximp.ImportFrom(path, "", 0)
			} else {
				x = conv.Package(g)
			}
		})
		if isGenericPanic(p) {
			if panicsAlone(path) {
				// documented limitation: the package declares a generic type with methods
				if label {
					rec.Label("excluded:package-with-generic-methods-panics")
				}
				if known("F-C30-5") {
					// ... but the converter keeps the panicking entry, so every later
					// conversion panics too: the history ends here
					if label && i+1 < len(h.Packages) {
						rec.Excluded("F-C30-5")
					}
					break
				}
				continue
			}
			if known("F-C30-5") {
				if label {
					rec.Excluded("F-C30-5")
				}
				break
			}
			return fmt.Errorf("step %d: converting package %s panics after %v: %v (alone it converts without panic)", i, path, h.Packages[:i], p)
		}
		if p != nil {
			return fmt.Errorf("step %d: converting package %s panics: %v", i, path, p)
		}
		if known("F-C30-1") {
			cv := &conv
			if ximp != nil {
				cv = &ximp.Converter
			}
			if p := try(func() {
				for k := 0; k < flushes; k++ {
					cv.Package(emptyPkg)
				}
			}); p != nil {
				return fmt.Errorf("step %d: after package %s, converting an empty package panics: %v", i, path, p)
			}
		}
		if cerr != nil {
			return fmt.Errorf("step %d: xreflect.Importer.ImportFrom(%q) fails: %v (the standard importer loads it)", i, path, cerr)
		}
		c := newComparer()
		c.comparePackage(g, x)
		if label {
			for k, n := range c.stats {
				rec.LabelN(k, n)
			}
			for k, n := range c.excl {
				for ; n > 0; n-- {
					rec.Excluded(k)
				}
			}
		}
		if len(c.errs) > 0 {
			return fmt.Errorf("step %d, package %s after converting %v: %s", i, path, h.Packages[:i], strings.Join(c.errs, "\n  "))
		}
		if !seen[path] {
			seen[path] = true
			all = append(all, done{g, x})
		} else {
			// converting the same package again must give the same package object
			for _, d := range all {
				if d.g == g && d.x != x {
					return fmt.Errorf("step %d: package %s converted a second time gives a different package object", i, path)
				}
			}
		}
	}
	// everything again, with one comparer: named types shared between packages must be shared after conversion
	c := newComparer()
	for _, d := range all {
		c.comparePackage(d.g, d.x)
		if len(c.errs) > 0 {
			return fmt.Errorf("final re-check of package %s after converting %v: %s", d.g.Path(), h.Packages, strings.Join(c.errs, "\n  "))
		}
	}
	return nil
}

func replay(content []byte) error {
	var h history
	if err := json.Unmarshal(content, &h); err != nil || len(h.Packages) == 0 {
		return nil
	}
	if _, err := loadStd(); err != nil {
		return nil
	}
	unmask = h.Unmask
	defer func() { unmask = "" }()
	return runHistory(h, false)
}

func TestReplays(t *testing.T) {
	rec.RunReplays(t, replay)
}

func mustStd(t *testing.T) stdInfo {
	s, err := loadStd()
	if err != nil {
		t.Fatalf("cannot list the standard library (infrastructure): %v", err)
	}
	if len(s.paths) < 100 {
		t.Fatalf("only %d standard packages with export data (infrastructure)", len(s.paths))
	}
	return s
}

// ---------------------------------------------------------------- exhaustive: every package alone

func TestEveryPackageAlone(t *testing.T) {
	if rec.ReplayOnly() {
		return
	}
	s := mustStd(t)
	rec.LabelN("std-packages-without-export-data", len(s.nofile)/rec.NShards())
	simp := sharedStdImporter()
	for i, path := range s.paths {
		if !rec.Mine(i) {
			continue
		}
		rec.Eval(1)
		h := history{Via: "converter", Packages: []string{path}}
		if g, err := simp.Import(path); err == nil && hasMethods(g) {
			rec.NT(path + "|")
			rec.Label("alone:with-methods")
		} else if err != nil {
			rec.Label("alone:std-importer-error")
			rec.Note("standard importer cannot load %s: %v", path, err)
		} else {
			rec.Label("alone:no-methods")
		}
		if err := runHistory(h, true); err != nil {
			data, _ := json.MarshalIndent(h, "", " ")
			rec.Violation("alone:"+path, data, "json", "%v", err)
			t.Errorf("%v", err)
		}
	}
	rec.Exhaustive(true)
}

// ---------------------------------------------------------------- rapid: sequences through one shared converter

func TestSequences(t *testing.T) {
	if rec.ReplayOnly() {
		return
	}
	s := mustStd(t)
	simp := sharedStdImporter()
	imports := map[string][]string{} // direct imports recorded in export data
	for _, p := range s.paths {
		if g, err := simp.Import(p); err == nil {
			for _, q := range g.Imports() {
				imports[p] = append(imports[p], q.Path())
			}
		}
	}
	rec.Check(t, rec.Scale(60, 1500), func(t *rapid.T) {
		n := rapid.IntRange(2, 10).Draw(t, "n")
		h := history{Via: "converter"}
		before := map[string]bool{}
		for i := 0; i < n; i++ {
			var p string
			switch k := rapid.IntRange(0, 9).Draw(t, "kind"); {
			case k == 0 && len(h.Packages) > 0: // repeat
				p = rapid.SampledFrom(h.Packages).Draw(t, "again")
				rec.Label("seq:repeat")
			case k <= 4 && len(h.Packages) > 0: // a package imported by an earlier one: its scope is partly filled already
				q := rapid.SampledFrom(h.Packages).Draw(t, "importer")
				if len(imports[q]) > 0 {
					p = rapid.SampledFrom(imports[q]).Draw(t, "imported")
					rec.Label("seq:dependency-after-dependent")
				} else {
					p = rapid.SampledFrom(s.paths).Draw(t, "pkg")
				}
			default:
				p = rapid.SampledFrom(s.paths).Draw(t, "pkg")
			}
			if _, ok := s.export[p]; !ok {
				continue
			}
			// non-trivial: declares methods and some earlier package already referred to it or to its imports
			var prev []string
			for q := range before {
				prev = append(prev, q)
			}
			sort.Strings(prev)
			rec.Eval(1) // every package converted within a history is compared on its own
			if g, err := simp.Import(p); err == nil && hasMethods(g) {
				rec.NT(p + "|" + strings.Join(prev, ","))
			}
			before[p] = true
			h.Packages = append(h.Packages, p)
		}
		rec.Sample(h)
		if err := runHistory(h, true); err != nil {
			data, _ := json.MarshalIndent(h, "", " ")
			rec.Failf(t, "sequence", data, "json", "%v", err)
		}
	})
}

// ---------------------------------------------------------------- the caller: xreflect.Importer (importer.Default, one `go list` per package)

func TestXreflectImporter(t *testing.T) {
	if rec.ReplayOnly() {
		return
	}
	s := mustStd(t)
	// seed-stratified sample: every k-th package starting at an offset that depends on seed and shard
	stride := rec.Scale(3, 1)
	total := rec.NShards() * stride
	off := int((rec.Seed()*7 + int64(rec.Shard())*int64(stride)) % int64(total))
	var pick []string
	for i := off; i < len(s.paths); i += total {
		pick = append(pick, s.paths[i])
	}
	// two orders: as listed, and reversed, each through ONE importer (as a Universe does)
	for pass, list := range [][]string{pick, reversed(pick)} {
		h := history{Via: "xreflect", Packages: list}
		rec.Eval(len(list))
		rec.LabelN("xreflect-importer-packages", len(list))
		for _, p := range list {
			if g, err := sharedStdImporter().Import(p); err == nil && hasMethods(g) {
				rec.NT(fmt.Sprintf("xreflect|%d|%s", pass, p))
			}
		}
		if err := runHistory(h, true); err != nil {
			data, _ := json.MarshalIndent(h, "", " ")
			rec.Violation(fmt.Sprintf("xreflect-%d", pass), data, "json", "%v", err)
			t.Errorf("%v", err)
		}
		if !rec.Thorough() {
			break
		}
	}
}

func reversed(l []string) []string {
	r := make([]string, len(l))
	for i, s := range l {
		r[len(l)-1-i] = s
	}
	return r
}
