// C06: function calls and closures behave as in Go regardless of frame recycling.
// Oracle: the Go toolchain (gobatch: one batch build of all generated programs, go 1.18
// level). The interpreter is built with tag `verif`: hook H1 (hook-h1.patch) poisons
// every frame released by fast.Env.freeEnv, so that a read through a stale reference
// gives a detectably wrong value or a panic.
package c06

import (
	"fmt"
	"os"
	"strconv"
	"strings"
	"testing"

	"pgregory.net/rapid"

	"verif/harness/gobatch"
	"verif/harness/vlib"
)

var rec *vlib.Rec

// known findings: id -> shape; the generator does not produce the shape of a finding
// that is listed as "known" in known_findings.json, and counts how often it would have
var findingIDs = []string{"F-C06-1", "F-C06-2", "F-C06-3", "F-C06-4", "F-C06-5", "F-C06-6", "F-C06-7", "F-C06-8", "F-C06-9", "F-C06-10", "F-C06-11"}

func TestMain(m *testing.M) {
	rec = vlib.Open("C06")
	rec.Rule("cases = generated Go programs made of 2-6 scenarios: creator functions whose closures (depth 1-3, alone or sharing the variable) or pointers escape " +
		"(captured/address-taken variable = parameter, local, block local, loop-body local, named result; of an int-slot kind or a boxed kind; route = return value into local / package variable / " +
		"package slice / package map / struct field / another closure / package-level initialiser run at file scope, or stored by the creator itself), recursion leaving a closure or pointer per level (depth <= 200), " +
		"plain / mutual / closure recursion (depth <= 200), functions and function literals of every specialisation (0-3 parameters x 0-2 results over all 17 basic kinds, named types, named results) " +
		"called through 9 kinds of call site, variadic calls (none, one, several, slice..., nil..., f(g())), multi-value f(g()), method values / method expressions of interpreted types, " +
		"package-level function variables assigned inside functions, counters shared by closures; then >= 33 (33-200) further calls by loop or recursion of functions with other frame shapes, then every escaped variable is read and modified, " +
		"then >= 33 more calls, then read again. A case is non-trivial when it contains at least one escaped (captured or address-taken) variable that is read after >= 33 intervening calls (pool capacity 32); distinct = distinct program texts")
	rec.Assume("oracle: gc toolchain, generated module with `go 1.18`, trace formatted by the same compiled recorder on both sides")
	rec.Assume("the interpreter under test is built with tag verif; if hook H1 (harness/c06/hook-h1.patch) is not in the tree the check still runs but stale frame reads are only caught when the frame has been reused")
	rec.Assume("capacity of slices after append is not compared (not generated): unspecified by the language")
	os.Exit(vlib.Main(m, rec))
}

var devDump = os.Getenv("C06_DEV_DUMP") // development only: directory receiving every disagreement
var devCount int

func known(p gobatch.Program, got, want gobatch.Result) string {
	if devDump != "" {
		devCount++
		os.WriteFile(fmt.Sprintf("%s/%s-%03d.go", devDump, os.Getenv("VERIF_SHARD"), devCount),
			[]byte(string(p.Replay())+"\n/*\n"+gobatch.Diff(got, want)+"\n"+strings.Join(p.Tags, "\n")+"\n*/\n"), 0o644)
	}
	return ""
}

var avoid map[string]bool

func genProgram(t *rapid.T, px string) gobatch.Program {
	if avoid == nil {
		avoid = map[string]bool{}
		for _, id := range findingIDs {
			avoid[id] = rec.Known(id)
		}
		// development only: generate the shape of a known finding anyway (to try a fix patch)
		for _, id := range strings.Split(os.Getenv("C06_DEV_NOAVOID"), ",") {
			delete(avoid, id)
		}
	}
	return generate(t, px, avoid)
}

// excluded shapes are switched off inside the generator; count them
func countExcluded(p gobatch.Program) string {
	if p.HasTag("excluded-shape:mutual-recursion-of-declared-functions") {
		rec.Label("excluded:mutual recursion of declared functions needs a forward declaration (out-of-order declarations: C16/C17)")
	}
	for _, id := range findingIDs {
		if p.HasTag("excluded-shape:" + id) {
			rec.Excluded(id)
		}
	}
	return ""
}

func TestCallsAndClosures(t *testing.T) {
	n := rec.Scale(250, 1000)
	if v, err := strconv.Atoi(os.Getenv("C06_DEV_N")); err == nil && v > 0 {
		n = v // development only
	}
	gobatch.Run(t, gobatch.Config{
		Rec: rec, Name: "c06", N: n,
		Gen: genProgram, Known: known, Skip: countExcluded, ShrinkSeconds: devShrink(),
	})
}

func TestReplays(t *testing.T) {
	rec.RunReplays(t, gobatch.Replayer(known))
}

func devShrink() int {
	if devDump != "" {
		return 1
	}
	return 0
}
