package c06

import (
	"fmt"
	"strings"

	"pgregory.net/rapid"

	"verif/harness/gobatch"
	"verif/harness/progen"
)

// ---------------------------------------------------------------- kinds and values

// all kinds for which fast/call*.go and fast/func*ret*.go have specialisations
var basicKinds = []string{"bool", "int", "int8", "int16", "int32", "int64", "uint", "uint8", "uint16", "uint32", "uint64",
	"uintptr", "float32", "float64", "complex64", "complex128", "string"}

func class(k string) string {
	switch {
	case k == "bool", k == "string":
		return k
	case strings.HasPrefix(k, "int"):
		return "int"
	case strings.HasPrefix(k, "uint"):
		return "uint"
	case strings.HasPrefix(k, "float"):
		return "float"
	case strings.HasPrefix(k, "complex"):
		return "complex"
	}
	return "other"
}

// storage class of a variable of kind k in a gomacro frame
func storage(k string) string {
	switch class(k) {
	case "bool", "int", "uint", "float", "complex":
		return "int-slot"
	}
	return "boxed"
}

type gen struct {
	*progen.G
	avoid   map[string]bool   // known findings whose shape is not generated
	create  []string          // statements of the entry function that create escaping things
	reads   []string          // statements that read them back (run after the burn, twice)
	fillers []*fn             // recording functions of random signature
	quiet   []string          // names of non-recording burn functions: func(int) int
	escapes int               // number of escape scenarios in the program
	named   map[string]string // named type -> underlying kind
}

type fn struct {
	name    string
	params  []string // type names
	results []string
}

// lit returns a literal expression of kind k (typed: usable with :=).
func (g *gen) lit(k string) string {
	u := g.under(k)
	var s string
	switch class(u) {
	case "bool":
		s = g.OneOf("lit-bool", "true", "false")
		if k == "bool" {
			return s
		}
	case "string":
		s = g.OneOf("lit-str", `"a"`, `"bc"`, `""`, `"héé"`)
		if k == "string" {
			return s
		}
	case "int":
		s = fmt.Sprint(g.Int(-9, 99, "lit-int"))
		if k == "int" {
			return s
		}
	case "uint":
		s = fmt.Sprint(g.Int(0, 120, "lit-uint"))
	case "float":
		s = fmt.Sprintf("%d.%s", g.Int(0, 40, "lit-fl"), g.OneOf("lit-frac", "0", "5", "25", "75"))
		if k == "float64" {
			return s
		}
	case "complex":
		s = fmt.Sprintf("(%d.5+%di)", g.Int(0, 9, "lit-re"), g.Int(1, 9, "lit-im"))
		if k == "complex128" {
			return s
		}
	default:
		panic("lit: " + k)
	}
	return k + "(" + s + ")"
}

// no reports whether the shape of known finding id must not be generated; it tags the
// program so that the exclusion is counted.
func (g *gen) no(id string) bool { return g.avoid[id] }

func (g *gen) skipped(id string) { g.Tag("excluded-shape:" + id) }

func (g *gen) under(k string) string {
	if u, ok := g.named[k]; ok {
		return u
	}
	return k
}

// step returns an expression of kind k computed from expression e of the same kind.
func (g *gen) step(e, k string) string {
	switch class(g.under(k)) {
	case "bool":
		return "!" + e
	case "string":
		return e + ` + "z"`
	case "int", "uint":
		return fmt.Sprintf("%s*3 + %d", e, g.Int(1, 5, "step-int"))
	case "float":
		return e + " + 0.5"
	case "complex":
		return e + " + (1+2i)"
	}
	panic("step: " + k)
}

// conv returns an expression of kind `to` computed (where it can be done without any
// implementation-defined conversion) from expression e of kind `from`.
func (g *gen) conv(e, from, to string) string {
	if from == to {
		return g.step(e, to)
	}
	cf, ct := class(g.under(from)), class(g.under(to))
	switch ct {
	case "bool":
		switch cf {
		case "string":
			return to + "(len(" + e + ") > 1)"
		case "bool":
			return to + "(" + e + ")"
		default:
			return to + "(" + e + " != " + g.lit(from) + ")"
		}
	case "string":
		if cf == "string" {
			return to + "(" + e + ")" + ` + "y"`
		}
		return g.lit(to)
	case "int", "uint":
		switch cf {
		case "int", "uint":
			return to + "(" + e + ") + 1"
		case "string":
			return to + "(len(" + e + "))"
		}
		return g.lit(to)
	case "float":
		switch cf {
		case "int", "uint":
			return to + "(" + e + " % 100)"
		case "float":
			return to + "(" + e + ") + 0.25"
		case "complex":
			return to + "(real(" + e + "))"
		}
		return g.lit(to)
	case "complex":
		switch cf {
		case "complex":
			return to + "(" + e + ")"
		case "float":
			return to + "(complex(float64(" + e + "), 1))"
		case "int", "uint":
			return to + "(complex(float64(" + e + " % 100), 2))"
		}
		return g.lit(to)
	}
	panic("conv: " + from + "->" + to)
}

func (g *gen) basicKind(label string) string {
	return basicKinds[g.Pick(len(basicKinds), label)]
}

// namedType declares (once per underlying kind) a named type without methods.
func (g *gen) namedType(u string) string {
	for n, k := range g.named {
		if k == u && strings.HasSuffix(n, "_"+u) {
			return n
		}
	}
	n := g.Top("N") + "_" + u
	g.named[n] = u
	g.Decls = append(g.Decls, fmt.Sprintf("type %s %s", n, u))
	return n
}

// ---------------------------------------------------------------- functions of every specialisation

// sigKind draws a parameter/result type: mostly an unnamed basic kind (specialised
// paths), sometimes a named type (generic path).
func (g *gen) sigKind(label string) string {
	k := g.basicKind(label)
	if g.Chance(1, 3, label+"-common") {
		// a third of the draws from the most common kinds, so that every (kind, kind)
		// cell of the two-kind specialisation tables for them is hit in a quick run
		k = g.OneOf(label+"-common-kind", "int", "string", "float64", "uint8")
	}
	if g.Chance(1, 8, label+"-named") {
		g.Tag("sig:named-type")
		return g.namedType(k)
	}
	return k
}

// funcText builds `(params) results { body }` of a recording function; name is used
// only for the trace. capt are variables of the enclosing scope the body may touch.
func (g *gen) funcSig(np, nr int) ([]string, []string) {
	var ps, rs []string
	for i := 0; i < np; i++ {
		if i == 1 && g.Chance(1, 3, "same-kind") {
			ps = append(ps, ps[0])
			continue
		}
		ps = append(ps, g.sigKind("param-kind"))
	}
	for i := 0; i < nr; i++ {
		rs = append(rs, g.sigKind("result-kind"))
	}
	return ps, rs
}

// F-C06-7: a function with exactly one parameter of type complex128 and no result
// stores its argument in the wrong slot array
func (g *gen) avoidF7(ps, rs []string) {
	// (also a named type with underlying type complex128: interpreted named types have
	// the reflect.Type of their underlying type and take the specialised path too)
	if len(ps) == 1 && len(rs) == 0 && g.under(ps[0]) == "complex128" && g.no("F-C06-7") {
		g.skipped("F-C06-7")
		ps[0] = "complex64"
	}
}

func specTag(ps, rs []string, named map[string]string, namedResults bool) string {
	generic := len(ps) > 2 || len(rs) > 1 || namedResults || (len(ps) == 2 && len(rs) == 1)
	for _, k := range append(append([]string{}, ps...), rs...) {
		if _, ok := named[k]; ok {
			generic = true
		}
	}
	if generic {
		return fmt.Sprintf("spec:generic-%dp-%dr", min(len(ps), 3), min(len(rs), 2))
	}
	return fmt.Sprintf("spec:func%dret%d", len(ps), len(rs))
}

// funcBody returns parameter list text, result list text and body of a function that
// records its arguments, computes locals and returns values derived from them.
func (g *gen) funcBody(ps, rs []string, callee *fn) (string, string, string) {
	var plist, pnames []string
	for i, k := range ps {
		n := fmt.Sprintf("a%d", i)
		pnames = append(pnames, n)
		plist = append(plist, n+" "+k)
	}
	namedRes := len(rs) > 0 && g.Chance(1, 4, "named-results")
	var rlist string
	var rnames []string
	switch {
	case len(rs) == 0:
	case namedRes:
		var l []string
		for i, k := range rs {
			n := fmt.Sprintf("r%d", i)
			rnames = append(rnames, n)
			l = append(l, n+" "+k)
		}
		rlist = " (" + strings.Join(l, ", ") + ")"
	case len(rs) == 1:
		rlist = " " + rs[0]
	default:
		rlist = " (" + strings.Join(rs, ", ") + ")"
	}
	g.Tag(specTag(ps, rs, g.named, namedRes))
	for _, k := range ps {
		g.Tag("param-kind:" + g.under(k))
	}
	for _, k := range rs {
		g.Tag("result-kind:" + g.under(k))
	}
	var b strings.Builder
	args := []string{fmt.Sprint(g.Ev())}
	args = append(args, pnames...)
	fmt.Fprintf(&b, "rec.E(%s)\n", strings.Join(args, ", "))
	// a local per parameter, so that frames have several slots of both storages
	var locals []string
	for i, k := range ps {
		if g.Chance(2, 3, "local") {
			l := fmt.Sprintf("l%d", i)
			fmt.Fprintf(&b, "%s := %s\n_ = %s\n", l, g.step(pnames[i], k), l)
			locals = append(locals, l)
		}
	}
	if callee != nil {
		b.WriteString(g.callStmt(callee, callee.name, func(k string, i int) string { return g.lit(k) }))
	}
	var rets []string
	for _, k := range rs {
		if len(ps) > 0 && g.Chance(3, 4, "ret-from-param") {
			i := g.Pick(len(ps), "ret-param")
			src := pnames[i]
			if i < len(locals) && locals[i] == fmt.Sprintf("l%d", i) && g.Bool("ret-local") {
				src = locals[i]
			}
			rets = append(rets, g.conv(src, ps[i], k))
		} else {
			rets = append(rets, g.lit(k))
		}
	}
	switch {
	case len(rs) == 0:
	case namedRes:
		for i, r := range rnames {
			fmt.Fprintf(&b, "%s = %s\n", r, rets[i])
		}
		if g.Bool("bare-return") {
			g.Tag("bare-return")
			b.WriteString("return\n")
		} else {
			b.WriteString("return " + strings.Join(rnames, ", ") + "\n")
		}
	default:
		b.WriteString("return " + strings.Join(rets, ", ") + "\n")
	}
	return strings.Join(plist, ", "), rlist, b.String()
}

// declFunc declares a package-level recording function of a random specialisation.
func (g *gen) declFunc() *fn {
	np := []int{0, 1, 1, 2, 2, 3}[g.Pick(6, "nparams")]
	nr := []int{0, 1, 1, 1, 2}[g.Pick(5, "nresults")]
	ps, rs := g.funcSig(np, nr)
	g.avoidF7(ps, rs)
	f := &fn{name: g.Top("f"), params: ps, results: rs}
	var callee *fn
	if len(g.fillers) > 0 && g.Chance(1, 4, "nested-call") {
		callee = g.fillers[g.Pick(len(g.fillers), "callee")]
		g.Tag("call-from-declared-func")
	}
	pl, rl, body := g.funcBody(ps, rs, callee)
	g.Decls = append(g.Decls, fmt.Sprintf("func %s(%s)%s {\n%s}", f.name, pl, rl, progen.Indent(body)))
	g.fillers = append(g.fillers, f)
	return f
}

// callStmt returns a statement calling `callee` (an expression of f's function type)
// and recording its results.
func (g *gen) callStmt(f *fn, callee string, arg func(kind string, i int) string) string {
	var args []string
	for i, k := range f.params {
		args = append(args, arg(k, i))
	}
	call := fmt.Sprintf("%s(%s)", callee, strings.Join(args, ", "))
	switch len(f.results) {
	case 0:
		return call + "\n"
	case 1:
		return fmt.Sprintf("rec.E(%d, %s)\n", g.Ev(), call)
	}
	var rs []string
	for i := range f.results {
		rs = append(rs, g.Local(fmt.Sprintf("q%d_", i)))
	}
	return fmt.Sprintf("%s := %s\nrec.E(%d, %s)\n", strings.Join(rs, ", "), call, g.Ev(), strings.Join(rs, ", "))
}

func (f *fn) typ() string {
	r := ""
	switch len(f.results) {
	case 0:
	case 1:
		r = " " + f.results[0]
	default:
		r = " (" + strings.Join(f.results, ", ") + ")"
	}
	return "func(" + strings.Join(f.params, ", ") + ")" + r
}

// callForms emits calls of f through the different kinds of call sites.
func (g *gen) callForms(f *fn) string {
	litArg := func(k string, i int) string { return g.lit(k) }
	var b strings.Builder
	n := g.Int(1, 3, "ncallforms")
	for j := 0; j < n; j++ {
		switch g.Pick(9, "callform") {
		case 0:
			g.Tag("callsite:declared-func-from-func")
			b.WriteString(g.callStmt(f, f.name, litArg))
		case 1:
			g.Tag("callsite:local-func-var")
			v := g.Local("lf")
			fmt.Fprintf(&b, "%s := %s\n", v, f.name)
			b.WriteString(g.callStmt(f, v, litArg))
		case 2:
			d := g.Int(1, 4, "capture-depth")
			if d >= 3 && len(f.params) == 0 && len(f.results) == 0 && g.no("F-C06-6") {
				// F-C06-6: call of a func() variable captured three or more scopes up
				g.skipped("F-C06-6")
				d = 2
			}
			g.Tag(fmt.Sprintf("callsite:captured-func-var-depth-%d", d))
			v := g.Local("lf")
			s := g.callStmt(f, v, litArg)
			for i := 0; i < d; i++ {
				s = "func() {\n" + progen.Indent(s) + "}()\n"
			}
			fmt.Fprintf(&b, "%s := %s\n%s", v, f.name, s)
		case 3:
			g.Tag("callsite:package-func-var")
			v := g.Top("fv")
			g.Decls = append(g.Decls, fmt.Sprintf("var %s = %s", v, f.name))
			b.WriteString(g.callStmt(f, v, litArg))
		case 4:
			g.Tag("callsite:slice-element")
			b.WriteString(g.callStmt(f, fmt.Sprintf("[]%s{%s}[0]", f.typ(), f.name), litArg))
		case 5:
			g.Tag("callsite:map-element")
			b.WriteString(g.callStmt(f, fmt.Sprintf("map[string]%s{\"k\": %s}[\"k\"]", f.typ(), f.name), litArg))
		case 6:
			g.Tag("callsite:returned-func")
			get := g.Top("get")
			g.Decls = append(g.Decls, fmt.Sprintf("func %s() %s { return %s }", get, f.typ(), f.name))
			b.WriteString(g.callStmt(f, get+"()", litArg))
		case 7:
			g.Tag("callsite:struct-field")
			v := g.Local("st")
			fmt.Fprintf(&b, "%s := struct{ F %s }{%s}\n", v, f.typ(), f.name)
			b.WriteString(g.callStmt(f, v+".F", litArg))
		default:
			// arguments are variables, some captured
			g.Tag("callsite:variable-args")
			var pre strings.Builder
			var names []string
			for _, k := range f.params {
				v := g.Local("x")
				names = append(names, v)
				fmt.Fprintf(&pre, "%s := %s\n", v, g.lit(k))
			}
			b.WriteString(pre.String())
			b.WriteString(g.callStmt(f, f.name, func(k string, i int) string { return names[i] }))
			for _, v := range names {
				fmt.Fprintf(&b, "_ = %s\n", v)
			}
		}
	}
	return b.String()
}

// funcLitCalls: function literals of random specialisation (they capture a local of
// the entry function), called directly and through a variable.
func (g *gen) funcLitCalls() string {
	np := g.Pick(3, "lit-nparams")
	nr := g.Pick(2, "lit-nresults")
	if g.Chance(1, 5, "lit-generic") {
		np, nr = g.Int(0, 3, "lit-np2"), g.Int(0, 2, "lit-nr2")
	}
	ps, rs := g.funcSig(np, nr)
	g.avoidF7(ps, rs)
	f := &fn{params: ps, results: rs}
	pl, rl, body := g.funcBody(ps, rs, nil)
	cv := g.Local("cnt")
	body = cv + "++\n" + body
	v := g.Local("fl")
	g.Tag("func-literal")
	s := fmt.Sprintf("%s := 0\n%s := func(%s)%s {\n%s}\n", cv, v, pl, rl, progen.Indent(body))
	n := g.Int(1, 3, "lit-ncalls")
	for i := 0; i < n; i++ {
		s += g.callStmt(f, v, func(k string, i int) string { return g.lit(k) })
	}
	s += fmt.Sprintf("rec.E(%d, %s)\n", g.Ev(), cv)
	return s
}

// ---------------------------------------------------------------- burning frames

// quietFunc declares a non-recording function func(int) int with a random frame shape.
func (g *gen) quietFunc() string {
	name := g.Top("b")
	var b strings.Builder
	ni := g.Int(1, 4, "quiet-nint")
	acc := "a"
	for i := 0; i < ni; i++ {
		v := fmt.Sprintf("i%d", i)
		fmt.Fprintf(&b, "%s := %s*%d + %d\n", v, acc, g.Int(2, 5, "qm"), 1000+g.Int(0, 99, "qa"))
		acc = v
	}
	if g.Bool("quiet-boxed") {
		fmt.Fprintf(&b, "s := \"burn\"\nfor k := 0; k < %s %% 3; k++ {\n\ts += \"!\"\n}\n", "a")
		acc = "(" + acc + " + len(s))"
	}
	switch g.Pick(5, "quiet-extra") {
	case 0:
		// takes the address of a local: the int slots of this frame are dropped on free
		fmt.Fprintf(&b, "p := &i0\n*p += 7\n")
	case 1:
		// creates a closure: this frame is never recycled
		fmt.Fprintf(&b, "h := func() int { return i0 + 1 }\n%s\n", "i0 = h()")
	case 2:
		if len(g.quiet) > 0 {
			fmt.Fprintf(&b, "i0 += %s(a %% 7)\n", g.quiet[g.Pick(len(g.quiet), "quiet-callee")])
		}
	}
	fmt.Fprintf(&b, "return %s %% 1000\n", acc)
	g.Decls = append(g.Decls, fmt.Sprintf("func %s(a int) int {\n%s}", name, progen.Indent(b.String())))
	g.quiet = append(g.quiet, name)
	return name
}

// burn returns statements performing at least n calls that allocate and release frames.
func (g *gen) burn(n int) string {
	acc := g.Local("acc")
	var b strings.Builder
	fmt.Fprintf(&b, "%s := 0\n", acc)
	if g.Chance(1, 4, "burn-by-recursion") && n <= 200 {
		g.Tag("burn:recursion")
		r := g.Top("deep")
		q := g.quiet[g.Pick(len(g.quiet), "burn-q")]
		g.Decls = append(g.Decls, fmt.Sprintf("func %s(n int) int {\n\tif n <= 0 {\n\t\treturn 0\n\t}\n\tx := %s(n)\n\treturn %s(n-1) + x%%10\n}", r, q, r))
		fmt.Fprintf(&b, "%s += %s(%d)\n", acc, r, n)
	} else {
		g.Tag("burn:loop")
		i := g.Local("bi")
		var body strings.Builder
		k := g.Int(1, 3, "burn-calls")
		for j := 0; j < k; j++ {
			fmt.Fprintf(&body, "%s += %s(%s)\n", acc, g.quiet[g.Pick(len(g.quiet), "burn-q")], i)
		}
		fmt.Fprintf(&b, "for %s := 0; %s < %d; %s++ {\n%s}\n", i, i, n, i, progen.Indent(body.String()))
	}
	fmt.Fprintf(&b, "rec.E(%d, %s)\n", g.Ev(), acc)
	return b.String()
}

// ---------------------------------------------------------------- escapes

// capKinds are the types of captured / address-taken variables.
var capKinds = []string{"int", "int", "uint8", "int64", "float64", "bool", "complex128", "uint", "float32",
	"string", "string", "[]int", "[2]int", "struct{A int; B string}"}

func (g *gen) capLit(k string) string {
	switch k {
	case "[]int":
		return fmt.Sprintf("[]int{%d, %d}", g.Int(0, 9, "sl0"), g.Int(0, 9, "sl1"))
	case "[2]int":
		return fmt.Sprintf("[2]int{%d, %d}", g.Int(0, 9, "ar0"), g.Int(0, 9, "ar1"))
	case "struct{A int; B string}":
		return fmt.Sprintf("struct{A int; B string}{%d, \"s\"}", g.Int(0, 9, "st0"))
	}
	return g.lit(k)
}

// capMut returns a statement modifying variable v (an lvalue expression) of kind k.
func (g *gen) capMut(v, k string) string {
	switch k {
	case "[]int":
		return fmt.Sprintf("%s[0] += 2", v)
	case "[2]int":
		return fmt.Sprintf("%s[1] += 3", v)
	case "struct{A int; B string}":
		return fmt.Sprintf("%s.A++\n%s.B += \"t\"", v, v)
	}
	return fmt.Sprintf("%s = %s", v, g.step(v, k))
}

func capStorage(k string) string {
	switch k {
	case "[]int", "[2]int", "struct{A int; B string}":
		return "boxed"
	}
	return storage(k)
}

// where the escaping variable is declared in the creator function
var capPlaces = []string{"param", "local", "block-local", "named-result", "loop-body-local"}

// routes of an escaping value from creator to reader
var routes = []string{"return->local", "return->package-var", "return->package-slice", "return->package-map", "return->struct-field",
	"stored-by-creator->package-var", "stored-by-creator->package-slice", "return->package-var-initialiser", "return->captured-by-closure"}

// routeStore declares what is needed and returns (create statement storing the result of
// `call` of type typ, expression reading it back).
func (g *gen) route(route, typ, creator, arg string) (create, read string) {
	call := fmt.Sprintf("%s(%s)", creator, arg)
	switch route {
	case "return->local":
		v := g.Local("e")
		return fmt.Sprintf("%s := %s\n", v, call), v
	case "return->package-var":
		v := g.Top("G")
		g.Decls = append(g.Decls, fmt.Sprintf("var %s %s", v, typ))
		return fmt.Sprintf("%s = %s\n", v, call), v
	case "return->package-var-initialiser":
		// the creator is called at top level (file scope), not from a function
		v := g.Top("G")
		g.Decls = append(g.Decls, fmt.Sprintf("var %s = %s", v, call))
		return "", v
	case "return->package-slice":
		v := g.Top("S")
		g.Decls = append(g.Decls, fmt.Sprintf("var %s []%s", v, typ))
		k := g.Int(1, 3, "slice-n")
		s := ""
		for i := 0; i < k; i++ {
			s += fmt.Sprintf("%s = append(%s, %s)\n", v, v, call)
		}
		return s, fmt.Sprintf("%s[%d]", v, g.Pick(k, "slice-i"))
	case "return->package-map":
		v := g.Top("M")
		g.Decls = append(g.Decls, fmt.Sprintf("var %s = map[string]%s{}", v, typ))
		return fmt.Sprintf("%s[\"k\"] = %s\n", v, call), v + `["k"]`
	case "return->struct-field":
		v := g.Local("st")
		return fmt.Sprintf("%s := struct{ N int; F %s }{N: 1}\n%s.F = %s\n", v, typ, v, call), v + ".F"
	case "return->captured-by-closure":
		v, w := g.Local("e"), g.Local("w")
		return fmt.Sprintf("%s := %s\n%s := func() %s { return %s }\n", v, call, w, typ, v), w + "()"
	}
	panic(route)
}

// escapeClosure: a creator function whose closures capture a variable and escape.
func (g *gen) escapeClosure() {
	k := capKinds[g.Pick(len(capKinds), "cap-kind")]
	place := capPlaces[g.Pick(len(capPlaces), "cap-place")]
	depth := g.Int(1, 3, "closure-depth")
	route := routes[g.Pick(len(routes), "route")]
	nshare := g.Int(1, 2, "nshare") // closures sharing the variable
	if place == "named-result" {
		nshare = 1
	}
	if k == "complex128" && strings.HasPrefix(route, "stored-by-creator") && place != "named-result" && g.no("F-C06-7") {
		g.skipped("F-C06-7")
		k = "complex64"
	}
	g.escapes++
	g.Tag("escape:closure")
	g.Tag("closure-route:" + route)
	g.Tag("closure-captures:" + place + "/" + capStorage(k))
	g.Tag(fmt.Sprintf("closure-depth-%d", depth))
	if nshare > 1 {
		g.Tag("closures-sharing-variable")
	}
	creator := g.Top("mk")
	// the closure type: func() K returning the (modified) variable
	ftyp := "func() " + k
	rtyp := ftyp
	if nshare == 2 {
		rtyp = "[2]" + ftyp // second closure: modifies without returning the new value... both func() K
	}
	v := "v"
	if place == "param" {
		v = "a"
	}
	inner := fmt.Sprintf("%s\nreturn %s\n", g.capMut(v, k), v)
	lit := "func() " + k + " {\n" + progen.Indent(inner) + "}"
	for i := 1; i < depth; i++ {
		// the closure is created by another closure, called at once
		lit = "func() " + ftyp + " {\n" + progen.Indent("return "+lit+"\n") + "}()"
	}
	peek := "func() " + k + " { return " + v + " }"
	var ret string
	if nshare == 2 {
		ret = "[2]" + ftyp + "{" + lit + ", " + peek + "}"
	} else {
		ret = lit
	}
	stored := strings.HasPrefix(route, "stored-by-creator")
	var sink, sinkDecl, result, finish string
	if stored {
		sink = g.Top("K")
		if strings.HasSuffix(route, "slice") {
			sinkDecl = fmt.Sprintf("var %s []%s", sink, rtyp)
			finish = fmt.Sprintf("%s = append(%s, %s)\n", sink, sink, ret)
		} else {
			sinkDecl = fmt.Sprintf("var %s %s", sink, rtyp)
			finish = fmt.Sprintf("%s = %s\n", sink, ret)
		}
		g.Decls = append(g.Decls, sinkDecl)
	} else {
		result = " " + rtyp
		finish = "return " + ret + "\n"
	}
	var body string
	param := "a " + k
	switch place {
	case "param":
		body = finish
	case "local":
		body = fmt.Sprintf("v := a\n%s\n", g.capMut("v", k)) + finish
	case "block-local":
		if stored {
			body = fmt.Sprintf("if true {\n\tv := a\n%s}\n", progen.Indent(finish))
		} else {
			body = fmt.Sprintf("if true {\n\tv := a\n%s}\npanic(\"unreachable\")\n", progen.Indent(finish))
		}
	case "loop-body-local":
		// one variable per iteration: the closure of the last iteration wins
		n := g.Int(1, 3, "loop-n")
		if stored {
			body = fmt.Sprintf("for i := 0; i < %d; i++ {\n\tv := a\n%s}\n", n, progen.Indent(finish))
		} else {
			body = fmt.Sprintf("var res %s\nfor i := 0; i < %d; i++ {\n\tv := a\n\tres = %s\n}\nreturn res\n", rtyp, n, ret)
		}
	case "named-result":
		// func mk(a K) (v K, f func() K): the closure captures the result variable v
		if stored {
			result = " (v " + k + ")"
			body = "v = a\n" + finish + "return\n"
		} else {
			result = " (v " + k + ", f " + rtyp + ")"
			body = "v = a\nf = " + ret + "\nreturn\n"
		}
	}
	g.Decls = append(g.Decls, fmt.Sprintf("func %s(%s)%s {\n%s}", creator, param, result, progen.Indent(body)))
	arg := g.capLit(k)
	var read string
	switch {
	case stored:
		g.create = append(g.create, fmt.Sprintf("%s(%s)\n", creator, arg))
		read = sink
		if strings.HasSuffix(route, "slice") {
			read = sink + "[0]"
		}
	case place == "named-result":
		a, b := g.Local("nr"), g.Local("e")
		g.create = append(g.create, fmt.Sprintf("%s, %s := %s(%s)\nrec.E(%d, %s)\n", a, b, creator, arg, g.Ev(), a))
		read = b
		g.Tag("closure-route:return->local")
	default:
		var c string
		c, read = g.route(route, rtyp, creator, arg)
		g.create = append(g.create, c)
	}
	if nshare == 2 {
		g.reads = append(g.reads, fmt.Sprintf("rec.E(%d, %s[0](), %s[1]())\n", g.Ev(), read, read))
	} else {
		g.reads = append(g.reads, fmt.Sprintf("rec.E(%d, %s())\n", g.Ev(), read))
	}
}

// escapePointer: a creator function returning / storing the address of a variable.
func (g *gen) escapePointer() {
	k := capKinds[g.Pick(len(capKinds), "ptr-kind")]
	ptrPlaces := append(append([]string{}, capPlaces...), "multi-assign-local", "multi-assign-local")
	place := ptrPlaces[g.Pick(len(ptrPlaces), "ptr-place")]
	route := routes[g.Pick(len(routes), "ptr-route")]
	// extra parameters put the creator on the generic function path whatever the kind of a
	extraParams, extraArgs := "", ""
	if g.Chance(1, 2, "ptr-3-params") {
		g.Tag("pointer-creator:3-parameters(generic-path)")
		extraParams, extraArgs = ", b int, c string", ", 1, \"q\""
	}
	stored := strings.HasPrefix(route, "stored-by-creator")
	if k == "complex128" && g.no("F-C06-5") {
		// F-C06-5: the address of a complex128 variable does not compile
		g.skipped("F-C06-5")
		k = "complex64"
	}
	g.escapes++
	g.Tag("escape:pointer")
	g.Tag("pointer-route:" + route)
	g.Tag("pointer-to:" + place + "/" + capStorage(k))
	creator := g.Top("mp")
	ptyp := "*" + k
	target := "&v"
	alsoClosure := false
	var body, result string
	var sink string
	if stored {
		sink = g.Top("P")
		if strings.HasSuffix(route, "slice") {
			g.Decls = append(g.Decls, fmt.Sprintf("var %s []%s", sink, ptyp))
		} else {
			g.Decls = append(g.Decls, fmt.Sprintf("var %s %s", sink, ptyp))
		}
	} else {
		result = " " + ptyp
	}
	fin := func(t string) string {
		if stored {
			if strings.HasSuffix(route, "slice") {
				return fmt.Sprintf("%s = append(%s, %s)\n", sink, sink, t)
			}
			return fmt.Sprintf("%s = %s\n", sink, t)
		}
		return "return " + t + "\n"
	}
	switch place {
	case "param":
		target = "&a"
		body = fin(target)
	case "local":
		extra := ""
		if !stored && g.Chance(1, 3, "ptr-and-closure") {
			// the same variable is also captured by a closure that runs before returning
			alsoClosure = true
			g.Tag("pointer-and-closure-same-variable")
			extra = fmt.Sprintf("func() { %s }()\n", strings.ReplaceAll(g.capMut("v", k), "\n", "; "))
		}
		body = fmt.Sprintf("w := 1\nv := a\n_ = w\n%s%s", extra, fin(target))
	case "block-local":
		if stored {
			body = fmt.Sprintf("{\n\tv := a\n%s}\n", progen.Indent(fin(target)))
		} else {
			body = fmt.Sprintf("if true {\n\tv := a\n%s}\nreturn nil\n", progen.Indent(fin(target)))
		}
	case "loop-body-local":
		n := g.Int(1, 3, "ptr-loop-n")
		if stored {
			body = fmt.Sprintf("for i := 0; i < %d; i++ {\n\tv := a\n%s}\n", n, progen.Indent(fin(target)))
		} else {
			body = fmt.Sprintf("var res %s\nfor i := 0; i < %d; i++ {\n\tv := a\n\tres = &v\n}\nreturn res\n", ptyp, n)
		}
	case "named-result":
		if stored {
			result = " (v " + k + ")"
			body = fin(target) + "v = a\nreturn\n"
		} else {
			result = " (v " + k + ", p " + ptyp + ")"
			body = "p = &v\nv = a\nreturn\n"
		}
	case "multi-assign-local":
		// v, w := f(): locals declared from a multi-valued call
		pair := g.Top("pair")
		g.Decls = append(g.Decls, fmt.Sprintf("func %s(a %s) (%s, int) {\n\treturn a, 1\n}", pair, k, k))
		body = fmt.Sprintf("v, w := %s(a)\n_ = w\n%s", pair, fin(target))
	}
	_ = alsoClosure
	if extraParams != "" {
		body = "_, _ = b, c\n" + body
	}
	g.Decls = append(g.Decls, fmt.Sprintf("func %s(a %s%s)%s {\n%s}", creator, k, extraParams, result, progen.Indent(body)))
	arg := g.capLit(k) + extraArgs
	// later calls of the SAME creator with other arguments: they reuse its frame
	recall := ""
	if !(stored && !strings.HasSuffix(route, "slice")) && g.Chance(3, 4, "ptr-recall") {
		g.Tag("pointer-creator-called-again->=33-times-with-other-arguments")
		// every pointer is kept and some are read after the burn: each call must have
		// given its variable a cell of its own
		i, keep := g.Local("ci"), g.Local("keep")
		call := fmt.Sprintf("%s(%s%s)", creator, argOf(k, i), extraArgs)
		var stmt string
		switch {
		case stored:
			stmt = call
			keep = sink
		case place == "named-result":
			q := g.Local("kp")
			stmt = fmt.Sprintf("_, %s := %s\n\t%s = append(%s, %s)", q, call, keep, keep, q)
		default:
			stmt = fmt.Sprintf("%s = append(%s, %s)", keep, keep, call)
		}
		if !stored {
			recall = fmt.Sprintf("var %s []%s\n", keep, ptyp)
		}
		recall += fmt.Sprintf("for %s := 0; %s < %d; %s++ {\n\t%s\n}\n", i, i, g.Int(33, 50, "ptr-recall-n"), i, stmt)
		g.reads = append(g.reads, fmt.Sprintf("rec.E(%d, *%s[1], *%s[2], *%s[len(%s)/2], *%s[len(%s)-1])\n", g.Ev(), keep, keep, keep, keep, keep, keep))
	}
	var read string
	switch {
	case stored:
		g.create = append(g.create, fmt.Sprintf("%s(%s)\n", creator, arg)+recall)
		read = sink
		if strings.HasSuffix(route, "slice") {
			read = sink + "[0]"
		}
	case place == "named-result":
		a, b := g.Local("nr"), g.Local("e")
		g.create = append(g.create, fmt.Sprintf("%s, %s := %s(%s)\nrec.E(%d, %s)\n", a, b, creator, arg, g.Ev(), a)+recall)
		read = b
	default:
		var c string
		c, read = g.route(route, ptyp, creator, arg)
		g.create = append(g.create, c+recall)
	}
	// read, then modify through the pointer (the next round of reads sees the change)
	g.reads = append(g.reads, fmt.Sprintf("rec.E(%d, *%s)\n%s\n", g.Ev(), read, g.capMut("(*"+read+")", k)))
}

// argOf returns an expression of kind k whose value depends on the int variable i.
func argOf(k, i string) string {
	switch k {
	case "[]int":
		return "[]int{" + i + ", " + i + " + 1}"
	case "[2]int":
		return "[2]int{" + i + ", 7}"
	case "struct{A int; B string}":
		return "struct{A int; B string}{" + i + ", \"q\"}"
	case "string":
		return "\"abcdefgh\"[" + i + "%5:]"
	case "bool":
		return i + "%2 == 0"
	case "complex128", "complex64":
		return k + "(complex(float64(" + i + "), 1))"
	}
	return k + "(" + i + ")"
}

// escapeRecursion: every level of a recursion leaves a closure or a pointer behind.
func (g *gen) escapeRecursion() {
	depth := g.Int(2, 200, "rec-depth")
	if g.Chance(1, 4, "rec-deep") {
		depth = g.Int(150, 200, "rec-depth-deep")
	}
	g.escapes++
	g.Tag("escape:recursion-levels")
	g.Tag(fmt.Sprintf("recursion-depth:%s", bucket(depth)))
	sink, r := g.Top("R"), g.Top("rec")
	usePtr := g.Bool("rec-ptr")
	k := g.OneOf("rec-kind", "int", "string", "int64")
	val := "n"
	switch k {
	case "string":
		val = `"s"[:n%2]`
	case "int64":
		val = "int64(n) * 3"
	}
	after := g.capMut("v", k)
	if usePtr {
		g.Tag("recursion-leaves:pointer/" + storage(k))
		g.Decls = append(g.Decls, fmt.Sprintf("var %s []*%s", sink, k))
		g.Decls = append(g.Decls, fmt.Sprintf("func %s(n int) int {\n\tif n <= 0 {\n\t\treturn 0\n\t}\n\tv := %s\n\t%s = append(%s, &v)\n\td := %s(n-1)\n\t%s\n\treturn d + 1\n}",
			r, val, sink, sink, r, after))
	} else {
		g.Tag("recursion-leaves:closure/" + storage(k))
		g.Decls = append(g.Decls, fmt.Sprintf("var %s []func() %s", sink, k))
		g.Decls = append(g.Decls, fmt.Sprintf("func %s(n int) int {\n\tif n <= 0 {\n\t\treturn 0\n\t}\n\tv := %s\n\t%s = append(%s, func() %s { return v })\n\td := %s(n-1)\n\t%s\n\treturn d + 1\n}",
			r, val, sink, sink, k, r, after))
	}
	g.create = append(g.create, fmt.Sprintf("rec.E(%d, %s(%d))\n", g.Ev(), r, depth))
	it, e := g.Local("j"), g.Local("pe")
	get := e + "()"
	if usePtr {
		get = "*" + e
	}
	g.reads = append(g.reads, fmt.Sprintf("for %s, %s := range %s {\n\tif %s%%%d == 0 || %s == len(%s)-1 {\n\t\trec.E(%d, %s, %s)\n\t}\n}\n",
		it, e, sink, it, g.Int(1, 17, "rec-stride"), it, sink, g.Ev(), it, get))
}

func bucket(n int) string {
	switch {
	case n <= 32:
		return "<=32"
	case n <= 100:
		return "33-100"
	case n < 200:
		return "101-199"
	}
	return "200"
}

// plainRecursion: deep recursion of a random specialisation whose locals must survive the recursive call.
func (g *gen) plainRecursion() string {
	depth := g.Int(1, 200, "prec-depth")
	if g.Chance(1, 5, "prec-max") {
		depth = 200
	}
	g.Tag("recursion:plain")
	g.Tag(fmt.Sprintf("recursion-depth:%s", bucket(depth)))
	r := g.Top("rc")
	switch g.Pick(4, "prec-form") {
	case 0: // func1ret1 int
		g.Decls = append(g.Decls, fmt.Sprintf("func %s(n int) int {\n\tif n <= 0 {\n\t\treturn %d\n\t}\n\tx := n * 3\n\ty := %s(n - 1)\n\treturn x + y%%1000\n}", r, g.Int(0, 9, "base"), r))
		return fmt.Sprintf("rec.E(%d, %s(%d))\n", g.Ev(), r, depth)
	case 1: // two params, string accumulation (generic path)
		g.Decls = append(g.Decls, fmt.Sprintf("func %s(n int, s string) (int, string) {\n\tif n <= 0 {\n\t\treturn 0, s\n\t}\n\tt := s\n\tif n%%50 == 0 {\n\t\tt += \"x\"\n\t}\n\tk, u := %s(n-1, t)\n\treturn k + len(t), u\n}", r, r))
		return fmt.Sprintf("rec.E(%d)\nrec.E(%s(%d, \"\"))\n", g.Ev(), r, depth)
	case 2: // mutual recursion, func1ret1 bool
		// (mutually recursive DECLARED functions need a forward reference between
		// declarations: out-of-order declarations belong to C16/C17, where gomacro's
		// missing forward declaration of functions is recorded; here the cycle is
		// closed through a package-level function variable assigned once)
		r2, fw := g.Top("rd"), g.Top("fw")
		g.Tag("excluded-shape:mutual-recursion-of-declared-functions")
		g.Decls = append(g.Decls, fmt.Sprintf("var %s func(uint) bool", fw))
		g.Decls = append(g.Decls, fmt.Sprintf("func %s(n uint) bool {\n\tif n == 0 {\n\t\treturn true\n\t}\n\treturn %s(n - 1)\n}", r, fw))
		g.Decls = append(g.Decls, fmt.Sprintf("func %s(n uint) bool {\n\tif n == 0 {\n\t\treturn false\n\t}\n\treturn %s(n - 1)\n}", r2, r))
		g.Tag("recursion:mutual-through-func-var")
		return fmt.Sprintf("%s = %s\nrec.E(%d, %s(%d), %s(%d))\n", fw, r2, g.Ev(), r, depth, r2, depth)
	default: // recursive closure through a captured variable
		g.Tag("recursion:closure")
		v := g.Local("fib")
		return fmt.Sprintf("var %s func(int) int\n%s = func(n int) int {\n\tif n < 2 {\n\t\treturn n\n\t}\n\ta := %s(n - 1)\n\treturn a + %s(n-2)\n}\nrec.E(%d, %s(%d))\n",
			v, v, v, v, g.Ev(), v, g.Int(1, 15, "fib-n"))
	}
}

// ---------------------------------------------------------------- variadic, multi-value, method values

func (g *gen) variadic() string {
	g.Tag("variadic")
	pre := g.OneOf("var-pre", "", "int", "string", "float64")
	ek := g.OneOf("var-elem", "int", "string", "uint8", "interface{}")
	nres := g.Pick(3, "var-nres")
	f := g.Top("va")
	var plist, recs []string
	if pre != "" {
		plist = append(plist, "p "+pre)
		recs = append(recs, "p")
	}
	plist = append(plist, "xs ..."+ek)
	results := []string{"", " int", " (int, string)"}[nres]
	var b strings.Builder
	if g.no("F-C06-3") {
		// F-C06-3: a variadic parameter without arguments is an empty slice, not nil
		fmt.Fprintf(&b, "rec.E(%s)\n", strings.Join(append(append([]string{fmt.Sprint(g.Ev())}, recs...), "len(xs)"), ", "))
	} else {
		fmt.Fprintf(&b, "rec.E(%s)\n", strings.Join(append(append([]string{fmt.Sprint(g.Ev())}, recs...), "len(xs)", "xs == nil"), ", "))
	}
	fmt.Fprintf(&b, "for i, x := range xs {\n\trec.E(%d, i, x)\n}\n", g.Ev())
	elemLit := func() string {
		if ek == "interface{}" {
			return g.OneOf("iface-lit", "1", `"s"`, "nil", "2.5")
		}
		return g.lit(ek)
	}
	fmt.Fprintf(&b, "if len(xs) > 0 {\n\txs[0] = %s\n}\n", elemLit())
	switch nres {
	case 1:
		b.WriteString("return len(xs) * 2\n")
	case 2:
		b.WriteString("return len(xs), \"v\"\n")
	}
	g.Decls = append(g.Decls, fmt.Sprintf("func %s(%s)%s {\n%s}", f, strings.Join(plist, ", "), results, progen.Indent(b.String())))
	g.Tag(fmt.Sprintf("variadic-%dres", nres))
	wrap := func(call string) string {
		switch nres {
		case 0:
			return call + "\n"
		case 1:
			return fmt.Sprintf("rec.E(%d, %s)\n", g.Ev(), call)
		}
		a, c := g.Local("va"), g.Local("vb")
		return fmt.Sprintf("%s, %s := %s\nrec.E(%d, %s, %s)\n", a, c, call, g.Ev(), a, c)
	}
	prearg := ""
	if pre != "" {
		prearg = g.lit(pre) + ", "
	}
	var s strings.Builder
	callee := f
	if g.Chance(1, 3, "variadic-through-var") {
		g.Tag("variadic-through-func-var")
		callee = g.Local("vf")
		fmt.Fprintf(&s, "%s := %s\n", callee, f)
	}
	n := g.Int(2, 5, "var-ncalls")
	for i := 0; i < n; i++ {
		switch g.Pick(5, "var-form") {
		case 0:
			g.Tag("variadic-call:no-extra-args")
			if g.no("F-C06-3") {
				g.skipped("F-C06-3")
			}
			s.WriteString(wrap(fmt.Sprintf("%s(%s)", callee, strings.TrimSuffix(prearg, ", "))))
		case 1:
			g.Tag("variadic-call:one-arg")
			s.WriteString(wrap(fmt.Sprintf("%s(%s%s)", callee, prearg, elemLit())))
		case 2:
			g.Tag("variadic-call:several-args")
			s.WriteString(wrap(fmt.Sprintf("%s(%s%s, %s, %s)", callee, prearg, elemLit(), elemLit(), elemLit())))
		case 3:
			g.Tag("variadic-call:slice...")
			sl := g.Local("sl")
			fmt.Fprintf(&s, "%s := []%s{%s, %s}\n", sl, ek, elemLit(), elemLit())
			s.WriteString(wrap(fmt.Sprintf("%s(%s%s...)", callee, prearg, sl)))
			// the callee wrote into the caller's slice
			fmt.Fprintf(&s, "rec.E(%d, %s)\n", g.Ev(), sl)
		default:
			g.Tag("variadic-call:nil-slice...")
			s.WriteString(wrap(fmt.Sprintf("%s(%s[]%s(nil)...)", callee, prearg, ek)))
		}
	}
	if ek != "interface{}" && g.Chance(1, 2, "variadic-multivalue") {
		// f(g()) with a variadic f
		g.Tag("variadic-call:f(g())")
		gg := g.Top("mv")
		var rts, rvs []string
		if pre != "" {
			rts = append(rts, pre)
			rvs = append(rvs, g.lit(pre))
		}
		k := g.Int(1, 3, "mv-n")
		if pre != "" {
			k = g.Int(0, 2, "mv-n0")
			if k == 0 && len(rts) == 1 {
				k = 1 // a single result is not a multi-value call
			}
		} else if k == 1 {
			k = 2
		}
		for i := 0; i < k; i++ {
			rts = append(rts, ek)
			rvs = append(rvs, g.lit(ek))
		}
		g.Decls = append(g.Decls, fmt.Sprintf("func %s() (%s) {\n\trec.E(%d)\n\treturn %s\n}", gg, strings.Join(rts, ", "), g.Ev(), strings.Join(rvs, ", ")))
		s.WriteString(wrap(fmt.Sprintf("%s(%s())", callee, gg)))
	}
	return s.String()
}

func (g *gen) multiValue() string {
	g.Tag("multi-value")
	n := g.Int(2, 4, "mv-nres")
	var rts, rvs, names []string
	for i := 0; i < n; i++ {
		k := g.sigKind("mv-kind")
		rts = append(rts, k)
		rvs = append(rvs, g.lit(k))
		names = append(names, fmt.Sprintf("m%d", i))
	}
	src := g.Top("g")
	if g.Bool("mv-named") {
		g.Tag("multi-value:named-results")
		var l, as []string
		for i := range rts {
			l = append(l, fmt.Sprintf("r%d %s", i, rts[i]))
			as = append(as, fmt.Sprintf("r%d = %s", i, rvs[i]))
		}
		g.Decls = append(g.Decls, fmt.Sprintf("func %s() (%s) {\n\trec.E(%d)\n\t%s\n\treturn\n}", src, strings.Join(l, ", "), g.Ev(), strings.Join(as, "\n\t")))
	} else {
		g.Decls = append(g.Decls, fmt.Sprintf("func %s() (%s) {\n\trec.E(%d)\n\treturn %s\n}", src, strings.Join(rts, ", "), g.Ev(), strings.Join(rvs, ", ")))
	}
	// consumer f(params = results of g)
	cons := g.Top("c")
	var pl []string
	for i, k := range rts {
		pl = append(pl, fmt.Sprintf("%s %s", names[i], k))
	}
	nres := g.Pick(3, "cons-nres")
	var res, ret string
	switch nres {
	case 1:
		res, ret = " "+rts[n-1], "return "+names[n-1]+"\n"
	case 2:
		res, ret = " ("+rts[1]+", "+rts[0]+")", "return "+names[1]+", "+names[0]+"\n"
	}
	g.Decls = append(g.Decls, fmt.Sprintf("func %s(%s)%s {\n\trec.E(%d, %s)\n\t%s}", cons, strings.Join(pl, ", "), res, g.Ev(), strings.Join(names, ", "), ret))
	g.Tag(fmt.Sprintf("f(g()):%d-values-%d-results", n, nres))
	var s string
	call := fmt.Sprintf("%s(%s())", cons, src)
	switch nres {
	case 0:
		s = call + "\n"
	case 1:
		s = fmt.Sprintf("rec.E(%d, %s)\n", g.Ev(), call)
	default:
		a, b := g.Local("ma"), g.Local("mb")
		s = fmt.Sprintf("%s, %s := %s\nrec.E(%d, %s, %s)\n", a, b, call, g.Ev(), a, b)
		if n == 2 && rts[0] == rts[1] && g.Bool("mv-chain") {
			// c(c(g())): both calls take a multi-value argument
			g.Tag("f(f(g()))")
			s += fmt.Sprintf("rec.E(%d)\nrec.E(%s(%s(%s())))\n", g.Ev(), cons, cons, src)
		}
	}
	// plain multiple assignment and rec.E(g()) (multi-value into a variadic compiled function)
	var ls []string
	for range rts {
		ls = append(ls, g.Local("t"))
	}
	s += fmt.Sprintf("%s := %s()\nrec.E(%d, %s)\n", strings.Join(ls, ", "), src, g.Ev(), strings.Join(ls, ", "))
	if g.Bool("mv-into-compiled-variadic") {
		g.Tag("compiled-variadic(g())")
		s += fmt.Sprintf("rec.E(%d)\nrec.E(%s())\n", g.Ev(), src)
	}
	return s
}

// methodValues: method values and method expressions of an interpreted named type,
// bound receivers escaping like closures do.
func (g *gen) methodValues() {
	g.Tag("method-values")
	g.escapes++
	T := g.Top("T")
	recvKind := g.OneOf("recv-kind", "struct", "struct", "int", "array")
	var tdecl, field, litv, mut string
	switch recvKind {
	case "struct":
		tdecl = fmt.Sprintf("type %s struct {\n\tx int\n\ts string\n}", T)
		field, litv, mut = "t.x", fmt.Sprintf("%s{%d, \"r\"}", T, g.Int(1, 9, "tx")), ".x += 10"
	case "int":
		tdecl = fmt.Sprintf("type %s int", T)
		field, litv, mut = "int(t)", fmt.Sprintf("%s(%d)", T, g.Int(1, 9, "tx")), " += 10"
	case "array":
		tdecl = fmt.Sprintf("type %s [2]int", T)
		field, litv, mut = "t[0]", fmt.Sprintf("%s{%d, 2}", T, g.Int(1, 9, "tx")), "[0] += 10"
	}
	g.Tag("method-receiver:" + recvKind)
	g.Decls = append(g.Decls, tdecl)
	g.Decls = append(g.Decls, fmt.Sprintf("func (t %s) Get(d int) int {\n\trec.E(%d, d)\n\treturn %s + d\n}", T, g.Ev(), field))
	incBody := map[string]string{"struct": "t.x++", "int": "*t++", "array": "t[0]++"}[recvKind]
	g.Decls = append(g.Decls, fmt.Sprintf("func (t *%s) Inc() {\n\t%s\n}", T, incBody))
	g.Decls = append(g.Decls, fmt.Sprintf("func (t %s) Sum(xs ...int) int {\n\tn := %s\n\tfor _, x := range xs {\n\t\tn += x\n\t}\n\treturn n\n}", T, field))
	// creator: returns method values bound to a local variable
	mk := g.Top("mm")
	incOf := func(v string) string { return v + ".Inc" }
	if recvKind == "int" && g.no("F-C06-8") {
		// F-C06-8: x.M() / x.M with a pointer-receiver M on a variable of a named type
		// of an int-slot kind: the variable is not addressed. Go through an explicit pointer.
		g.skipped("F-C06-8")
		incOf = func(v string) string { return "(&" + v + ").Inc" }
	}
	g.Decls = append(g.Decls, fmt.Sprintf("func %s() (func(int) int, func(), func() int) {\n\tt := %s\n\tget, inc := t.Get, %s\n\treturn get, inc, func() int { return %s }\n}", mk, litv, incOf("t"), field))
	a, b, c := g.Local("get"), g.Local("inc"), g.Local("peek")
	g.create = append(g.create, fmt.Sprintf("%s, %s, %s := %s()\n", a, b, c, mk))
	// inc() works on the variable (pointer receiver), get was bound to a copy (value receiver)
	modify := true
	if recvKind != "int" && g.no("F-C06-2") {
		// F-C06-2: a method value with a value receiver of struct/array type is bound to the
		// variable itself, not to a copy: do not modify the variable before the calls
		modify = false
		g.skipped("F-C06-2")
	}
	if modify {
		g.reads = append(g.reads, fmt.Sprintf("%s()\nrec.E(%d, %s(1), %s())\n", b, g.Ev(), a, c))
	} else {
		g.reads = append(g.reads, fmt.Sprintf("_ = %s\nrec.E(%d, %s(1), %s())\n", b, g.Ev(), a, c))
	}
	// in the entry function: method value vs later modification of the receiver variable
	t := g.Local("t")
	var s strings.Builder
	fmt.Fprintf(&s, "%s := %s\n", t, litv)
	m, m2 := g.Local("m"), g.Local("m")
	fmt.Fprintf(&s, "%s := %s.Get\n%s := %s.Sum\n", m, t, m2, t)
	if g.Chance(3, 4, "mv-modify") && modify {
		g.Tag("method-value-then-receiver-modified")
		fmt.Fprintf(&s, "%s%s\n", t, mut)
	}
	fmt.Fprintf(&s, "rec.E(%d, %s(2), %s(), %s(1, 2), %s.Get(0))\n", g.Ev(), m, m2, m2, t)
	// (the method values m, m2 are not called any more below)
	g.Tag("method-value:pointer-receiver")
	pi := g.Local("pinc")
	fmt.Fprintf(&s, "%s := %s\n%s()\n%s()\nrec.E(%d, %s.Get(0))\n", pi, incOf(t), pi, pi, g.Ev(), t)
	if !(recvKind == "int" && g.no("F-C06-8")) {
		g.Tag("pointer-receiver-call-on-variable")
		fmt.Fprintf(&s, "%s.Inc()\nrec.E(%d, %s.Get(0))\n", t, g.Ev(), t)
	}
	g.Tag("method-expression")
	fmt.Fprintf(&s, "rec.E(%d, %s.Get(%s, 3), %s.Sum(%s, 4, 5))\n", g.Ev(), T, t, T, t)
	if g.no("F-C06-4") {
		// F-C06-4: method expression (*T).M of a value-receiver method M does not compile
		g.skipped("F-C06-4")
		fmt.Fprintf(&s, "(*%s).Inc(&%s)\nrec.E(%d, %s.Get(0))\n", T, t, g.Ev(), t)
	} else {
		fmt.Fprintf(&s, "(*%s).Inc(&%s)\nrec.E(%d, (*%s).Get(&%s, 0))\n", T, t, g.Ev(), T, t)
	}
	g.create = append(g.create, s.String())
}

// pkgFuncVar: a package-level function variable assigned from inside functions and
// called from inside functions (call sites caching the function value).
func (g *gen) pkgFuncVar() string {
	g.Tag("package-func-var")
	np := g.Pick(3, "pfv-np")
	nr := g.Pick(2, "pfv-nr")
	ks := []string{"int", "string", "float64", "bool", "uint8"}
	var ps []string
	for i := 0; i < np; i++ {
		ps = append(ps, ks[g.Pick(len(ks), "pfv-kind")])
	}
	var rs []string
	if nr == 1 {
		rs = []string{"int"}
	}
	f := &fn{params: ps, results: rs}
	v := g.Top("F")
	g.Decls = append(g.Decls, fmt.Sprintf("var %s %s", v, f.typ()))
	g.Tag(fmt.Sprintf("package-func-var:call%dret%d", np, nr))
	var pl []string
	for i, k := range ps {
		pl = append(pl, fmt.Sprintf("a%d %s", i, k))
	}
	lines := fmt.Sprintf("rec.E(%d, n)\n", g.Ev())
	rtxt := ""
	if nr == 1 {
		lines += "return n\n"
		rtxt = " int"
	}
	set := g.Top("set")
	g.Decls = append(g.Decls, fmt.Sprintf("func %s(n int) {\n\t%s = func(%s)%s {\n%s\t}\n}", set, v, strings.Join(pl, ", "), rtxt, progen.Indent(progen.Indent(lines))))
	call := g.Top("call")
	g.Decls = append(g.Decls, fmt.Sprintf("func %s() {\n%s}", call, progen.Indent(g.callStmt(f, v, func(k string, i int) string { return g.lit(k) }))))
	var s strings.Builder
	nset := g.Int(1, 3, "pfv-nset")
	if nset > 1 && g.no("F-C06-1") {
		// F-C06-1: the call site inside `call` keeps calling the first function assigned
		g.skipped("F-C06-1")
		nset = 1
	}
	if nset > 1 {
		g.Tag("package-func-var-reassigned-between-calls")
	}
	for i := 0; i < nset; i++ {
		fmt.Fprintf(&s, "%s(%d)\n%s()\n", set, g.Int(1, 99, "pfv-n"), call)
		if g.Bool("pfv-call-twice") {
			fmt.Fprintf(&s, "%s()\n", call)
		}
	}
	return s.String()
}

// sharedCounter: several closures created in the entry function share variables at
// different depths; called interleaved.
// namedResultsReturn: a function with 2-4 named results of mixed kinds (int slots and
// boxed) whose return statements list expressions over the named results themselves, in
// permuted / cross-referencing order (all operands must be evaluated before any result is
// assigned), combined with deferred closures that observe and modify the results, bare
// returns and several return statements.
func (g *gen) namedResultsReturn() string {
	g.Tag("named-results-return")
	kinds := []string{"int", "int", "string", "float64", "uint8", "bool", "int64", "string", "complex128", "uint"}
	n := g.Int(2, 4, "nr-n")
	names := []string{"x", "y", "z", "w"}[:n]
	ks := make([]string, n)
	for i := range ks {
		ks[i] = kinds[g.Pick(len(kinds), "nr-kind")]
	}
	if g.Chance(2, 3, "nr-same-kind") {
		ks[1] = ks[0] // a pure swap needs two results of one type
	}
	g.Tag(fmt.Sprintf("named-results-return:%d-results", n))
	for _, k := range ks {
		g.Tag("named-result:" + storage(k))
	}
	var rl []string
	for i := range ks {
		rl = append(rl, names[i]+" "+ks[i])
	}
	// an operand list for `return`: result i is computed from result perm[i]
	operands := func() string {
		perm := rapid.Permutation(seqInts(n)).Draw(g.T, "nr-perm")
		if g.no("F-C06-9") {
			// F-C06-9: the results are assigned one after the other: no operand reads
			// another named result
			g.skipped("F-C06-9")
			perm = seqInts(n)
		}
		var ops []string
		cross := false
		for i := range ks {
			j := perm[i]
			switch {
			case j != i && ks[j] == ks[i] && g.Bool("nr-plain"):
				ops = append(ops, names[j]) // return y, x
				cross = true
			case g.Chance(1, 6, "nr-lit"):
				ops = append(ops, g.lit(ks[i]))
			default:
				e := g.conv(names[j], ks[j], ks[i])
				if strings.Contains(e, names[j]) && j != i {
					cross = true
				}
				if ks[j] == ks[i] && j != i && class(ks[i]) != "bool" && class(ks[i]) != "string" && g.Bool("nr-sum") {
					e = names[i] + " + " + names[j] // return x + y, x
				}
				ops = append(ops, e)
			}
		}
		if cross {
			g.Tag("return-operands-read-other-named-results")
		}
		return strings.Join(ops, ", ")
	}
	var b strings.Builder
	for i := range ks {
		if ks[i] == "int" {
			fmt.Fprintf(&b, "%s = a + %d\n", names[i], g.Int(1, 9, "nr-init"))
		} else {
			fmt.Fprintf(&b, "%s = %s\n", names[i], g.lit(ks[i]))
		}
	}
	if g.Chance(1, 2, "nr-defer") {
		g.Tag("named-results-return:deferred-closure-observes-and-modifies")
		var muts []string
		for i := range ks {
			if g.Bool("nr-mut") {
				muts = append(muts, g.capMut(names[i], ks[i]))
			}
		}
		fmt.Fprintf(&b, "defer func() {\n\trec.E(%d, %s)\n%s}()\n", g.Ev(), strings.Join(names, ", "), progen.Indent(strings.Join(muts, "\n")))
	}
	fmt.Fprintf(&b, "if a%%2 == 0 {\n\trec.E(%d, %s)\n\treturn %s\n}\n", g.Ev(), strings.Join(names, ", "), operands())
	if g.Bool("nr-step") {
		i := g.Pick(n, "nr-step-which")
		fmt.Fprintf(&b, "%s\n", g.capMut(names[i], ks[i]))
	}
	if g.Chance(1, 3, "nr-bare") {
		g.Tag("named-results-return:bare-return")
		b.WriteString("return\n")
	} else {
		fmt.Fprintf(&b, "return %s\n", operands())
	}
	f := g.Top("nr")
	g.Decls = append(g.Decls, fmt.Sprintf("func %s(a int) (%s) {\n%s}", f, strings.Join(rl, ", "), progen.Indent(b.String())))
	var s strings.Builder
	for _, arg := range []int{g.Int(0, 4, "nr-arg") * 2, g.Int(0, 4, "nr-arg2")*2 + 1} {
		var vs []string
		for range ks {
			vs = append(vs, g.Local("n"))
		}
		fmt.Fprintf(&s, "%s := %s(%d)\nrec.E(%d, %s)\n", strings.Join(vs, ", "), f, arg, g.Ev(), strings.Join(vs, ", "))
	}
	return s.String()
}

// rangeAssignOuter: `for k, v = range x` assigning (not declaring) variables of an
// enclosing scope that a closure also reads, the loop 0-2 blocks deeper than the variables.
func (g *gen) rangeAssignOuter() string {
	g.Tag("range-assigns-outer-variables")
	k, v, f := g.Local("rk"), g.Local("rv"), g.Local("rf")
	vt, src := "int", fmt.Sprintf("[]int{%d, %d, %d}", g.Int(0, 9, "ra0"), g.Int(0, 9, "ra1"), g.Int(0, 9, "ra2"))
	switch g.Pick(3, "range-src") {
	case 0:
		g.Tag("range-assigns-outer:string")
		vt, src = "rune", g.OneOf("ra-str", `"abc"`, `"héé"`, `"x"`, `""`)
	case 1:
		g.Tag("range-assigns-outer:array")
		src = fmt.Sprintf("[3]int{%d, %d, 7}", g.Int(0, 9, "ra3"), g.Int(0, 9, "ra4"))
	default:
		g.Tag("range-assigns-outer:slice")
	}
	if vt == "rune" && g.no("F-C06-11") {
		// F-C06-11: the key variable of an assigning string range ends at len(s)
		g.skipped("F-C06-11")
		vt, src = "int", "[]int{4, 5}"
	}
	vars := k + ", " + v
	if vt == "rune" && g.no("F-C06-10") {
		// F-C06-10: the rune of a string range assigned to a variable of an outer frame
		g.skipped("F-C06-10")
		vars = k
	} else if g.Chance(1, 4, "ra-blank-key") {
		vars = "_, " + v
	}
	depth := g.Int(0, 2, "ra-depth")
	g.Tag(fmt.Sprintf("range-assigns-outer:depth-%d", depth))
	loop := fmt.Sprintf("for %s = range %s {\n\trec.E(%d)\n\trec.E(%s())\n}\n", vars, src, g.Ev(), f)
	for i := 0; i < depth; i++ {
		w := g.Local("rw")
		loop = fmt.Sprintf("if %s := %d; %s >= 0 {\n%s}\n", w, i, w, progen.Indent(loop))
	}
	return fmt.Sprintf("var %s int\nvar %s %s\n%s := func() (int, %s) { return %s, %s }\n%srec.E(%d, %s, %s)\n", k, v, vt, f, vt, k, v, loop, g.Ev(), k, v)
}

func seqInts(n int) []int {
	l := make([]int, n)
	for i := range l {
		l[i] = i
	}
	return l
}

func (g *gen) sharedCounter() string {
	g.Tag("shared-counter-closures")
	k := capKinds[g.Pick(9, "sc-kind")] // scalar kinds only
	c := g.Local("c")
	inc, get, nest := g.Local("inc"), g.Local("get"), g.Local("nest")
	var s strings.Builder
	fmt.Fprintf(&s, "%s := %s\n", c, g.lit(k))
	fmt.Fprintf(&s, "%s := func() { %s }\n", inc, g.capMut(c, k))
	fmt.Fprintf(&s, "%s := func() %s { return %s }\n", get, k, c)
	incCall := inc + "()"
	if g.no("F-C06-6") {
		g.skipped("F-C06-6")
		incCall = g.capMut(c, k)
	}
	fmt.Fprintf(&s, "%s := func() func() %s {\n\tz := %s\n\treturn func() %s {\n\t\t%s\n\t\t%s\n\t\treturn z\n\t}\n}()\n", nest, k, c, k, incCall, g.capMut("z", k))
	n := g.Int(2, 5, "sc-n")
	for i := 0; i < n; i++ {
		switch g.Pick(3, "sc-op") {
		case 0:
			fmt.Fprintf(&s, "%s()\n", inc)
		case 1:
			fmt.Fprintf(&s, "rec.E(%d, %s())\n", g.Ev(), nest)
		default:
			fmt.Fprintf(&s, "%s\n", g.capMut(c, k))
		}
		fmt.Fprintf(&s, "rec.E(%d, %s(), %s)\n", g.Ev(), get, c)
	}
	fmt.Fprintf(&s, "%s()\nrec.E(%d, %s(), %s())\n", inc, g.Ev(), nest, get)
	return s.String()
}

func min(a, b int) int {
	if a < b {
		return a
	}
	return b
}

// Generate builds one C06 program. avoidF1 / avoidF2 switch off, by construction, the
// two shapes covered by known findings.
func generate(t *rapid.T, px string, avoid map[string]bool) gobatch.Program {
	g := &gen{G: progen.New(t, px, 0), avoid: avoid, named: map[string]string{}}
	nq := g.Int(2, 4, "nquiet")
	for i := 0; i < nq; i++ {
		g.quietFunc()
	}
	var mid []string // statements without a read-after-burn part
	nscen := g.Int(2, 6, "nscenarios")
	for i := 0; i < nscen; i++ {
		switch g.Pick(21, "scenario") {
		case 0, 1, 2:
			g.escapeClosure()
		case 3, 4:
			g.escapePointer()
		case 5:
			g.escapeRecursion()
		case 6:
			mid = append(mid, g.plainRecursion())
		case 7:
			mid = append(mid, g.variadic())
		case 8:
			mid = append(mid, g.multiValue())
		case 9:
			g.methodValues()
		case 10:
			mid = append(mid, g.pkgFuncVar())
		case 11:
			mid = append(mid, g.sharedCounter())
		case 12:
			mid = append(mid, g.funcLitCalls())
		case 13, 14, 15:
			mid = append(mid, g.namedResultsReturn())
		case 16:
			mid = append(mid, g.rangeAssignOuter())
		default:
			f := g.declFunc()
			mid = append(mid, g.callForms(f))
		}
	}
	// assemble: creations and plain statements interleaved, burn, reads, burn, reads
	var body strings.Builder
	all := append(append([]string{}, g.create...), mid...)
	perm := all
	if len(all) > 1 {
		perm = rapid.Permutation(all).Draw(t, "order")
	}
	for _, s := range perm {
		body.WriteString(s)
	}
	nt := ""
	if g.escapes > 0 {
		n1 := g.Int(33, 120, "burn1")
		if g.Chance(1, 4, "burn-long") {
			n1 = g.Int(121, 200, "burn1-long")
		}
		if g.Chance(1, 8, "burn-short") {
			n1 = g.Int(0, 32, "burn1-short") // fewer calls than the pool holds
			g.Tag("burn-below-pool-capacity")
		} else {
			nt = "escaped-variable-read-after->=33-calls"
			g.Tag("intervening-calls:" + bucket(n1))
		}
		body.WriteString(g.burn(n1))
		for _, s := range g.reads {
			body.WriteString(s)
		}
		n2 := g.Int(33, 80, "burn2")
		body.WriteString(g.burn(n2))
		// second round: the same reads again (new event numbers are not needed: the
		// values recorded differ through the modifications made by the first round)
		for _, s := range g.reads {
			body.WriteString(s)
		}
	}
	entry := g.Top("main")
	g.Decls = append(g.Decls, fmt.Sprintf("func %s() {\n%s}", entry, progen.Indent(body.String())))
	// Half of the programs ask hook H1 (option bit 62, read by fast/verif_h1_on.go; ignored
	// by a tree whose hook has no switch) to leave released frames as they are: poisoning
	// also wipes the stale contents of a pooled frame, which hides every defect that
	// consists in REUSING what a recycled frame still holds.
	var opts uint64
	if g.Chance(1, 2, "no-poison") {
		g.Tag("released-frames-not-poisoned")
		opts = 1 << 62
	} else {
		g.Tag("released-frames-poisoned")
	}
	return gobatch.Program{Decls: g.Decls, Entry: entry, Tags: g.TagList(), NT: nt, Options: opts}
}
