package c13

import "verif/harness/c12/inj"

// Probe programs of C13. Every loop is finite with a known length, so an interrupt
// that is not honoured shows up as normal completion, never as a hang.
//   HV(id, cnt) reports the progress counter cnt at the call; H(id) is the plain hook.
//   id   1.. 99 plain code, 100..199 inside a deferred function, 200..299 inside a
//   closure called back from compiled code.
// After the hook raised the interrupt at HV(id, v), at most `bound` further
// increments of cnt may happen: every loop iteration executes at least one statement
// and the executor polls the signal word after at most 15 statements of a frame.

// Deferred functions pending when the interrupt panic is raised run to completion
// while it unwinds (Go semantics of a panic), so work done inside deferred functions is
// counted in dcnt, not cnt: hooks with id 100..199 report dcnt.
const common = `
var cnt, dcnt int
var tr []int
func reset() { cnt = 0; dcnt = 0; tr = nil }
func spin(n int) { for i := 0; i < n; i++ { cnt++ } }
func dspin(n int) { for i := 0; i < n; i++ { dcnt++ } }
func inc() { cnt++ }
`

var probes = []inj.Probe{
	{
		Name: "tight-loop",
		Defs: common + `
func run() int {
	for r := 0; r < 5; r++ {
		HV(1, cnt)
		for i := 0; i < 3000; i++ { cnt++ } // no call inside
	}
	HV(2, cnt)
	return cnt
}
`,
		Main: "run()", Globals: []string{"cnt", "dcnt", "tr"}, Reset: "reset()",
	},
	{
		Name: "tight-loop-in-callee",
		Defs: common + `
func run() int {
	for r := 0; r < 5; r++ {
		HV(1, cnt)
		spin(3000)
		HV(2, cnt)
	}
	return cnt
}
`,
		Main: "run()", Globals: []string{"cnt", "dcnt", "tr"}, Reset: "reset()",
	},
	{
		Name: "loop-with-calls",
		Defs: common + `
func run() int {
	for r := 0; r < 4; r++ {
		HV(1, cnt)
		for i := 0; i < 2000; i++ { inc() }
		HV(2, cnt)
		for i := 0; i < 30; i++ { spin(50) }
	}
	return cnt
}
`,
		Main: "run()", Globals: []string{"cnt", "dcnt", "tr"}, Reset: "reset()",
	},
	{
		Name: "nested-calls",
		Defs: common + `
func c(n int) int { HV(1, cnt); spin(n); HV(2, cnt); return n }
func b(n int) int { HV(3, cnt); x := c(n) + c(n+1); spin(n); HV(4, cnt); return x }
func a(n int) int { HV(5, cnt); x := b(n) + b(n*2); spin(n); HV(6, cnt); return x }
func run() int { return a(1500) + a(700) }
`,
		Main: "run()", Globals: []string{"cnt", "dcnt", "tr"}, Reset: "reset()",
	},
	{
		Name: "deferred-calls",
		Defs: common + `
func d(n int) (r int) {
	HV(1, cnt)
	defer func() {
		HV(101, dcnt)
		dspin(n) // a long loop inside a deferred call
		HV(102, dcnt)
		for i := 0; i < n; i++ { dcnt++ }
		HV(103, dcnt)
		tr = append(tr, n)
	}()
	defer dspin(n) // a declared function deferred directly
	HV(2, cnt)
	spin(n)
	HV(3, cnt)
	return n
}
func run() int { return d(1200) + d(2500) }
`,
		Main: "run()", Globals: []string{"cnt", "dcnt", "tr"}, Reset: "reset()",
	},
	{
		// the deferred closure calls a function that has a defer of its own and returns
		// normally while the interrupt panic unwinds (round-2 seeded change C13-b: the
		// inner function's normal return must not make the outer one forget the panic)
		Name: "deferred-closure-calls-function-with-defer",
		Defs: common + `
func inner(n int) (r int) {
	defer func() { dcnt++ }()
	HV(104, dcnt)
	for i := 0; i < n; i++ { dcnt++ }
	return n
}
func d2(n int) (r int) {
	HV(1, cnt)
	defer func() {
		HV(101, dcnt)
		inner(n)
		HV(102, dcnt)
		tr = append(tr, n)
	}()
	HV(2, cnt)
	spin(n)
	HV(3, cnt)
	return n
}
func run() int { return d2(1200) + d2(2500) }
`,
		Main: "run()", Globals: []string{"cnt", "dcnt", "tr"}, Reset: "reset()",
	},
	{
		Name: "recursion",
		Defs: common + `
func rec(n int) int {
	HV(1, cnt)
	if n == 0 {
		spin(2000)
		HV(2, cnt)
		return 0
	}
	spin(300)
	x := rec(n-1) + 1
	HV(3, cnt)
	spin(300)
	return x
}
func run() int { return rec(5) }
`,
		Main: "run()", Globals: []string{"cnt", "dcnt", "tr"}, Reset: "reset()",
	},
	{
		Name: "closures-range-switch",
		Defs: common + `
func run() int {
	step := func(k int) { for j := 0; j < k; j++ { cnt++ } }
	xs := make([]int, 40)
	for i := range xs {
		switch {
		case i%10 == 0:
			HV(1, cnt)
			step(1500)
		case i%10 == 5:
			HV(2, cnt)
			for _, q := range xs { cnt += 1 + q }
			step(800)
		default:
			step(30)
		}
	}
	HV(3, cnt)
	return cnt
}
`,
		Main: "run()", Globals: []string{"cnt", "dcnt", "tr"}, Reset: "reset()",
	},
	{
		Name: "callback-from-compiled",
		Defs: common + `
func run() int {
	v := make([]int, 60)
	for i := range v { v[i] = (i * 37) % 61 }
	n := 0
	sortSlice(v, func(i, j int) bool {
		n++
		if n%25 == 1 { HV(201, cnt) }
		for q := 0; q < 40; q++ { cnt++ }
		return v[i] < v[j]
	})
	HV(1, cnt)
	spin(2000)
	return cnt
}
`,
		Main: "run()", Globals: []string{"cnt", "dcnt", "tr"}, Reset: "reset()",
	},
	{
		Name: "toplevel-loop",
		Defs: common,
		Main: `HV(1, cnt); for i := 0; i < 4000; i++ { cnt++ }; HV(2, cnt); for i := 0; i < 100; i++ { spin(40) }; HV(3, cnt); cnt`,
		Globals: []string{"cnt", "dcnt", "tr"}, Reset: "reset()",
	},
}

// asyncProbes: long finite loops that report progress every 32 iterations, so that the
// hook can observe how far the loop got when the second goroutine's Interrupt call had returned.
var asyncProbes = []inj.Probe{
	{
		Name: "async-tight",
		Defs: common + `
func run() int {
	HV(1, cnt)
	for i := 0; i < 200000; i++ {
		cnt++
		if cnt%32 == 0 { HV(2, cnt) }
	}
	return cnt
}
`,
		Main: "run()", Globals: []string{"cnt", "dcnt", "tr"}, Reset: "reset()",
	},
	{
		Name: "async-calls",
		Defs: common + `
func leaf() { inc(); if cnt%32 == 0 { HV(2, cnt) } }
func mid() { for i := 0; i < 10; i++ { leaf() } }
func run() int {
	HV(1, cnt)
	for i := 0; i < 10000; i++ { mid() }
	return cnt
}
`,
		Main: "run()", Globals: []string{"cnt", "dcnt", "tr"}, Reset: "reset()",
	},
	{
		Name: "async-deferred",
		Defs: common + `
func d() {
	defer func() {
		for i := 0; i < 80000; i++ { dcnt++; if dcnt%32 == 0 { HV(102, dcnt) } }
	}()
	HV(1, cnt)
	for i := 0; i < 80000; i++ { cnt++; if cnt%32 == 0 { HV(2, cnt) } }
}
func run() int { d(); return cnt }
`,
		Main: "run()", Globals: []string{"cnt", "dcnt", "tr"}, Reset: "reset()",
	},
	{
		Name: "async-no-hook-in-loop",
		Defs: common + `
func run() int {
	HV(1, cnt)
	for i := 0; i < 150000; i++ { cnt++ }
	HV(2, cnt)
	for i := 0; i < 150000; i++ { cnt++ }
	return cnt
}
`,
		Main: "run()", Globals: []string{"cnt", "dcnt", "tr"}, Reset: "reset()",
	},
}
