// C13: interrupting running code stops it promptly and leaves the interpreter usable.
// Fault enumeration: the compiled hook called by the probe programs raises
// Interp.Interrupt(os.Interrupt) on its k-th call, for every k (deterministic part), or
// wakes a second goroutine that raises it while the loop keeps running (asynchronous part).
// Oracle: the evaluation ends with panic(base.SigInterrupt); the progress counter of the
// interrupted code advances by at most `bound` after the interrupt was raised; later
// evaluations equal those of an interpreter that was never interrupted (O6).
package c13

import (
	"encoding/json"
	"fmt"
	"os"
	"strconv"
	"testing"

	"pgregory.net/rapid"

	"verif/harness/c12/inj"
	"verif/harness/vlib"
)

// bound on loop iterations (each at least one statement) executed by the interrupted
// code after the interrupt was raised. The executor polls after at most 15 statements
// of a frame; DESIGN.md fixes the tolerated bound at 64.
const bound = 64

var rec *vlib.Rec

func TestMain(m *testing.M) {
	rec = vlib.Open("C13")
	rec.Rule("cases = (probe program with finite loops of known length, OptDebugger on/off, entry point Eval / REPL ParseEvalPrint, fault point k): deterministic part: the compiled hook raises Interp.Interrupt on its k-th call, every k of 9 probes " +
		"(tight loop without calls, tight loop in a callee, loop with calls, nested calls, deferred calls incl. a directly deferred function, recursion, closures/range/switch, comparator called back from sort.Slice, top-level loop); " +
		"asynchronous part: the hook's k-th call (k drawn by rapid) wakes a second goroutine that raises the interrupt while long loops keep running; a run whose loop finished before the interrupt was observed is discarded and counted; rapid also draws sequences of 2-3 interrupts in one interpreter. " +
		"non-trivial = interrupt raised while the interpreter's call depth was >= 2 or inside a deferred function; distinct = distinct (probe, options, entry, kind, k)")
	rec.Assume("an interrupt raised while an evaluation runs must surface as panic(base.SigInterrupt) of that evaluation; the progress counter of the interrupted code may advance by at most 64 after the raise (deferred functions pending at that moment run to completion as for any panic, their work is counted separately)")
	rec.Assume("asynchronous part: 'interrupt was raised' is taken as the first hook call that sees the flag set by the second goroutine after its Interrupt call returned (sequentially consistent atomics), so no wall clock is involved; not run under -race (the async flag is written non-atomically by design)")
	rec.Assume("oracle O6 afterwards: the C12 battery of 48 later evaluations and a complete re-run of the probe compared with a reference interpreter that received the same definitions and variable values and never was interrupted")
	os.Exit(vlib.Main(m, rec))
}

// ---------------------------------------------------------------- per-step assertions of C13

func counterOf(id int) string {
	if id >= 100 && id < 200 {
		return "dcnt"
	}
	return "cnt"
}

func checkSteps(c inj.Case, res inj.CaseResult) string {
	for _, st := range res.Steps {
		if !st.Fired {
			continue
		}
		final := func(name string) int {
			n, err := strconv.Atoi(st.Snap[name])
			if err != nil {
				return -1
			}
			return n
		}
		switch c.Fault {
		case "interrupt":
			// An interrupt raised so late that the evaluation ends before the next poll is
			// dropped (Interp.prepareEnv clears it: "in case we received a SigInterrupt in the
			// meantime"); that is within the property as long as the code did stop within the bound.
			late := st.Class == "absorbed" && st.Snap != nil && st.FireV >= 0
			if st.Class != "escaped-interrupt" && !late {
				return fmt.Sprintf("%s: Interrupt was raised at the hook's call %d (id %d, counter %d) but the evaluation ended with %s instead of panic(SigInterrupt)",
					c.Key(st.K), st.K, st.FireID, st.FireV, clip(st.Outcome.String()))
			}
			if st.Class == "escaped-interrupt" && c.Entry != "repl" && st.Outcome.Panic != inj.SigInterruptText {
				return fmt.Sprintf("%s: the evaluation ended with %s, want exactly panic(base.SigInterrupt)", c.Key(st.K), st.Outcome)
			}
			if st.Snap != nil && st.FireV >= 0 {
				name := counterOf(st.FireID)
				if got := final(name); got < 0 || got-st.FireV > bound {
					return fmt.Sprintf("%s: interrupt raised when %s = %d, the interrupted code went on until %s = %d (more than %d iterations later; evaluation ended with %s)",
						c.Key(st.K), name, st.FireV, name, got, bound, clip(st.Outcome.String()))
				}
			}
		case "async":
			if st.Class != "escaped-interrupt" && st.Class != "absorbed" {
				return fmt.Sprintf("%s: asynchronous interrupt: the evaluation ended with %s", c.Key(st.K), clip(st.Outcome.String()))
			}
			if st.Class == "escaped-interrupt" && c.Entry != "repl" && st.Outcome.Panic != inj.SigInterruptText {
				return fmt.Sprintf("%s: the evaluation ended with %s, want exactly panic(base.SigInterrupt)", c.Key(st.K), st.Outcome)
			}
			// (an observation made inside a deferred function is not used: the function may be
			// running because the interrupt panic is already unwinding, and then runs to completion)
			if st.Snap != nil && st.SeenV >= 0 && !(st.SeenID >= 100 && st.SeenID < 200) {
				name := counterOf(st.SeenID)
				if got := final(name); got < 0 || got-st.SeenV > bound {
					return fmt.Sprintf("%s: the asynchronous interrupt had been raised when %s = %d, the interrupted code went on until %s = %d (more than %d iterations later; evaluation ended with %s)",
						c.Key(st.K), name, st.SeenV, name, got, bound, clip(st.Outcome.String()))
				}
			}
		}
	}
	return ""
}

func clip(s string) string {
	if len(s) > 200 {
		return s[:200] + "..."
	}
	return s
}

func account(c inj.Case, res inj.CaseResult) {
	for _, st := range res.Steps {
		rec.Label("outcome:" + st.Class)
		rec.Label("entry:" + c.Entry + "/optdbg=" + fmt.Sprint(c.OptDebugger) + "/" + c.Fault)
		if !st.Fired {
			continue
		}
		site := "plain"
		switch {
		case st.FireID >= 200:
			site = "callback-from-compiled"
		case st.FireID >= 100:
			site = "deferred-function"
		}
		rec.Label("site:" + site)
		rec.Label(fmt.Sprintf("depth-at-interrupt:%d", min(st.FireDepth, 8)))
		if c.Fault == "interrupt" && st.Class == "absorbed" {
			rec.Label("raised-too-late-evaluation-ended-within-bound")
		}
		if c.Fault == "async" {
			switch {
			case st.Class == "absorbed":
				rec.Label("async:discarded-loop-finished-first")
			case st.SeenV >= 0 && st.SeenID >= 100 && st.SeenID < 200:
				rec.Label("async:first-observation-inside-deferred-function-(not-bounded)")
			case st.SeenV >= 0:
				rec.Label("async:progress-observed-after-raise")
			default:
				rec.Label("async:interrupted-before-next-progress-report")
			}
		}
		if st.Snap != nil && c.Fault == "interrupt" && st.FireV >= 0 {
			if n, err := strconv.Atoi(st.Snap[counterOf(st.FireID)]); err == nil {
				rec.Label(fmt.Sprintf("iterations-after-raise:%d", n-st.FireV))
			}
		}
		if st.FireDepth >= 2 || (st.FireID >= 100 && st.FireID < 200) {
			rec.NT(c.Key(st.K))
		}
	}
}

func caseJSON(c inj.Case) []byte {
	data, _ := json.MarshalIndent(c, "", " ")
	return data
}

func runCase(c inj.Case, ref *inj.Ref) (inj.CaseResult, string) {
	res := inj.RunCaseRef(c, ref)
	if res.Harness != nil {
		return res, ""
	}
	// the C13-specific assertions come first: they explain a failure better than a battery difference
	if v := checkSteps(c, res); v != "" {
		return res, v
	}
	return res, res.Violation
}

// ---------------------------------------------------------------- replay

func replay(content []byte) error {
	var c inj.Case
	if err := json.Unmarshal(content, &c); err != nil || c.Probe.Main == "" {
		return nil
	}
	n := 1
	if c.Fault == "async" {
		n = 20 // the schedule is not owned by the harness: repeat
	}
	for i := 0; i < n; i++ {
		res, v := runCase(c, nil)
		if res.Harness != nil {
			panic(res.Harness)
		}
		if v != "" {
			return fmt.Errorf("%s", v)
		}
	}
	return nil
}

func TestReplays(t *testing.T) { rec.RunReplays(t, replay) }

// ---------------------------------------------------------------- deterministic part: every k

type config struct {
	optDbg bool
	entry  string
	stride int
}

func TestEnumerateInterruptPoints(t *testing.T) {
	if rec.ReplayOnly() {
		return
	}
	configs := []config{
		{false, "eval", 1},
		{true, "eval", rec.Scale(4, 1)},
		{false, "repl", rec.Scale(4, 1)},
		{true, "repl", rec.Scale(8, 1)},
	}
	idx, mine := 0, 0
	complete := true
	for ci, cf := range configs {
		for pi, p := range probes {
			base := inj.Case{Probe: p, OptDebugger: cf.optDbg, Entry: cf.entry, Fault: "interrupt"}
			ref := &inj.Ref{}
			n, _, o, err := inj.Count(base)
			if err != nil || n == 0 {
				t.Fatalf("%s: %v %s", p.Name, err, o)
			}
			if cf.stride > 1 {
				complete = false
			}
			off := int(rec.Seed()+int64(pi)+int64(ci)) % cf.stride
			for k := 1; k <= n+1; k++ { // k = n+1: control, nothing raised
				if k%cf.stride != off && k != n+1 && k != n {
					continue
				}
				idx++
				if !rec.Mine(idx) {
					continue
				}
				c := base
				c.Ks = []int{k}
				rec.Eval(1)
				mine++
				res, v := runCase(c, ref)
				account(c, res)
				if res.Harness != nil {
					t.Fatalf("harness: %v", res.Harness)
				}
				if idx%23 == 0 && len(res.Steps) == 1 {
					st := res.Steps[0]
					rec.Sample(map[string]interface{}{"case": c.Key(k), "outcome": st.Outcome.String(), "hook_id": st.FireID, "counter_at_raise": st.FireV,
						"depth_at_raise": st.FireDepth, "vars_after": inj.SnapString(st.Snap)})
				}
				if v != "" {
					rec.Violation("enumerate:"+c.Key(k), caseJSON(c), "json", "%s", v)
					t.Errorf("%s", v)
					return
				}
			}
		}
	}
	rec.LabelN("interrupt-points-enumerated", mine)
	rec.Exhaustive(complete)
}

// ---------------------------------------------------------------- asynchronous part and sequences

func TestAsyncInterrupts(t *testing.T) {
	counts := map[string]int{}
	refs := map[string]*inj.Ref{}
	rec.Check(t, rec.Scale(14, 60), func(t *rapid.T) { // counts are per shard
		async := rapid.IntRange(0, 3).Draw(t, "kind") > 0
		var c inj.Case
		if async {
			c = inj.Case{Probe: rapid.SampledFrom(asyncProbes).Draw(t, "probe"), Fault: "async"}
		} else {
			c = inj.Case{Probe: rapid.SampledFrom(probes).Draw(t, "probe"), Fault: "interrupt"}
		}
		c.OptDebugger = rapid.Bool().Draw(t, "optdbg")
		c.Entry = rapid.SampledFrom([]string{"eval", "eval", "repl"}).Draw(t, "entry")
		key := fmt.Sprint(c.Probe.Name, c.OptDebugger)
		n, ok := counts[key]
		if !ok {
			var err error
			n, _, _, err = inj.Count(c)
			if err != nil {
				t.Fatalf("harness: %v", err)
			}
			counts[key] = n
		}
		if async {
			// early hook calls: the loop must still have work left when the second goroutine gets to run
			hi := n / 2
			if hi < 1 {
				hi = 1
			}
			c.Ks = rapid.SliceOfN(rapid.IntRange(1, hi), 1, 2).Draw(t, "ks")
		} else {
			c.Ks = rapid.SliceOfN(rapid.IntRange(1, n+1), 2, 3).Draw(t, "ks")
		}
		if refs[key] == nil {
			refs[key] = &inj.Ref{}
		}
		res, v := runCase(c, refs[key])
		account(c, res)
		if res.Harness != nil {
			t.Fatalf("harness: %v", res.Harness)
		}
		rec.Label(fmt.Sprintf("sequence-length:%d", len(c.Ks)))
		if v != "" {
			rec.Failf(t, "async-or-sequence", caseJSON(c), "json", "%s", v)
		}
	})
}
