// C26: the multiline reader splits input losslessly at complete-statement boundaries.
//
// Oracles: (i) concatenation of the chunks == input (leading "#!" -> "//");
// (ii) go/scanner (standard library twin) on every chunk: no error (a cut inside a
// string, raw string, rune or comment shows up as "... not terminated") and bracket
// depth 0 at the end; (iii) for inputs built from complete statements the set of
// statement boundaries is known by construction (templates) or from go/parser's
// extents (corpus): every chunk boundary must be one of them and every chunk must
// parse alone with gomacro's parser when the whole input does.
package c26

import (
	"bufio"
	"bytes"
	"encoding/json"
	"fmt"
	"go/scanner"
	"go/token"
	"io"
	"os"
	"strings"
	"testing"

	"github.com/cosmos72/gomacro/base"
	"github.com/cosmos72/gomacro/fast"
	etoken "github.com/cosmos72/gomacro/go/etoken"
	mp "github.com/cosmos72/gomacro/go/parser"

	"verif/harness/vlib"
)

var rec *vlib.Rec

func TestMain(m *testing.M) {
	rec = vlib.Open("C26")
	rec.Rule("cases = (input, delivery) pairs. Inputs: every sequence of statement templates with <=3 (thorough <=4) lines in total, " +
		"drawn from an alphabet of one-line statements, comment/blank lines and multi-line statements built as head x middle x tail " +
		"(line ends in every binary/assignment operator, comma, each opening bracket, continuation keywords; strings, runes, raw strings and comments containing quotes, brackets, // and /*); " +
		"every item x leading material (none, spaces, tabs, block comment) x trailing material (none, spaces, // comment, /* */ comment, both) on its first line, last line and all lines; " +
		"rapid-drawn longer sequences with per-line leading/trailing material, nesting, CRLF, indentation, '#!' first line; standard-library files split into the stream of top-level declarations and, per function, the stream of body statements. " +
		"Deliveries: one line per Readline.Read, whole buffer through BufReadline (buffer 4096 and 16 bytes), with and without final newline, first read with and without ReadOptCollectAllComments, base.ReadMultiline and fast.Interp.Read. " +
		"A case is non-trivial when the reader returns at least one chunk spanning more than one line; distinct = distinct input texts")
	rec.Assume("go/scanner and go/parser of the standard library decide what is lexically valid Go, where tokens start and where declarations/statements begin and end")
	rec.Assume("inputs containing U+2029 (rewritten by BufReadline by design), '#!' elsewhere than at offset 0, and more than one line per Readline.Read are outside the domain")
	rec.Assume("merging several complete statements into one chunk is not a violation of the statement (each chunk still ends at a statement boundary); it is only counted")
	os.Exit(vlib.Main(m, rec))
}

// ---------------------------------------------------------------- plain case

// Case is the plain, replayable form of one input.
type Case struct {
	// Text is the whole input. Bounds, when not nil, lists the offsets (just after a
	// '\n', or len(Text)) where a chunk may end; nil = no boundary oracle.
	Text     string `json:"text"`
	Bounds   []int  `json:"bounds,omitempty"`
	Delivery string `json:"delivery"` // lines | buf | buf16 | interp
	AllCom   bool   `json:"all_comments"`
	// ParseChunks: every chunk holding a token must parse alone with gomacro's parser
	ParseChunks bool   `json:"parse_chunks"`
	Origin      string `json:"origin,omitempty"`
}

type lineReader struct {
	lines [][]byte
	i     int
	multi bool
}

func (l *lineReader) Read(prompt string) ([]byte, error) {
	if l.i >= len(l.lines) {
		return nil, io.EOF
	}
	b := l.lines[l.i]
	l.i++
	return b, nil
}

func splitLines(text string) [][]byte {
	var out [][]byte
	for len(text) > 0 {
		k := strings.IndexByte(text, '\n')
		if k < 0 {
			k = len(text) - 1
		}
		out = append(out, []byte(text[:k+1])) // private copy: the reader rewrites "#!" in place
		text = text[k+1:]
	}
	return out
}

type chunk struct {
	src   string
	first int
}

var sharedInterp *fast.Interp

// readAll drives the reader to the end of the input.
func readAll(c Case) (chunks []chunk, rerr error, calls int) {
	var rl base.Readline
	switch c.Delivery {
	case "lines", "interp":
		lines := splitLines(c.Text)
		if n := len(lines); n > 0 && !bytes.HasSuffix(lines[n-1], []byte("\n")) {
			// a terminal always delivers whole lines (TtyReadline appends '\n')
			lines[n-1] = append(lines[n-1], '\n')
		}
		rl = &lineReader{lines: lines}
	case "buf16":
		rl = base.MakeBufReadline(bufio.NewReaderSize(strings.NewReader(c.Text), 16))
	default:
		rl = base.MakeBufReadline(bufio.NewReader(strings.NewReader(c.Text)))
	}
	maxCalls := strings.Count(c.Text, "\n") + 3
	opts := base.ReadOptions(0)
	if c.AllCom {
		opts = base.ReadOptCollectAllComments
	}
	if c.Delivery == "interp" {
		if sharedInterp == nil {
			sharedInterp = fast.New()
		}
		ir := sharedInterp
		g := &ir.Comp.Globals
		save, saveErr := g.Readline, g.Stderr
		var errbuf bytes.Buffer
		g.Readline, g.Stderr = rl, &errbuf
		defer func() { g.Readline, g.Stderr = save, saveErr }()
		for calls = 0; calls < maxCalls; calls++ {
			src, first := ir.Read()
			if errbuf.Len() != 0 {
				rerr = fmt.Errorf("%s", strings.TrimSpace(errbuf.String()))
			}
			if src == "" && first < 0 || rerr != nil {
				if src != "" {
					chunks = append(chunks, chunk{src, first})
				}
				return
			}
			chunks = append(chunks, chunk{src, first})
		}
		rerr = fmt.Errorf("reader did not reach EOF after %d calls", maxCalls)
		return
	}
	for calls = 0; calls < maxCalls; calls++ {
		src, first, err := base.ReadMultiline(rl, opts, "")
		opts = 0 // as EvalReader: only the first read collects comments
		if src != "" {
			chunks = append(chunks, chunk{src, first})
		}
		if err != nil {
			if err != io.EOF {
				rerr = err
			}
			return
		}
	}
	rerr = fmt.Errorf("reader did not reach EOF after %d calls", maxCalls)
	return
}

// ---------------------------------------------------------------- standard-library scanner as oracle

type tok struct {
	off, end int
	tok      token.Token
	lit      string
}

// scanAll returns the tokens (comments included, automatic semicolons excluded) and the
// error messages of go/scanner.
func scanAll(src []byte) (toks []tok, errs []string) {
	fset := token.NewFileSet()
	f := fset.AddFile("", fset.Base(), len(src))
	var s scanner.Scanner
	s.Init(f, src, func(pos token.Position, msg string) { errs = append(errs, fmt.Sprintf("%d:%d: %s", pos.Line, pos.Column, msg)) }, scanner.ScanComments)
	for {
		pos, t, lit := s.Scan()
		if t == token.EOF {
			break
		}
		if t == token.SEMICOLON && lit != ";" {
			continue
		}
		off := f.Offset(pos)
		n := len(lit)
		if n == 0 {
			n = len(t.String())
		}
		if t == token.COMMENT || t == token.STRING {
			// CRs are stripped from the literal of raw strings and comments: measure in the source
			n = rawLen(src[off:], t)
		}
		toks = append(toks, tok{off, off + n, t, lit})
	}
	return
}

// rawLen measures a comment or string token in the source text.
func rawLen(s []byte, t token.Token) int {
	switch {
	case t == token.COMMENT && bytes.HasPrefix(s, []byte("//")):
		if k := bytes.IndexByte(s, '\n'); k >= 0 {
			if k > 0 && s[k-1] == '\r' {
				k--
			}
			return k
		}
		return len(s)
	case t == token.COMMENT:
		if k := bytes.Index(s[2:], []byte("*/")); k >= 0 {
			return k + 4
		}
		return len(s)
	case s[0] == '`':
		if k := bytes.IndexByte(s[1:], '`'); k >= 0 {
			return k + 2
		}
		return len(s)
	default: // interpreted string
		for i := 1; i < len(s); i++ {
			switch s[i] {
			case '\\':
				i++
			case '"':
				return i + 1
			case '\n':
				return i
			}
		}
		return len(s)
	}
}

// depthProfile returns the final bracket depth and the minimum reached.
func depthProfile(toks []tok) (final, min int) {
	d := 0
	for _, t := range toks {
		switch t.tok {
		case token.LPAREN, token.LBRACK, token.LBRACE:
			d++
		case token.RPAREN, token.RBRACK, token.RBRACE:
			d--
			if d < min {
				min = d
			}
		}
	}
	return d, min
}

func firstTokenOffset(toks []tok) int {
	for _, t := range toks {
		if t.tok != token.COMMENT {
			return t.off
		}
	}
	return -1
}

// shapes of the defects that are registered as known findings (or fixed)

// ctrlInLiteral: an interpreted string or rune literal holding a raw byte < 0x20.
func ctrlInLiteral(toks []tok, src []byte) bool {
	for _, t := range toks {
		if t.tok == token.CHAR || (t.tok == token.STRING && src[t.off] == '"') {
			for _, b := range src[t.off:t.end] {
				if b < ' ' {
					return true
				}
			}
		}
	}
	return false
}

// starStarSlash: a block comment holding "**/" (closed right after two or more stars).
func starStarSlash(toks []tok, src []byte) bool {
	for _, t := range toks {
		if t.tok == token.COMMENT && src[t.off+1] == '*' && bytes.Contains(src[t.off+2:t.end], []byte("**/")) {
			return true
		}
	}
	return false
}

// slashGlued: a division operator immediately followed by a bracket or a quote, or a
// "/=" ending its line.
func slashGlued(toks []tok, src []byte) bool {
	for i, t := range toks {
		switch t.tok {
		case token.QUO:
			if t.end < len(src) && strings.IndexByte("([{'\"`", src[t.end]) >= 0 {
				return true
			}
		case token.QUO_ASSIGN:
			if i+1 < len(toks) && bytes.IndexByte(src[t.end:toks[i+1].off], '\n') >= 0 {
				return true
			}
		}
	}
	return false
}

// keywordCutShape: the chunk [off,end) was cut after a line whose last token is a keyword
// that continues the statement, and that line is not at the very start of the chunk
// (shape of F-C26-3: offsets relative to the chunk used as offsets in the line).
func keywordCutShape(text string, off, end, first int) bool {
	if end < 1 || end > len(text) {
		return false
	}
	lineStart := strings.LastIndexByte(text[:end-1], '\n') + 1
	if lineStart <= off && first <= 0 {
		return false
	}
	toks, errs := scanAll([]byte(text[lineStart:end]))
	if len(errs) != 0 {
		return false
	}
	for i := len(toks) - 1; i >= 0; i-- {
		if t := toks[i].tok; t != token.COMMENT {
			return t.IsKeyword() && t != token.BREAK && t != token.CONTINUE && t != token.FALLTHROUGH && t != token.RETURN
		}
	}
	return false
}

// ---------------------------------------------------------------- gomacro's parser on a chunk

var parseCache = map[string]string{}

func gomacroParse(src string) (errText string) {
	if r, ok := parseCache[src]; ok {
		return r
	}
	p := vlib.Try(func() {
		var parser mp.Parser
		parser.Configure(0, '~')
		parser.Init(etoken.NewFileSet(), "repl.go", 0, []byte(src))
		_, err := parser.Parse()
		if err != nil {
			errText = err.Error()
		}
	})
	if p != nil {
		errText = fmt.Sprintf("parser panic: %v", p)
	}
	if len(parseCache) < 200000 {
		parseCache[src] = errText
	}
	return errText
}

// ---------------------------------------------------------------- the check of one case

type verdict struct {
	skipped   string // non-empty: outside the domain / known finding, nothing checked
	multiline int    // chunks spanning > 1 line
	merged    int    // chunks holding > 1 boundary-delimited item
	nchunks   int
}

func expectedConcat(text string) string {
	if strings.HasPrefix(text, "#!") {
		return "//" + text[2:]
	}
	return text
}

// checkCase returns a non-nil error when the property is violated on c.
func checkCase(c Case) (v verdict, err error) {
	if strings.Contains(c.Text, "\u2029") {
		v.skipped = "excluded:u+2029"
		return
	}
	want := expectedConcat(c.Text)
	if (c.Delivery == "lines" || c.Delivery == "interp") && !strings.HasSuffix(want, "\n") && want != "" {
		want += "\n" // the terminal-style delivery completes the last line
	}
	whole := []byte(want)
	toks, errs := scanAll(whole)
	if len(errs) != 0 {
		v.skipped = "excluded:not-lexically-valid-go"
		return
	}
	final, min := depthProfile(toks)
	balanced := final == 0 && min == 0
	if ctrlInLiteral(toks, whole) && known("F-C26-1") {
		rec.Excluded("F-C26-1")
		v.skipped = "known:F-C26-1"
		return
	}
	if starStarSlash(toks, whole) && known("F-C26-4") {
		rec.Excluded("F-C26-4")
		v.skipped = "known:F-C26-4"
		return
	}
	if slashGlued(toks, whole) && known("F-C26-2") {
		rec.Excluded("F-C26-2")
		v.skipped = "known:F-C26-2"
		return
	}

	var chunks []chunk
	var rerr error
	if p := vlib.Try(func() { chunks, rerr, _ = readAll(c) }); p != nil {
		return v, fmt.Errorf("reader panicked: %v", p)
	}
	if rerr != nil && !balanced && strings.Contains(rerr.Error(), io.ErrUnexpectedEOF.Error()) {
		rerr = nil // documented outcome for input that ends inside brackets
	}
	if rerr != nil {
		return v, fmt.Errorf("lexically valid input, reader failed: %v (chunks so far %q)", rerr, srcs(chunks))
	}
	// (i) lossless
	var sb strings.Builder
	for _, ch := range chunks {
		sb.WriteString(ch.src)
	}
	if got := sb.String(); got != want {
		return v, fmt.Errorf("concatenation of chunks differs from input at byte %d: chunks %q", firstDiff(got, want), srcs(chunks))
	}
	v.nchunks = len(chunks)
	// (ii) per chunk lexical state
	off := 0
	bounds := map[int]bool{}
	for _, b := range c.Bounds {
		bounds[b] = true
	}
	wholeParses := false
	if c.ParseChunks {
		wholeParses = gomacroParse(want) == ""
		if !wholeParses {
			rec.Label("parse-check-skipped:whole-input-rejected-by-gomacro-parser")
		}
	}
	for i, ch := range chunks {
		ctoks, cerrs := scanAll([]byte(ch.src))
		if len(cerrs) != 0 {
			return v, fmt.Errorf("chunk %d %q ends inside a token: %s", i, ch.src, cerrs[0])
		}
		last := i == len(chunks)-1
		if balanced || !last {
			if f, m := depthProfile(ctoks); balanced && (f != 0 || m != 0) {
				return v, fmt.Errorf("chunk %d %q ends at bracket depth %d (min %d) although the input is balanced", i, ch.src, f, m)
			}
		}
		// position of the first non-comment token (doc comment of ReadMultiline)
		if wantFirst := firstTokenOffset(ctoks); ch.first != wantFirst {
			return v, fmt.Errorf("chunk %d %q: first token reported at %d, go/scanner says %d", i, ch.src, ch.first, wantFirst)
		}
		if strings.Count(strings.TrimRight(ch.src, "\n"), "\n") > 0 {
			v.multiline++
		}
		end := off + len(ch.src)
		if c.Bounds != nil {
			if !bounds[end] && end != len(want) && known("F-C26-3") && keywordCutShape(want, off, end, ch.first) {
				rec.Excluded("F-C26-3")
				v.skipped = "known:F-C26-3"
				return v, nil
			}
			if !bounds[end] && end != len(want) {
				return v, fmt.Errorf("chunk %d %q ends at offset %d, inside a statement (next line %q)", i, ch.src, end, nextLine(want, end))
			}
			n := 0
			for b := off + 1; b <= end; b++ {
				if bounds[b] {
					n++
				}
			}
			if n > 1 {
				v.merged++
			}
		}
		if wholeParses && ch.first >= 0 {
			if e := gomacroParse(ch.src); e != "" {
				return v, fmt.Errorf("chunk %d %q does not parse alone (the whole input does): %s", i, ch.src, e)
			}
		}
		off = end
	}
	return v, nil
}

func srcs(chunks []chunk) []string {
	var l []string
	for _, c := range chunks {
		l = append(l, c.src)
	}
	return l
}

func firstDiff(a, b string) int {
	n := len(a)
	if len(b) < n {
		n = len(b)
	}
	for i := 0; i < n; i++ {
		if a[i] != b[i] {
			return i
		}
	}
	return n
}

func nextLine(s string, off int) string {
	if off >= len(s) {
		return ""
	}
	r := s[off:]
	if k := strings.IndexByte(r, '\n'); k >= 0 {
		r = r[:k]
	}
	return r
}

// known reports whether the exclusion of a registered finding is active. VERIF_NO_EXCLUSIONS=1
// switches all exclusions off (used to validate a fix patch in a scratch tree before the
// finding is re-registered as fixed).
func known(id string) bool {
	return rec.Known(id) && !inReplay && os.Getenv("VERIF_NO_EXCLUSIONS") == ""
}

// inReplay switches the known-finding exclusions off: a replay file is always checked in full.
var inReplay bool

func replay(content []byte) error {
	inReplay = true
	defer func() { inReplay = false }()
	var c Case
	if err := json.Unmarshal(content, &c); err != nil || c.Delivery == "" {
		return nil // not a C26 case
	}
	_, err := checkCase(c)
	return err
}

func TestReplays(t *testing.T) {
	rec.RunReplays(t, replay)
}

func caseJSON(c Case) []byte {
	data, _ := json.MarshalIndent(c, "", " ")
	return data
}

func account(c Case, v verdict) {
	if v.skipped != "" {
		rec.Label(v.skipped)
		return
	}
	rec.Label("delivery:" + c.Delivery)
	if v.multiline > 0 {
		rec.NT(c.Text)
		rec.Label("has-multiline-chunk")
	}
	if v.merged > 0 {
		rec.Label("merged-statements-in-one-chunk")
	}
}
