package c26

import (
	"fmt"
	"go/parser"
	"go/token"
	"strings"
	"testing"

	"pgregory.net/rapid"
)

// An item is one complete top-level thing: a statement or declaration (1..n lines), a
// comment, or a blank line. The reader may end a chunk only after the last line of an item.
type item struct {
	lines []string
	kind  string
}

func one(kind string, lines ...string) item { return item{lines, kind} }

// one-line statements
var singles = []string{
	"a := 1",
	"x = a + b",
	"f(a, b)",
	"i++",
	"i--",
	"x = a - -b",
	`s := "a // b"`,
	`s = "/* x"`,
	`s = "q\"q\\"`,
	`s = "it's"`,
	"s = \"a\tb\"", // raw TAB inside an interpreted string: valid Go
	`r := '\''`,
	`r = '"'`,
	"r = '`'",
	`r = '\\'`,
	"r = '\t'", // raw TAB inside a rune literal: valid Go
	"s = `raw \"x\" ' // y /* z`",
	"x = a / b",
	"x = a/(b)",
	"x = (a)/'b'",
	"x /= 2",
	"x = a /* c */ + b",
	"x = a // trailing + comment (",
	"x = a; y = b",
	"x = my_type",
	"x = y.z.w()",
	"v := []int{1, 2}",
	"m[k] = struct{}{}",
	"ch <- v",
	"x = <-ch",
	"x = *p",
	"go f()",
	"return a",
	"break",
	"var x int",
	"type T int",
	"func g() {}",
	"x = 1.5e+3",
	"x = a &^ b",
	"{ }",
}

var commentItems = []item{
	one("comment", "// comment"),
	one("comment", "// it's \"quoted ` ("),
	one("comment", "/* block ' \" ` { */"),
	one("comment", "/* a */ // b"),
	one("comment", "/* x **/"),
	one("comment", "/***/"),
	one("comment", "/** doc", " ** more **/"),
	one("comment", "/* multi", "line ' \" ` ( */"),
	one("comment", "/*", "// x", "*/"),
	one("blank", ""),
	one("blank", "  \t"),
}

// heads that leave an expression open; any operand completes them syntactically
var exprHeads = []string{
	"x = a +", "x = a -", "x = a *", "x = a /", "x = a %", "x = a &", "x = a |", "x = a ^",
	"x = a <<", "x = a >>", "x = a &^", "x = a &&", "x = a ||", "x = a ==", "x = a !=",
	"x = a <", "x = a <=", "x = a >", "x = a >=",
	"x =", "x :=", "x +=", "x -=", "x *=", "x /=", "x %=", "x &=", "x |=", "x ^=", "x <<=", "x >>=", "x &^=",
	"ch <-", "x = <-", "x = !", "x = -", "x = +", "x = ^", "x = *", "x = &",
	"x, y = a,", "var x =", "var x, y = 1,", "return a +", "return a,",
	"x = a + // c", "x = a + /* c */", "x = a /  ", "x = a / // c", "x = a +\t", "x = i++ +", "x = \"s\" +", "x = 'c' +", "x = `r` +",
	"x = a.b +", "x = f(1) *", "x = v[0] -", "x = a+", "x = a-", "x = a/",
}

var exprTails = []string{"b", "2", `"s"`, `'c'`, "(c)", "-c", "f(1)", "  b // end", "`r`", "+1", "&v", "<-ch"}

var exprMids = []string{"// mid", "/* c */", "", "/* ( */ // )"}

type bracketFamily struct {
	name  string
	heads []string
	mids  []string
	tails []string
}

var families = []bracketFamily{
	{"call", []string{"f(", "f(a,", "x = (a +", "x = g(a)(", "f(a, func() {}, ("},
		[]string{"1,", `")",`, `')',`, "`)`,", "// )", "/* ) */", "", "g(2),", "a +", "1, // x"},
		[]string{"b)", ")", "b) // done", "b); y = 1", "b,)"}},
	{"composite", []string{"v = []interface{}{", "v = []interface{}{1,", "v := [...]interface{}{"},
		[]string{"1,", `"}",`, `'}',`, "`}`,", "// }", "/* } */", "", "a +", "[]int{1},"},
		[]string{"2}", "2,}", "}", "2}[0]"}},
	{"index", []string{"x = v[", "v[", "x = v[1:"},
		[]string{"// ]", "", "a +"},
		[]string{"0]", "f(0)]"}},
	{"block", []string{"func g() {", "if a {", "for {", "x = func() {", "for i := 0; i < 3; i++ {", "switch {", "{", "go func() {"},
		[]string{"a := 1", `s = "}"`, `r = '}'`, "s = `}`", "// }", "/* } */", "", "i++", "return", "f(a, b)", "x = a /", "default:"},
		[]string{"}"}},
	{"decl", []string{"type T struct {", "var (", "const (", "type T interface {"},
		[]string{"// )}", ""},
		[]string{"}", ")"}},
}

// lines ending in a keyword after which Go inserts no semicolon
var keywordPairs = [][2]string{
	{"var", "x int"}, {"type", "T int"}, {"const", "c = 1"}, {"func", "g() {}"}, {"go", "f()"}, {"defer", "f()"},
	{"if", "a {}"}, {"for", "{}"}, {"switch", "{}"}, {"select", "{}"}, {"x = func", "() {}"}, {"var x map", "[int]int"},
	{"x = struct", "{}{}"}, {"var x interface", "{}"}, {"var c chan", "int"}, {"goto", "L"}, {"for i := range", "v {}"},
	{"var my_type", "int"}, {"x = my_var", ""}, {"return", ""}, {"break", ""}, {"continue", ""}, {"fallthrough", ""},
}

// validGo reports whether the statement is syntactically valid Go according to the
// standard parser, as a declaration or inside a function body.
func validGo(text string) bool {
	fset := token.NewFileSet()
	if _, err := parser.ParseFile(fset, "", "package p\n"+text+"\n", 0); err == nil {
		return true
	}
	_, err := parser.ParseFile(fset, "", "package p\nfunc _() {\n"+text+"\n}\n", 0)
	return err == nil
}

var (
	alphabet     []item // every item, grouped by line count in byLines
	byLines      = map[int][]item{}
	rejectedTmpl []string
)

func addItem(it item) {
	text := strings.Join(it.lines, "\n")
	if it.kind != "comment" && it.kind != "blank" {
		// "decl" bodies differ per head; drop the combinations the standard parser rejects
		if !validGo(text) {
			rejectedTmpl = append(rejectedTmpl, text)
			return
		}
	}
	alphabet = append(alphabet, it)
	n := len(it.lines)
	byLines[n] = append(byLines[n], it)
}

func buildAlphabet() {
	if alphabet != nil {
		return
	}
	for _, s := range singles {
		addItem(one("single", s))
	}
	for _, c := range commentItems {
		addItem(c)
	}
	for _, h := range exprHeads {
		for _, t := range exprTails {
			addItem(one("expr", h, t))
		}
		for _, m := range exprMids {
			addItem(one("expr+mid", h, m, exprTails[0]))
			addItem(one("expr+mid", h, m, exprTails[4]))
		}
	}
	for _, fam := range families {
		for _, h := range fam.heads {
			for _, t := range fam.tails {
				addItem(one(fam.name, h, t))
				for _, m := range fam.mids {
					addItem(one(fam.name+"+mid", h, m, t))
				}
			}
			for _, m1 := range fam.mids {
				for _, m2 := range fam.mids {
					addItem(one(fam.name+"+2mid", h, m1, m2, fam.tails[0]))
				}
			}
		}
	}
	for _, kp := range keywordPairs {
		if kp[1] == "" {
			addItem(one("keyword-end", kp[0]))
		} else {
			addItem(one("keyword", kp[0], kp[1]))
		}
	}
	addItem(one("else", "if a {", "} else", "{", "}"))
	addItem(one("else", "if a {", "} else {", "}"))
	addItem(one("else", "if a {", "} else if b {", "}"))
	addItem(one("rawstring", "s = `line1", "line2 \" ' // /* (`"))
	addItem(one("rawstring", "s = `a", "`; x = `", "b`"))
	addItem(one("rawstring", "f(`", "`, `", "`)"))
}

// render joins items into a Case with the boundary set known by construction.
func render(items []item, eol string, finalNL bool) (text string, bounds []int) {
	var sb strings.Builder
	for i, it := range items {
		for j, l := range it.lines {
			sb.WriteString(l)
			lastLine := i == len(items)-1 && j == len(it.lines)-1
			if !lastLine || finalNL {
				sb.WriteString(eol)
			}
		}
		bounds = append(bounds, sb.Len())
	}
	return sb.String(), bounds
}

// ---------------------------------------------------------------- leading / trailing material

type decor struct{ name, text string }

var leads = []decor{{"none", ""}, {"spaces", "    "}, {"tabs", "\t\t"}, {"block-comment", "/* l */ "}, {"space+block-comment", " /* l */\t"}}

var trails = []decor{{"none", ""}, {"spaces", "  "}, {"line-comment", " // t"}, {"block-comment", " /* t */"}, {"block+line-comment", " /* t */ // u"}, {"glued-line-comment", "// t"}}

// decorate adds leads[ld[k]] before and trails[tr[k]] after line k. It is accepted only
// when the standard scanner sees exactly the same non-comment tokens as before (the
// material added nothing but blanks and comments) and the standard parser still accepts
// the item; otherwise ok is false (e.g. a line inside a raw string or a block comment).
func decorate(it item, ld, tr []int) (d item, ok bool) {
	if it.kind == "shebang" {
		return it, false
	}
	l := make([]string, len(it.lines))
	for k, s := range it.lines {
		l[k] = leads[ld[k]].text + s + trails[tr[k]].text
	}
	d = item{l, it.kind}
	before, e1 := scanAll([]byte(strings.Join(it.lines, "\n") + "\n"))
	after, e2 := scanAll([]byte(strings.Join(l, "\n") + "\n"))
	if len(e1) != 0 || len(e2) != 0 {
		return it, false
	}
	var a, b []string
	for _, t := range before {
		if t.tok != token.COMMENT {
			a = append(a, t.tok.String()+t.lit)
		}
	}
	for _, t := range after {
		if t.tok != token.COMMENT {
			b = append(b, t.tok.String()+t.lit)
		}
	}
	if strings.Join(a, "\x00") != strings.Join(b, "\x00") {
		return it, false
	}
	if it.kind != "comment" && it.kind != "blank" && !validGo(strings.Join(l, "\n")) {
		return it, false
	}
	return d, true
}

func family(kind string) string {
	if k := strings.IndexByte(kind, '+'); k >= 0 {
		return kind[:k]
	}
	return kind
}

// TestDecoratedItems: every item of the alphabet x every leading material x every trailing
// material, applied (a) to the first line only, (b) to the last line only, (c) to every
// line; the item is followed by a plain statement and, in half of the cases, preceded by one.
func TestDecoratedItems(t *testing.T) {
	if rec.ReplayOnly() {
		return
	}
	buildAlphabet()
	idx := 0
	for _, it := range alphabet {
		if it.kind == "blank" {
			continue
		}
		for li := range leads {
			for ti := range trails {
				if li == 0 && ti == 0 {
					continue
				}
				for mode := 0; mode < 3; mode++ {
					if mode > 0 && len(it.lines) == 1 {
						continue
					}
					idx++
					if !rec.Mine(idx) {
						continue
					}
					if !rec.Thorough() && len(it.lines) >= 3 && (idx+int(rec.Seed()))%4 != 0 {
						continue // quick tier: a seed-chosen quarter of the items of 3 and 4 lines
					}
					ld, tr := make([]int, len(it.lines)), make([]int, len(it.lines))
					for k := range it.lines {
						if mode == 2 || mode == 0 && k == 0 || mode == 1 && k == len(it.lines)-1 {
							ld[k], tr[k] = li, ti
						}
					}
					d, ok := decorate(it, ld, tr)
					if !ok {
						rec.Label("decor:not-applicable(changes-tokens-or-rejected-by-go/parser)")
						continue
					}
					items := []item{d, one("single", "z := 0")}
					if idx%2 == 0 {
						items = append([]item{one("single", "a := 1")}, items...)
					}
					text, bounds := render(items, "\n", true)
					del := deliveries[idx%len(deliveries)]
					c := Case{Text: text, Bounds: bounds, Delivery: del, ParseChunks: true, AllCom: idx%3 == 0, Origin: "decorated item"}
					rec.Eval(1)
					v, err := checkCase(c)
					account(c, v)
					if v.skipped == "" {
						where := []string{"first-line", "last-line", "all-lines"}[mode]
						rec.Label("decor:lead=" + leads[li].name + ",trail=" + trails[ti].name)
						rec.Label("decor:" + family(it.kind) + ":" + where + ":lead=" + leads[li].name)
						rec.Label("decor:" + family(it.kind) + ":" + where + ":trail=" + trails[ti].name)
					}
					if err != nil {
						rec.Violation("decorated", caseJSON(c), "json", "%v", err)
						t.Errorf("%v\ninput %q delivery %s", err, text, del)
						return
					}
				}
			}
		}
	}
	if rec.Shard() == 0 {
		rec.LabelN("decor:combinations-enumerated", idx)
	}
}

var deliveries = []string{"lines", "buf", "buf16", "interp"}

func TestAlphabetIsValid(t *testing.T) {
	if rec.ReplayOnly() {
		return
	}
	buildAlphabet()
	// every statement template must be accepted alone by gomacro's parser, otherwise the
	// "parses on its own" oracle would be vacuous for it: count, do not fail
	n := 0
	for _, it := range alphabet {
		if it.kind == "comment" || it.kind == "blank" {
			continue
		}
		if e := gomacroParse(strings.Join(it.lines, "\n") + "\n"); e != "" {
			n++
			if n <= 5 {
				rec.Note("template rejected alone by gomacro's parser (parse oracle skipped for inputs holding it): %q: %s", strings.Join(it.lines, "\n"), e)
			}
		}
	}
	if rec.Shard() != 0 {
		return
	}
	rec.LabelN("alphabet-items", len(alphabet))
	rec.LabelN("alphabet-rejected-by-go/parser(dropped)", len(rejectedTmpl))
	rec.LabelN("alphabet-rejected-by-gomacro-parser", n)
	for k, l := range byLines {
		rec.LabelN(fmt.Sprintf("alphabet-items-of-%d-lines", k), len(l))
	}
	if len(alphabet) < 500 {
		t.Fatalf("alphabet too small: %d (rejected %q)", len(alphabet), rejectedTmpl)
	}
}

// TestExhaustiveSequences: every sequence of items with at most maxLines lines in total.
func TestExhaustiveSequences(t *testing.T) {
	if rec.ReplayOnly() {
		return
	}
	buildAlphabet()
	maxLines := rec.Scale(3, 4)
	idx := 0
	failed := false
	complete := true
	var cur []item
	var walk func(left int)
	walk = func(left int) {
		if failed {
			return
		}
		if len(cur) > 0 {
			idx++
			sampledOut := !rec.Thorough() && len(cur) >= 3 && (idx+int(rec.Seed()))%6 != 0
			if sampledOut {
				complete = false // quick tier: a seed-chosen sixth of the sequences of three one-line items
			}
			if rec.Mine(idx) && !sampledOut {
				text, bounds := render(cur, "\n", true)
				for d, del := range deliveries {
					if del == "buf" && idx%2 != 0 || del == "buf16" && idx%4 != 1 || del == "interp" && idx%4 != 3 {
						continue // line-by-line delivery always, the other deliveries on a half / a quarter of the sequences
					}
					c := Case{Text: text, Bounds: bounds, Delivery: del, ParseChunks: true, AllCom: (idx+d)%2 == 0, Origin: "exhaustive"}
					rec.Eval(1)
					v, err := checkCase(c)
					account(c, v)
					if v.skipped == "" {
						for _, it := range cur {
							rec.Label("item:" + it.kind)
						}
					}
					if err != nil {
						rec.Violation("exhaustive", caseJSON(c), "json", "%v", err)
						t.Errorf("%v\ninput %q delivery %s", err, text, del)
						failed = true
						return
					}
				}
				if idx%9973 == 0 {
					rec.Sample(map[string]interface{}{"input": text})
				}
			}
		}
		for n := 1; n <= left; n++ {
			for _, it := range byLines[n] {
				cur = append(cur, it)
				walk(left - n)
				cur = cur[:len(cur)-1]
				if failed {
					return
				}
			}
		}
	}
	walk(maxLines)
	rec.LabelN("exhaustive-sequences", idx)
	rec.Exhaustive(!failed && complete)
}

// TestRandomSequences: longer sequences, nesting, CRLF, indentation, "#!" line, missing final newline.
func TestRandomSequences(t *testing.T) {
	buildAlphabet()
	rec.Check(t, rec.Scale(2500, 60000), func(t *rapid.T) {
		n := rapid.IntRange(1, 12).Draw(t, "nitems")
		var items []item
		var decorLabels []string
		for i := 0; i < n; i++ {
			it := rapid.SampledFrom(alphabet).Draw(t, "item")
			if rapid.IntRange(0, 4).Draw(t, "nest") == 0 {
				// nest the item inside a block or a call: one bigger item
				inner := rapid.SampledFrom(alphabet).Draw(t, "inner")
				switch rapid.IntRange(0, 2).Draw(t, "nestkind") {
				case 0:
					l := append([]string{"func h() {"}, inner.lines...)
					l = append(l, it.lines...)
					it = item{append(l, "}"), "nested-block"}
				case 1:
					l := append([]string{"if a {"}, it.lines...)
					l = append(l, "} else {")
					l = append(l, inner.lines...)
					it = item{append(l, "}"), "nested-else"}
				default:
					l := append([]string{"f(func() {"}, it.lines...)
					it = item{append(l, "}, 1,", "2)"), "nested-call"}
				}
				if !validGo(strings.Join(it.lines, "\n")) {
					it = inner
				}
			}
			if rapid.IntRange(0, 2).Draw(t, "decorate") != 0 {
				// leading and trailing material drawn independently for every line of the item
				ld, tr := make([]int, len(it.lines)), make([]int, len(it.lines))
				for k := range it.lines {
					ld[k] = rapid.IntRange(0, len(leads)-1).Draw(t, "lead")
					tr[k] = rapid.IntRange(0, len(trails)-1).Draw(t, "trail")
				}
				if d, ok := decorate(it, ld, tr); ok {
					it = d
					for k := range ld {
						decorLabels = append(decorLabels, "decor:random:lead="+leads[ld[k]].name+",trail="+trails[tr[k]].name)
					}
				}
			}
			items = append(items, it)
		}
		if rapid.IntRange(0, 5).Draw(t, "shebang") == 0 {
			items = append([]item{one("shebang", "#!/usr/bin/env gomacro")}, items...)
		}
		eol := rapid.SampledFrom([]string{"\n", "\n", "\n", "\r\n"}).Draw(t, "eol")
		finalNL := rapid.IntRange(0, 3).Draw(t, "finalnl") != 0
		text, bounds := render(items, eol, finalNL)
		c := Case{Text: text, Bounds: bounds, ParseChunks: eol == "\n", Origin: "random",
			Delivery: rapid.SampledFrom(deliveries).Draw(t, "delivery"), AllCom: rapid.Bool().Draw(t, "allcom")}
		if c.AllCom && c.Delivery != "interp" {
			// with ReadOptCollectAllComments the leading comment items join the first chunk: by design
			k := 0
			for k < len(items)-1 && (items[k].kind == "comment" || items[k].kind == "blank" || items[k].kind == "shebang") {
				k++
			}
			_ = k // boundaries stay legal ends; nothing to change: merging is allowed
		}
		v, err := checkCase(c)
		account(c, v)
		if v.skipped == "" {
			for _, it := range items {
				rec.Label("item:" + it.kind)
			}
			for _, l := range decorLabels {
				rec.Label(l)
			}
			rec.Label("eol:" + fmt.Sprintf("%q", eol))
			if !finalNL {
				rec.Label("no-final-newline")
			}
			if v.multiline > 0 {
				rec.Sample(map[string]interface{}{"input": text, "delivery": c.Delivery})
			}
		}
		if err != nil {
			rec.Failf(t, "random-sequences", caseJSON(c), "json", "%v", err)
		}
	})
}
