package c26

import (
	"go/ast"
	"go/parser"
	"go/token"
	"hash/fnv"
	"os"
	"path/filepath"
	"sort"
	"strings"
	"testing"
)

func corpusFiles(roots ...string) []string {
	var files []string
	for _, root := range roots {
		filepath.Walk(root, func(path string, info os.FileInfo, err error) error {
			if err == nil && !info.IsDir() && strings.HasSuffix(path, ".go") {
				files = append(files, path)
			}
			return nil
		})
	}
	sort.Strings(files)
	return files
}

type extent struct{ pos, end int } // [pos, end) offsets in the file

// stream is a piece of a file that is a sequence of complete declarations or statements.
type stream struct {
	start, end int // offsets in the file
	inner      []extent
	noParse    string // reason why the "parses alone" oracle does not apply
	origin     string
}

func stmtExtent(f *token.File, s ast.Stmt, out *[]extent, labels *bool) {
	if l, ok := s.(*ast.LabeledStmt); ok {
		// a label on its own line is not promised to stay with its statement
		*labels = true
		*out = append(*out, extent{f.Offset(l.Pos()), f.Offset(l.Colon) + 1})
		stmtExtent(f, l.Stmt, out, labels)
		return
	}
	*out = append(*out, extent{f.Offset(s.Pos()), f.Offset(s.End())})
}

// fileStreams derives the streams of one parsed file.
func fileStreams(fset *token.FileSet, file *ast.File, src []byte, path string) []stream {
	tf := fset.File(file.Pos())
	var comments []extent
	for _, cg := range file.Comments {
		for _, c := range cg.List {
			comments = append(comments, extent{tf.Offset(c.Pos()), tf.Offset(c.End())})
		}
	}
	var out []stream
	// top-level declarations: from the line after the package clause to the end of the file
	start := tf.Offset(file.Name.End())
	if k := strings.IndexByte(string(src[start:]), '\n'); k >= 0 {
		start += k + 1
		st := stream{start: start, end: len(src), origin: path + " declarations"}
		for _, d := range file.Decls {
			pos := d.Pos()
			st.inner = append(st.inner, extent{tf.Offset(pos), tf.Offset(d.End())})
		}
		st.inner = append(st.inner, comments...)
		if len(file.Decls) > 0 && tf.Offset(file.Decls[0].Pos()) >= start {
			out = append(out, st)
		}
	}
	// statements of every function body
	for _, d := range file.Decls {
		fd, ok := d.(*ast.FuncDecl)
		if !ok || fd.Body == nil || len(fd.Body.List) == 0 {
			continue
		}
		st := stream{start: tf.Offset(fd.Body.Lbrace) + 1, end: tf.Offset(fd.Body.Rbrace), origin: path + " body of " + fd.Name.Name}
		labels := false
		for _, s := range fd.Body.List {
			stmtExtent(tf, s, &st.inner, &labels)
		}
		ast.Inspect(fd.Body, func(n ast.Node) bool {
			switch n := n.(type) {
			case *ast.LabeledStmt:
				labels = true
			case *ast.BranchStmt:
				if n.Label != nil {
					labels = true
				}
			}
			return true
		})
		if labels {
			st.noParse = "labels"
		}
		for _, c := range comments {
			if c.pos >= st.start && c.end <= st.end {
				st.inner = append(st.inner, c)
			}
		}
		out = append(out, st)
	}
	return out
}

// boundsOf lists the offsets (relative to the stream) after each newline that lies outside every inner extent.
func boundsOf(src []byte, st stream) []int {
	text := src[st.start:st.end]
	forbidden := make([]bool, len(text)+1)
	for _, e := range st.inner {
		for p := e.pos; p < e.end; p++ {
			if q := p - st.start; q >= 0 && q < len(text) {
				forbidden[q] = true
			}
		}
	}
	var bounds []int
	for i, b := range text {
		if b == '\n' && !forbidden[i] {
			bounds = append(bounds, i+1)
		}
	}
	return append(bounds, len(text))
}

func TestCorpus(t *testing.T) {
	if rec.ReplayOnly() {
		return
	}
	roots := []string{"/usr/share/go-1.23/src"}
	if rec.Thorough() {
		roots = append(roots, "/usr/share/go-1.23/test")
	}
	files := corpusFiles(roots...)
	if len(files) < 1000 {
		t.Fatalf("corpus not found: %d files", len(files))
	}
	nfiles, nstreams := 0, 0
	for i, path := range files {
		if !rec.Mine(i) {
			continue
		}
		if !rec.Thorough() {
			h := fnv.New32a()
			h.Write([]byte(path))
			if (int64(h.Sum32())+rec.Seed())%16 != 0 {
				continue
			}
		}
		src, err := os.ReadFile(path)
		if err != nil {
			continue
		}
		fset := token.NewFileSet()
		file, err := parser.ParseFile(fset, path, src, parser.ParseComments)
		if err != nil {
			rec.Label("corpus:file-rejected-by-go/parser")
			continue
		}
		nfiles++
		for k, st := range fileStreams(fset, file, src, path) {
			text := string(src[st.start:st.end])
			if strings.Count(text, "\n") < 2 {
				continue
			}
			toks, errs := scanAll([]byte(text))
			if len(errs) != 0 {
				rec.Label("excluded:not-lexically-valid-go")
				continue
			}
			bounds := boundsOf(src, st)
			bset := map[int]bool{}
			for _, b := range bounds {
				bset[b] = true
			}
			skip := ""
			noParse := st.noParse
			for j, tk := range toks {
				switch tk.tok {
				case token.TILDE:
					skip = "excluded:tilde-token(go1.18-generics,documented-limitation)"
				case token.PERIOD:
					if j+1 < len(toks) {
						if nl := strings.IndexByte(text[tk.end:toks[j+1].off], '\n'); nl >= 0 {
							// continuation after '.' is not promised: a cut there is legal, parse oracle off
							for p := tk.end; p < toks[j+1].off; p++ {
								if text[p] == '\n' && !bset[p+1] {
									bounds = append(bounds, p+1)
									bset[p+1] = true
								}
							}
							noParse = "dot-continuation"
						}
					}
				}
			}
			if skip != "" {
				rec.Label(skip)
				continue
			}
			if noParse != "" {
				rec.Label("corpus:parse-oracle-off:" + noParse)
			}
			sort.Ints(bounds)
			c := Case{Text: text, Bounds: bounds, ParseChunks: noParse == "", Origin: st.origin,
				Delivery: deliveries[(i+k)%len(deliveries)], AllCom: (i+k)%3 == 0}
			rec.Eval(1)
			nstreams++
			v, err := checkCase(c)
			account(c, v)
			if v.skipped == "" {
				rec.Label("corpus:stream-checked")
				rec.LabelN("corpus:chunks", v.nchunks)
				rec.LabelN("corpus:multiline-chunks", v.multiline)
			}
			if err != nil {
				rec.Violation("corpus", caseJSON(c), "json", "%s: %v", st.origin, err)
				t.Errorf("%s: %v", st.origin, err)
				return
			}
		}
	}
	rec.LabelN("corpus:files", nfiles)
	_ = nstreams
}
